"""Definition of every check: which test binaries, which tests, how many cases per tier."""


def unit(pkg, run, variant="default", checks=100, timeout=600, shards=1, **kw):
    d = dict(pkg=pkg, run=run, variant=variant, checks=checks, timeout=timeout, shards=shards)
    d.update(kw)
    return d


CHECKS = {}

META = {
    "hook_commits": [],
    "engines": [
        {"name": "harness", "path": "/verif/harness", "serves_properties": [],
         "kind_free_text": "Go module (go1.26.8) replacing github.com/ClickHouse/ch-go with /repo: rapid v1.3.0 "
                           "properties and state machines, exhaustive inner loops, independent reference codecs, "
                           "simulated net.Conn + scripted server in testing/synctest bubbles, native go fuzz targets"},
        {"name": "driver", "path": "/verif/check", "serves_properties": [],
         "kind_free_text": "Python driver: builds test binaries from /repo's working tree, derives rapid seeds from "
                           "VERIF_SEED, shards, merges per-process statistics into evidence, maps failures to "
                           "VIOLATION / KNOWN-FINDING / inconclusive"},
    ],
    "notes": "Property-based testing and fuzzing only. Known findings: /verif/known_findings.json. "
             "Replays of confirmed findings: /verif/replays. Seeded breaking changes: /verif/seeded.",
    "pending": {},
}


def check(cid, title, level, rule, quick, thorough, manifest, assumptions=(), **kw):
    def norm(t):
        if isinstance(t, list):
            return {"units": t}
        return t
    CHECKS[cid] = dict(title=title, level=level, rule=rule, quick=norm(quick), thorough=norm(thorough),
                       assumptions=list(assumptions), manifest=manifest, **kw)
    for e in META["engines"]:
        e["serves_properties"].append(cid)


check(
    "C20", "scalar conversions exact over documented range", "exploration",
    rule=("Exhaustive enumerations (every Date x 27 fixed zones x 3 clock times; every Date32 day 1900..2299 x the same; "
          "thorough: all 2^32 DateTime seconds and all 2^32 IPv4 values) are distinct by construction; random cases "
          "(DateTime64 at precision 0..9 against math/big, wide ints against two's complement, intervals against "
          "(year,month) index arithmetic) are drawn by rapid and hashed. Non-trivial = instant before 1970, or within a "
          "day of a range end, or beyond int64 nanoseconds, or in a non-UTC zone; interval with n != 0 on a calendar "
          "scale or non-UTC zone; wide int negative or above MaxInt64."),
    quick=[unit("codec", "^TestC20", checks=20000, timeout=600)],
    thorough=[unit("codec", "^TestC20", checks=200000, timeout=3000, shards=16)],
    manifest=dict(
        text="Generated-input search with exhaustive sub-domains: every Date and every Date32 day of the documented range "
             "in 27 fixed zones, (thorough) every DateTime second and IPv4 value, and rapid-drawn DateTime64 / wide-int / "
             "interval cases judged by oracles that share no code with the library (civil-from-days arithmetic, math/big). "
             "Exhaustive where the domain is finite and small, sampled with boundary bias elsewhere.",
        design_ref="DESIGN.md 4 C20",
        note="Trusts package time, math/big, net/netip. Fixed-offset zones only. DateTime64 range per ClickHouse docs "
             "(1900..2299; precision 9 limited to int64 nanoseconds).",
        technique="property-based testing (rapid) + exhaustive enumeration against independent arithmetic oracles",
    ),
    assumptions=["package time (time.Date, time.Unix, FixedZone) and math/big are correct",
                 "fixed-offset zones stand in for all zones (the conversions only use the offset)"],
)

check(
    "C01", "block encode->decode identity", "exploration",
    rule=("rapid draws blocks of 1-4 columns from a catalog of 718 kinds (47 scalar families x 17 compositions up to depth 3, "
          "plus random tuples), a shared row count, values with boundary bias, a revision from both sides of every "
          "block-affecting feature, an output buffer that is empty or pre-filled with 1-40 junk bytes; each case is run in "
          "the default and the purego build. Distinct = hash of (names, types, reference encoding of the values, revision, "
          "prefix). Non-trivial = at least one row and (a composite column, or a boundary-class value: empty/all-zero/"
          "all-ones/min/max/>=127 bytes). Extra generators steer LowCardinality dictionaries to 254..257 (thorough: "
          "65534..65537) distinct values and strings to the 16383/16384 varint boundary."),
    quick=[unit("codec", "^TestC01", checks=2500, timeout=900),
           unit("codec", "^TestC01", variant="purego", checks=2500, timeout=900)],
    thorough=[unit("codec", "^TestC01", checks=40000, timeout=6000, shards=10),
              unit("codec", "^TestC01", variant="purego", checks=40000, timeout=6000, shards=6)],
    manifest=dict(
        text="Generated-input search over the whole type catalog with five oracles per case: buffer independence, byte "
             "equality with an independent reference encoder (validity + decoded values for LowCardinality, whose encoding "
             "is not canonical), reference decoding of the library's bytes with exact consumption, library decoding of both "
             "encodings into typed targets and through Results.Auto() read back by reflection, raw-block round trip. "
             "Run on both builds. Exploration: no claim beyond the cases generated.",
        design_ref="DESIGN.md 4 C01",
        note="Trusts the harness's reference codec (written from the Native format, cross-checked against the library in "
             "both directions). Depth > 3 and blocks above ~10^5 rows are not generated. time.Time-valued columns are fed "
             "only instants of the documented ranges.",
        technique="property-based testing (rapid) with an independent reference codec as differential oracle, both builds",
    ),
    assumptions=["reference codec in /verif/harness/ref is correct", "Tuple is generated at top level only"],
)
