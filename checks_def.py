"""Definition of every check: which test binaries, which tests, how many cases per tier."""


def unit(pkg, run, variant="default", checks=100, timeout=600, shards=1, **kw):
    d = dict(pkg=pkg, run=run, variant=variant, checks=checks, timeout=timeout, shards=shards)
    d.update(kw)
    return d


CHECKS = {}

META = {
    "hook_commits": [],
    "engines": [
        {"name": "harness", "path": "/verif/harness", "serves_properties": [],
         "kind_free_text": "Go module (go1.26.8) replacing github.com/ClickHouse/ch-go with /repo: rapid v1.3.0 "
                           "properties and state machines, exhaustive inner loops, independent reference codecs, "
                           "simulated net.Conn + scripted server in testing/synctest bubbles, native go fuzz targets"},
        {"name": "driver", "path": "/verif/check", "serves_properties": [],
         "kind_free_text": "Python driver: builds test binaries from /repo's working tree, derives rapid seeds from "
                           "VERIF_SEED, shards, merges per-process statistics into evidence, maps failures to "
                           "VIOLATION / KNOWN-FINDING / inconclusive"},
    ],
    "notes": "Property-based testing and fuzzing only. Known findings: /verif/known_findings.json. "
             "Replays of confirmed findings: /verif/replays. Seeded breaking changes: /verif/seeded.",
    "pending": {},
}


def check(cid, title, level, rule, quick, thorough, manifest, assumptions=(), **kw):
    def norm(t):
        if isinstance(t, list):
            return {"units": t}
        return t
    CHECKS[cid] = dict(title=title, level=level, rule=rule, quick=norm(quick), thorough=norm(thorough),
                       assumptions=list(assumptions), manifest=manifest, **kw)
    for e in META["engines"]:
        e["serves_properties"].append(cid)


check(
    "C20", "scalar conversions exact over documented range", "exploration",
    rule=("Exhaustive enumerations (every Date x 27 fixed zones x 3 clock times; every Date32 day 1900..2299 x the same; "
          "thorough: all 2^32 DateTime seconds and all 2^32 IPv4 values) are distinct by construction; random cases "
          "(DateTime64 at precision 0..9 against math/big, wide ints against two's complement, intervals against "
          "(year,month) index arithmetic) are drawn by rapid and hashed. Non-trivial = instant before 1970, or within a "
          "day of a range end, or beyond int64 nanoseconds, or in a non-UTC zone; interval with n != 0 on a calendar "
          "scale or non-UTC zone; wide int negative or above MaxInt64."),
    quick=[unit("codec", "^TestC20", checks=20000, timeout=600)],
    thorough=[unit("codec", "^TestC20", checks=200000, timeout=3000, shards=16)],
    manifest=dict(
        text="Generated-input search with exhaustive sub-domains: every Date and every Date32 day of the documented range "
             "in 27 fixed zones, (thorough) every DateTime second and IPv4 value, and rapid-drawn DateTime64 / wide-int / "
             "interval cases judged by oracles that share no code with the library (civil-from-days arithmetic, math/big). "
             "Exhaustive where the domain is finite and small, sampled with boundary bias elsewhere.",
        design_ref="DESIGN.md 4 C20",
        note="Trusts package time, math/big, net/netip. Fixed-offset zones only. DateTime64 range per ClickHouse docs "
             "(1900..2299; precision 9 limited to int64 nanoseconds).",
        technique="property-based testing (rapid) + exhaustive enumeration against independent arithmetic oracles",
    ),
    assumptions=["package time (time.Date, time.Unix, FixedZone) and math/big are correct",
                 "fixed-offset zones stand in for all zones (the conversions only use the offset)"],
)
