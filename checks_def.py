"""Definition of every check: which test binaries, which tests, how many cases per tier."""


def unit(pkg, run, variant="default", checks=100, timeout=600, shards=1, **kw):
    d = dict(pkg=pkg, run=run, variant=variant, checks=checks, timeout=timeout, shards=shards)
    d.update(kw)
    return d


CHECKS = {}

META = {
    "hook_commits": [],
    "engines": [
        {"name": "harness", "path": "/verif/harness", "serves_properties": [],
         "kind_free_text": "Go module (go1.26.8) replacing github.com/ClickHouse/ch-go with /repo: rapid v1.3.0 "
                           "properties and state machines, exhaustive inner loops, independent reference codecs, "
                           "simulated net.Conn + scripted server in testing/synctest bubbles, native go fuzz targets"},
        {"name": "driver", "path": "/verif/check", "serves_properties": [],
         "kind_free_text": "Python driver: builds test binaries from /repo's working tree, derives rapid seeds from "
                           "VERIF_SEED, shards, merges per-process statistics into evidence, maps failures to "
                           "VIOLATION / KNOWN-FINDING / inconclusive"},
    ],
    "notes": "Property-based testing and fuzzing only. Known findings: /verif/known_findings.json. "
             "Replays of confirmed findings: /verif/replays. Seeded breaking changes: /verif/seeded.",
    "pending": {},
}


def check(cid, title, level, rule, quick, thorough, manifest, assumptions=(), **kw):
    def norm(t):
        if isinstance(t, list):
            return {"units": t}
        return t
    CHECKS[cid] = dict(title=title, level=level, rule=rule, quick=norm(quick), thorough=norm(thorough),
                       assumptions=list(assumptions), manifest=manifest, **kw)
    for e in META["engines"]:
        e["serves_properties"].append(cid)


check(
    "C20", "scalar conversions exact over documented range", "exploration",
    rule=("Exhaustive enumerations (every Date x 27 fixed zones x 3 clock times; every Date32 day 1900..2299 x the same; "
          "thorough: all 2^32 DateTime seconds and all 2^32 IPv4 values) are distinct by construction; random cases "
          "(DateTime64 at precision 0..9 against math/big, wide ints against two's complement, intervals against "
          "(year,month) index arithmetic) are drawn by rapid and hashed. Non-trivial = instant before 1970, or within a "
          "day of a range end, or beyond int64 nanoseconds, or in a non-UTC zone; interval with n != 0 on a calendar "
          "scale or non-UTC zone; wide int negative or above MaxInt64."),
    quick=[unit("codec", "^TestC20", checks=20000, timeout=600)],
    thorough=[unit("codec", "^TestC20", checks=200000, timeout=3000, shards=16)],
    manifest=dict(
        text="Generated-input search with exhaustive sub-domains: every Date and every Date32 day of the documented range "
             "in 27 fixed zones, (thorough) every DateTime second and IPv4 value, and rapid-drawn DateTime64 / wide-int / "
             "interval cases judged by oracles that share no code with the library (civil-from-days arithmetic, math/big). "
             "Exhaustive where the domain is finite and small, sampled with boundary bias elsewhere.",
        design_ref="DESIGN.md 4 C20",
        note="Trusts package time, math/big, net/netip. Fixed-offset zones only. DateTime64 range per ClickHouse docs "
             "(1900..2299; precision 9 limited to int64 nanoseconds).",
        technique="property-based testing (rapid) + exhaustive enumeration against independent arithmetic oracles",
    ),
    assumptions=["package time (time.Date, time.Unix, FixedZone) and math/big are correct",
                 "fixed-offset zones stand in for all zones (the conversions only use the offset)"],
)

check(
    "C01", "block encode->decode identity", "exploration",
    rule=("rapid draws blocks of 1-4 columns from a catalog of 718 kinds (47 scalar families x 17 compositions up to depth 3, "
          "plus random tuples), a shared row count, values with boundary bias, a revision from both sides of every "
          "block-affecting feature, an output buffer that is empty or pre-filled with 1-40 junk bytes; each case is run in "
          "the default and the purego build. Distinct = hash of (names, types, reference encoding of the values, revision, "
          "prefix). Non-trivial = at least one row and (a composite column, or a boundary-class value: empty/all-zero/"
          "all-ones/min/max/>=127 bytes). Extra generators steer LowCardinality dictionaries to 254..257 (thorough: "
          "65534..65537) distinct values and strings to the 16383/16384 varint boundary."),
    quick=[unit("codec", "^TestC01", checks=2500, timeout=900),
           unit("codec", "^TestC01", variant="purego", checks=2500, timeout=900)],
    thorough=[unit("codec", "^TestC01", checks=40000, timeout=6000, shards=10),
              unit("codec", "^TestC01", variant="purego", checks=40000, timeout=6000, shards=6)],
    manifest=dict(
        text="Generated-input search over the whole type catalog with five oracles per case: buffer independence, byte "
             "equality with an independent reference encoder (validity + decoded values for LowCardinality, whose encoding "
             "is not canonical), reference decoding of the library's bytes with exact consumption, library decoding of both "
             "encodings into typed targets and through Results.Auto() read back by reflection, raw-block round trip. "
             "Run on both builds. Exploration: no claim beyond the cases generated.",
        design_ref="DESIGN.md 4 C01",
        note="Trusts the harness's reference codec (written from the Native format, cross-checked against the library in "
             "both directions). Depth > 3 and blocks above ~10^5 rows are not generated. time.Time-valued columns are fed "
             "only instants of the documented ranges.",
        technique="property-based testing (rapid) with an independent reference codec as differential oracle, both builds",
    ),
    assumptions=["reference codec in /verif/harness/ref is correct", "Tuple is generated at top level only"],
)

check(
    "C05", "compressed frames round-trip; corrupted frames rejected", "fault_enumeration",
    rule=("(a) enumeration: every payload length 0..300 (thorough 0..4096, plus sizes to 4 MiB) x 17 method/level settings "
          "(None, LZ4, ZSTD, LZ4HC levels 0..12 and 99) x 4 content classes, library frame checked by the reference frame "
          "parser and both library- and reference-built frames read back by the library; (b) rapid: streams of 1-8 frames "
          "read with drawn read sizes, directly and through proto.Reader; (c) fault enumeration: for rapid-drawn streams of "
          "1-3 frames EVERY byte offset x masks {01,80,ff,random} is altered and everything the reader hands out, also on 3 "
          "further reads after the error, is judged; (d) truncated streams and reads past the end; (e) size fields beyond "
          "128 MiB / below 9 with a recomputed valid checksum, allocation measured. Distinct = hash of the stream (and read "
          "sizes); enumerated cases are distinct by construction. Non-trivial = a multi-frame stream with a read that "
          "straddles a frame boundary, or any alteration / truncation / oversize case, or a non-empty payload."),
    quick=[unit("codec", "^TestC05(EveryLength|Streams|EndOfStream|Oversize)", checks=2000, timeout=900),
           unit("codec", "^TestC05Alterations", checks=120, timeout=900)],
    thorough=[unit("codec", "^TestC05(EveryLength|Streams|EndOfStream|Oversize)", checks=20000, timeout=6000, shards=8),
              unit("codec", "^TestC05Alterations", checks=2500, timeout=6000, shards=8)],
    manifest=dict(
        text="Fault enumeration: every single-byte alteration (every offset x 4 masks) of generated frame streams, every "
             "payload length up to a bound for every method and level, with a reference frame codec built directly on "
             "go-faster/city, pierrec/lz4 and klauspost/zstd as differential oracle; the reader's output is judged byte by "
             "byte, including reads that follow a failure.",
        design_ref="DESIGN.md 4 C05",
        note="128-bit hash collisions ignored. Trusts the third-party compression and hash libraries. The client-level "
             "surfacing of *ch.CorruptedDataErr is exercised by the client-package checks.",
        technique="exhaustive single-byte fault enumeration + property-based round trips against a reference frame codec",
    ),
    assumptions=["city/lz4/zstd third-party implementations are correct"],
)
