"""Definition of every check: which test binaries, which tests, how many cases per tier."""


def unit(pkg, run, variant="default", checks=100, timeout=600, shards=1, **kw):
    d = dict(pkg=pkg, run=run, variant=variant, checks=checks, timeout=timeout, shards=shards)
    d.update(kw)
    return d


CHECKS = {}

META = {
    "hook_commits": [],
    "engines": [
        {"name": "harness", "path": "/verif/harness", "serves_properties": [],
         "kind_free_text": "Go module (go1.26.8) replacing github.com/ClickHouse/ch-go with /repo: rapid v1.3.0 "
                           "properties and state machines, exhaustive inner loops, independent reference codecs, "
                           "simulated net.Conn + scripted server in testing/synctest bubbles, native go fuzz targets"},
        {"name": "driver", "path": "/verif/check", "serves_properties": [],
         "kind_free_text": "Python driver: builds test binaries from /repo's working tree, derives rapid seeds from "
                           "VERIF_SEED, shards, merges per-process statistics into evidence, maps failures to "
                           "VIOLATION / KNOWN-FINDING / inconclusive"},
    ],
    "notes": "Property-based testing and fuzzing only. Known findings: /verif/known_findings.json. "
             "Replays of confirmed findings: /verif/replays. Seeded breaking changes: /verif/seeded.",
    "pending": {},
}


def check(cid, title, level, rule, quick, thorough, manifest, assumptions=(), **kw):
    def norm(t):
        if isinstance(t, list):
            return {"units": t}
        return t
    CHECKS[cid] = dict(title=title, level=level, rule=rule, quick=norm(quick), thorough=norm(thorough),
                       assumptions=list(assumptions), manifest=manifest, **kw)
    for e in META["engines"]:
        e["serves_properties"].append(cid)


check(
    "C20", "scalar conversions exact over documented range", "exploration",
    rule=("Exhaustive enumerations (every Date x 27 fixed zones x 3 clock times; every Date32 day 1900..2299 x the same; "
          "thorough: all 2^32 DateTime seconds and all 2^32 IPv4 values) are distinct by construction; random cases "
          "(DateTime64 at precision 0..9 against math/big, wide ints against two's complement, intervals against "
          "(year,month) index arithmetic) are drawn by rapid and hashed. Non-trivial = instant before 1970, or within a "
          "day of a range end, or beyond int64 nanoseconds, or in a non-UTC zone; interval with n != 0 on a calendar "
          "scale or non-UTC zone; wide int negative or above MaxInt64."),
    quick=[unit("codec", "^TestC20", checks=20000, timeout=600)],
    thorough=[unit("codec", "^TestC20", checks=200000, timeout=3000, shards=16)],
    manifest=dict(
        text="Generated-input search with exhaustive sub-domains: every Date and every Date32 day of the documented range "
             "in 27 fixed zones, (thorough) every DateTime second and IPv4 value, and rapid-drawn DateTime64 / wide-int / "
             "interval cases judged by oracles that share no code with the library (civil-from-days arithmetic, math/big). "
             "Exhaustive where the domain is finite and small, sampled with boundary bias elsewhere.",
        design_ref="DESIGN.md 4 C20",
        note="Trusts package time, math/big, net/netip. Fixed-offset zones only. DateTime64 range per ClickHouse docs "
             "(1900..2299; precision 9 limited to int64 nanoseconds).",
        technique="property-based testing (rapid) + exhaustive enumeration against independent arithmetic oracles",
    ),
    assumptions=["package time (time.Date, time.Unix, FixedZone) and math/big are correct",
                 "fixed-offset zones stand in for all zones (the conversions only use the offset)"],
)

check(
    "C01", "block encode->decode identity", "exploration",
    rule=("rapid draws blocks of 1-4 columns from a catalog of 726 kinds (47 scalar families x 17 compositions up to depth 3, Decimal(P,S) aliases, "
          "plus random tuples), a shared row count, values with boundary bias, a revision from both sides of every "
          "block-affecting feature, an output buffer that is empty or pre-filled with 1-40 junk bytes; each case is run in "
          "the default and the purego build. Distinct = hash of (names, types, reference encoding of the values, revision, "
          "prefix). Non-trivial = at least one row and (a composite column, or a boundary-class value: empty/all-zero/"
          "all-ones/min/max/>=127 bytes). Extra generators steer LowCardinality dictionaries to 254..257 (thorough: "
          "65534..65537) distinct values and strings to the 16383/16384 varint boundary."),
    quick=[unit("codec", "^TestC01", checks=2500, timeout=900),
           unit("codec", "^TestC01", variant="purego", checks=2500, timeout=900),
           unit("codec", "^TestEveryKindC01", checks=20, timeout=900),
           unit("codec", "^TestEveryKindC01", variant="purego", checks=20, timeout=900)],
    thorough=[unit("codec", "^TestC01Block", checks=80000, timeout=6000, shards=8),
              unit("codec", "^TestC01Block", variant="purego", checks=80000, timeout=6000, shards=4),
              unit("codec", "^TestC01(LargeDictionaries|BigStrings)", checks=600, timeout=6000, shards=2),
              unit("codec", "^TestC01(LargeDictionaries|BigStrings)", variant="purego", checks=600, timeout=6000, shards=2),
              unit("codec", "^TestC01RawCopy", checks=40000, timeout=6000, shards=4),
              unit("codec", "^TestC01RawCopy", variant="purego", checks=40000, timeout=6000, shards=2),
              unit("codec", "^TestC01AliasedColumns", checks=40000, timeout=6000, shards=2),
              unit("codec", "^TestC01AliasedColumns", variant="purego", checks=20000, timeout=6000, shards=1),
              unit("codec", "^TestEveryKindC01", checks=1500, timeout=6000, shards=2),
              unit("codec", "^TestEveryKindC01", variant="purego", checks=1500, timeout=6000, shards=2)],
    manifest=dict(
        text="Generated-input search over the whole type catalog with five oracles per case: buffer independence, byte "
             "equality with an independent reference encoder (validity + decoded values for LowCardinality, whose encoding "
             "is not canonical), reference decoding of the library's bytes with exact consumption, library decoding of both "
             "encodings into typed targets and through Results.Auto() read back by reflection, raw-block round trip. "
             "Run on both builds. Exploration: no claim beyond the cases generated.",
        design_ref="DESIGN.md 4 C01",
        note="Trusts the harness's reference codec (written from the Native format, cross-checked against the library in "
             "both directions). Depth > 3 and blocks above ~10^5 rows are not generated. time.Time-valued columns are fed "
             "only instants of the documented ranges.",
        technique="property-based testing (rapid) with an independent reference codec as differential oracle, both builds",
    ),
    assumptions=["reference codec in /verif/harness/ref is correct", "Tuple is generated at top level only"],
)

check(
    "C05", "compressed frames round-trip; corrupted frames rejected", "fault_enumeration",
    rule=("(a) enumeration: every payload length 0..300 (thorough 0..4096, plus sizes to 4 MiB) x 17 method/level settings "
          "(None, LZ4, ZSTD, LZ4HC levels 0..12 and 99) x 4 content classes, library frame checked by the reference frame "
          "parser and both library- and reference-built frames read back by the library; (b) rapid: streams of 1-8 frames "
          "read with drawn read sizes, directly and through proto.Reader; (c) fault enumeration: for rapid-drawn streams of "
          "1-3 frames EVERY byte offset x masks {01,80,ff,random} is altered and everything the reader hands out, also on 3 "
          "further reads after the error, is judged; (d) truncated streams and reads past the end; (e) size fields beyond "
          "128 MiB / below 9 with a recomputed valid checksum, allocation measured; (f) client level: a Data packet whose "
          "frame has one altered byte (length fields intact) after 0-2 intact blocks must surface from Do as "
          "*ch.CorruptedDataErr with OnResult having run only for the intact blocks; streams are also fed through a source "
          "that delivers arbitrary short segments. Distinct = hash of the stream (and read "
          "sizes); enumerated cases are distinct by construction. Non-trivial = a multi-frame stream with a read that "
          "straddles a frame boundary, or any alteration / truncation / oversize case, or a non-empty payload."),
    quick=[unit("codec", "^TestC05(EveryLength|Streams|EndOfStream|Oversize|BlockOver)", checks=2000, timeout=900),
           unit("codec", "^TestC05Alterations", checks=120, timeout=900),
           unit("client", "^TestC05ClientCorruptedFrame", checks=1500, timeout=900),
           unit("client", "^TestC05ClientProducedFrames", checks=400, timeout=900)],
    thorough=[unit("codec", "^TestC05(EveryLength|Streams|EndOfStream|Oversize|BlockOver)", checks=20000, timeout=6000, shards=6),
              unit("codec", "^TestC05Alterations", checks=2500, timeout=6000, shards=8),
              unit("client", "^TestC05ClientCorruptedFrame", checks=30000, timeout=6000, shards=2),
              unit("client", "^TestC05ClientProducedFrames", checks=6000, timeout=6000, shards=4)],
    manifest=dict(
        text="Fault enumeration: every single-byte alteration (every offset x 4 masks) of generated frame streams, every "
             "payload length up to a bound for every method and level, with a reference frame codec built directly on "
             "go-faster/city, pierrec/lz4 and klauspost/zstd as differential oracle; the reader's output is judged byte by "
             "byte, including reads that follow a failure.",
        design_ref="DESIGN.md 4 C05",
        note="128-bit hash collisions ignored. Trusts the third-party compression and hash libraries.",
        technique="exhaustive single-byte fault enumeration + property-based round trips against a reference frame codec",
    ),
    assumptions=["city/lz4/zstd third-party implementations are correct"],
)

check(
    "C17", "protocol messages symmetric at every revision", "exploration",
    rule=("rapid draws a message of one of 10 kinds (ClientHello, ServerHello, Query with ClientInfo/settings/parameters/"
          "trace context, ClientData, block header + BlockInfo, Progress, Profile, Exception, TableColumns) with boundary-biased "
          "field values; every message is then checked at EVERY revision of the tier's revision set (quick: T-1, T, T+1 of all "
          "23 thresholds + interval midpoints + 50000/54500/60000 = ~75 revisions; thorough: literally every revision "
          "50000..54500). evaluations counts messages; class counters count message x revision pairs. Distinct = hash of "
          "the message. Every message is non-trivial by construction (all have gated or boundary fields); the counter "
          "adjacent-to-threshold counts pairs within 1 of a threshold gating that message."),
    quick=[unit("codec", "^TestC17", checks=3000, timeout=900)],
    thorough=[unit("codec", "^TestC17", checks=2500, timeout=6000, shards=16)],
    manifest=dict(
        text="For every generated message and every revision of the set: byte-for-byte equality with an independent reference "
             "encoder that carries its own threshold table (pins 'present from exactly that revision on'), decode(encode(x)) "
             "== x projected onto the fields existing at that revision, exact consumption (sentinel tail), and the library "
             "decodes the reference encoding. Exhaustive over revisions in the thorough tier.",
        design_ref="DESIGN.md 4 C17",
        note="Query decoding is exercised for revisions >= 54429 only (below, the documented refusal is asserted). "
             "ClientInfo.Interface is TCP only (documented). Known finding F19 (Stage) tolerated by signature.",
        technique="property-based testing (rapid) x exhaustive revision sweep against a reference encoder",
    ),
    assumptions=["the harness threshold table (src/Core/ProtocolDefines.h values) is right"],
)

check(
    "C19", "type inference total and sound; compatibility symmetric", "exploration",
    rule=("rapid draws type strings from a grammar (all scalars with legal parameters - FixedString(N), DateTime('tz'), "
          "DateTime64(p[,'tz']), Enum8/16 definitions, Decimal(P,S), DecimalN(S), Interval*, Point, Nothing, JSON - composed to "
          "depth 4 through Array/Nullable/LowCardinality/Map/Tuple, with and without spaces after commas) and malformed strings "
          "(nesting depth to 2000, unbalanced/empty parentheses, bad parameters, unknown bases, arbitrary bytes, single-edit "
          "mutations of valid strings). For every well-formed type that Infer accepts, random data of that type is encoded by "
          "the reference codec and decoded through Results.Auto(), values read back by reflection. Pairs for the relation: "
          "random, (a, single edit of a), documented equivalences wrapped to depth 3, different bases. Distinct = hash of the "
          "string / pair. Non-trivial = composite, parameterised or malformed string; a pair with a != b."),
    quick=[unit("codec", "^TestC19", checks=30000, timeout=900)],
    thorough={"units": [unit("codec", "^TestC19", checks=600000, timeout=6000, shards=16)],
              "fuzz": [dict(pkg="codec", target="FuzzInfer", seconds=300, workers=8)]},
    manifest=dict(
        text="Generated-input search over a type-string grammar plus hostile strings; oracles: no panic, reported type "
             "compatible with the request, decode-soundness against reference-encoded data, reflexivity and symmetry of "
             "Conflicts on all strings, documented equivalences compatible, different bases conflicting; the repository's own "
             "must-infer list is enumerated.",
        design_ref="DESIGN.md 4 C19",
        note="Types Infer rejects with an error are allowed by the statement. The inner column's Type() is not compared for "
             "the DecimalN(S) alias spellings (never printed by a server); counted as excluded in evidence.",
        technique="grammar-based property testing (rapid) with reference-encoded data as decode oracle",
    ),
    assumptions=["reference type parser and codec are correct"],
)

check(
    "C06", "hostile input: error, never crash or inconsistent column", "exploration",
    rule=("rapid draws a valid encoding from the reference codec (block of 1-3 catalog columns; single column with state "
          "prefix; one of 12 protocol messages at a drawn revision; stream of compressed frames) and applies 1-3 mutations "
          "aimed by the encoder's field map: a count/length/offset/key/meta/version/mask/flag field set to old+-1, a random "
          "value or one of 28 hostile constants (0, 127/128, 2^16+-1, caps+-1, 2^31, 2^32+-1, 2^63, 2^64-1...), bit flips, "
          "byte-range deletion/duplication, splices from another block, truncation + padding; compressed frames get their "
          "checksum recomputed so that the mutation reaches the decompressor (incl. ZSTD frames claiming GiB content sizes). "
          "Decoded through typed targets of the same kinds, typed targets of other kinds, Results.Auto(), DecodeColumn, "
          "ColLowCardinalityRaw/ColRaw, DecodeAware. Distinct = hash of mutated bytes + mode + targets. Non-trivial = the "
          "mutation hit a structural field (not payload/name bytes), arbitrary-byte message inputs, or any compressed case."),
    quick=[unit("codec", "^TestC06(Block|Column|Message|Compressed|Saved)", checks=12000, timeout=900,
                ulimit_v=10 * 1024 * 1024, crash_oracle=True)],
    thorough={"units": [unit("codec", "^TestC06(Block|Column|Message|Compressed|Saved)", checks=150000, timeout=10000, shards=16,
                            ulimit_v=10 * 1024 * 1024, crash_oracle=True)],
              "fuzz": [dict(pkg="codec", target="FuzzDecodeBlockAuto", seconds=420, workers=4),
                       dict(pkg="codec", target="FuzzDecodeBlockTyped", seconds=420, workers=4),
                       dict(pkg="codec", target="FuzzMessages", seconds=420, workers=4),
                       dict(pkg="codec", target="FuzzCompressedStream", seconds=420, workers=4)]},
    crash_is_violation=True,
    replay_run="^TestC06Replay$",
    manifest=dict(
        text="Structure-aware mutation search with the semantic oracle inside the target: no panic (recovered => violation), "
             "returns within a watchdog bound, the process is never killed by the runtime (run under ulimit -v 10 GiB with GOMEMLIMIT=1200MiB with the "
             "library's caps lowered through the verif hook; a dead worker is a violation whose replay is the case file written "
             "before the decode), and on success every column reports the block's row count and every row accessor works for "
             "every sampled index. Committed reproductions of fixed findings are replayed first.",
        design_ref="DESIGN.md 4 C06",
        note="Allocations up to cap x element width from in-cap fields are by design; caps lowered to 2^18 rows / 2^24 "
             "string bytes through the verif-tagged hook. Row accessors are called for all indices up to 6000 rows, the first "
             "and last 3000 beyond.",
        technique="structure-aware mutation fuzzing (rapid-driven) with consistency oracle, process-level crash oracle under ulimit",
    ),
    assumptions=["reference encodings are valid starting points", "hook caps only lower limits the library already enforces"],
)

check(
    "C07", "a truncated block or message is never accepted", "fault_enumeration",
    rule=("For every rapid-drawn block (1-3 catalog columns, library-encoded at a drawn revision) EVERY cut position 0..len-1 is "
          "decoded through typed targets and, where inferable, through Results.Auto(); the same block wrapped by the reference "
          "frame writer (None/LZ4/ZSTD, one frame or split over 2-3 frames) is cut at every position of the compressed stream; "
          "every one of 12 protocol messages at a drawn revision is cut at every position. (Encodings above 2 KiB: first 300 "
          "cuts, +-2 around every field boundary, 200 random.) evaluations counts cuts; distinct cases = hash of the encoding; "
          "non-trivial = the encoding has at least one cut strictly inside a varint, string, fixed-width value, state prefix "
          "or frame header (classified by the reference encoder's field map; per-role counters in classes)."),
    quick=[unit("codec", "^TestC07BlockCuts", checks=500, timeout=900),
           unit("codec", "^TestC07MessageCuts", checks=2500, timeout=900),
           unit("codec", "^TestC07LongTailStrings", checks=150, timeout=900),
           unit("codec", "^TestC07Every", checks=1, timeout=900)],
    thorough=[unit("codec", "^TestC07BlockCuts", checks=10000, timeout=8000, shards=12),
              unit("codec", "^TestC07MessageCuts", checks=30000, timeout=8000, shards=4),
              unit("codec", "^TestC07LongTailStrings", checks=3000, timeout=8000, shards=2),
              unit("codec", "^TestC07Every", checks=1, timeout=8000),
              unit("codec", "^TestC07Every", variant="purego", checks=1, timeout=8000)],
    manifest=dict(
        text="Exhaustive cut enumeration over generated encodings: decoding any proper prefix must return a non-nil error "
             "(no success, no panic), for plain and compressed streams, typed and inferred decoding, blocks and messages.",
        design_ref="DESIGN.md 4 C07",
        note="Messages are produced by the reference encoder (byte-identical to the library's by C17) because the library has "
             "no encoder for some of them standing alone; blocks are produced by the library's encoder.",
        technique="exhaustive crash-point (cut) enumeration over property-based generated encodings",
    ),
)

check(
    "C08", "decoding independent of transport segmentation", "exploration",
    rule=("Reader level: rapid-drawn blocks (plain, or in 1-3 compressed frames), decoded from a chunking io.Reader under "
          "the one-byte segmentation, the two-piece split at every offset (up to 400 offsets), 20 random segmentations, and "
          "ALL 2^(n-1) compositions for streams of n <= 13 bytes; protocol messages of <= 15 bytes under all compositions. "
          "A sentinel tail verifies the number of bytes consumed. evaluations counts segmentations; distinct = hash of the "
          "stream; non-trivial = stream longer than one byte (every such stream gets splits inside varints, strings, "
          "fixed-width values, frame headers and checksums, because every offset is a split point). Client level: the server "
          "scripts of C03 are replayed through Connect+Do under one-byte, two-piece, random segmentations and with idle gaps "
          "of 60/101/350 ms between packets against a 50 ms read timeout (each gap fires the read deadline at least once; "
          "expiries are counted); the callback trace, error text and the outcome of a follow-up Ping on the same connection "
          "must equal the single-segment run."),
    quick=[unit("codec", "^TestC08ReaderSegmentation", checks=300, timeout=900),
           unit("codec", "^TestC08MessageSegmentation", checks=150, timeout=900),
           unit("codec", "^TestC08PrimitiveSegmentation", checks=1500, timeout=900),
           unit("codec", "^TestEveryKindC08", checks=8, timeout=900),
           unit("codec", "^TestC08LongValuesReusedTargets", checks=150, timeout=900),
           unit("client", "^TestC08ClientSegmentation", checks=6000, timeout=900)],
    thorough=[unit("codec", "^TestC08ReaderSegmentation", checks=6000, timeout=8000, shards=8),
              unit("codec", "^TestC08MessageSegmentation", checks=1500, timeout=8000, shards=2),
              unit("codec", "^TestC08PrimitiveSegmentation", checks=40000, timeout=8000, shards=4),
              unit("codec", "^TestEveryKindC08", checks=400, timeout=8000, shards=2),
              unit("codec", "^TestC08LongValuesReusedTargets", checks=3000, timeout=8000, shards=4),
              unit("client", "^TestC08ClientSegmentation", checks=30000, timeout=8000, shards=6)],
    manifest=dict(
        text="Metamorphic relation: the decoded values, error and bytes consumed under any segmentation equal those of the "
             "single-segment run; exhaustive over compositions for short streams, every two-piece split otherwise.",
        design_ref="DESIGN.md 4 C08",
        note="Gaps inside a packet are excluded (the library sets no deadline there by design).",
        technique="metamorphic property testing over enumerated and random segmentations",
    ),
)

check(
    "C14", "vectored writer emits exactly what was chained", "exploration",
    rule=("(a) ALL operation sequences of length <= 5 (thorough 6) over the 7-letter alphabet {append 3 bytes via ChainBuffer, "
          "ChainBuffer appending nothing, ChainWrite of 5 bytes, ChainWrite of an empty slice, Flush to an accepting sink, "
          "Flush to a sink failing after 4 bytes, Flush to a sink writing short with error} = 19 607 sequences, each run against a "
          "byte-list model, chained slices overwritten after every flush; (b) rapid: sequences of up to 60 ops with sizes up "
          "to 256 KiB (forcing reallocation across cut points); (c) rapid: WriteColumn+Flush vs EncodeColumn and WriteBlock vs "
          "EncodeBlock for catalog columns with other content queued before and after; both builds. Distinct = hash of the "
          "sequence / of the block. Non-trivial = a ChainWrite between buffer appends with >= 2 flushes, or a failing flush; "
          "for (c): at least one row in a zero-copy column."),
    quick=[unit("codec", "^TestC14(ExhaustiveShort|RandomLong|ColumnPaths|LargeDictionaryPaths)", checks=4000, timeout=900),
           unit("codec", "^TestC14(ExhaustiveShort|RandomLong|ColumnPaths|LargeDictionaryPaths)", variant="purego", checks=2000, timeout=900),
           unit("codec", "^TestC14HugeValuePaths", checks=150, timeout=900),
           unit("codec", "^TestC14HugeValuePaths", variant="purego", checks=60, timeout=900),
           unit("codec", "^TestEveryKindC14", checks=10, timeout=900),
           unit("codec", "^TestEveryKindC14", variant="purego", checks=10, timeout=900)],
    thorough=[unit("codec", "^TestC14(ExhaustiveShort|RandomLong|ColumnPaths)", checks=50000, timeout=6000, shards=10),
              unit("codec", "^TestC14(ExhaustiveShort|RandomLong|ColumnPaths)", variant="purego", checks=50000, timeout=6000, shards=3),
              unit("codec", "^TestC14HugeValuePaths", checks=1500, timeout=6000, shards=4),
              unit("codec", "^TestC14HugeValuePaths", variant="purego", checks=600, timeout=6000, shards=1),
              unit("codec", "^TestC14LargeDictionaryPaths", checks=4000, timeout=6000, shards=2),
              unit("codec", "^TestC14LargeDictionaryPaths", variant="purego", checks=4000, timeout=6000, shards=1),
              unit("codec", "^TestEveryKindC14", checks=600, timeout=6000, shards=2),
              unit("codec", "^TestEveryKindC14", variant="purego", checks=600, timeout=6000, shards=1)],
    manifest=dict(
        text="Model-based testing of the writer against a byte-list model: exhaustive over all short operation sequences, "
             "random long ones, plus the metamorphic path equivalence vectored == buffered for columns and blocks.",
        design_ref="DESIGN.md 4 C14",
        note="The sink is a plain io.Writer (net.Buffers falls back to one Write per buffer); the writev path of *net.TCPConn "
             "is not exercised.",
        technique="model-based testing: exhaustive short histories + rapid long histories + path-equivalence property",
    ),
)

check(
    "C16", "reused columns carry nothing over", "exploration",
    rule=("rapid state machine (T.Repeat) per column kind drawn from the catalog (one third of the runs steered to kinds with "
          "Preparable columns): actions append, appendArr, reset, prepare, Prepare+EncodeColumn, WriteColumn+Flush, "
          "EncodeRawBlock, Reset+DecodeColumn of reference-encoded random rows, failed DecodeColumn (truncated) then Reset; "
          "model = list of values; after every step Rows()/Row(i) must equal it and after every encode step the reference "
          "decoder applied to the produced bytes must equal it. Second machine for ColEnum re-inferred with other "
          "definitions. Distinct = hash of (kind, history). Non-trivial = an encode after >= 2 Prepare calls with values "
          "appended in between, or a decode into a previously used column; for enums a history that changed definition."),
    quick=[unit("codec", "^TestC16", checks=4000, timeout=900),
           unit("codec", "^TestC16", variant="purego", checks=1500, timeout=900)],
    thorough=[unit("codec", "^TestC16", checks=40000, timeout=6000, shards=12),
              unit("codec", "^TestC16", variant="purego", checks=40000, timeout=6000, shards=4)],
    manifest=dict(
        text="Model-based stateful testing: every history is judged after each step through the column's own accessors and, "
             "at encode steps, through an independent decode of the bytes written (so a wrong LowCardinality key or enum "
             "value is seen on the wire).",
        design_ref="DESIGN.md 4 C16",
        note="Histories are bounded by rapid's default step count (about 30). Infer with different parameters is exercised "
             "for ColEnum; DateTime/DateTime64 re-inference changes no wire bytes and is covered by C18.",
        technique="model-based stateful property testing (rapid T.Repeat) with reference decoder as wire oracle",
    ),
)

check(
    "C15", "purego and default builds behave identically", "translation_validation",
    rule=("For each of the 33 dual-codec scalar kinds (32 generated + Bool + UUID; DateTime64 in time and raw views): the same "
          "test compiled with and without -tags purego, driven by the same rapid seed, runs 7 operations per case (EncodeColumn "
          "into an empty and a junk-prefixed buffer, WriteColumn+Flush, DecodeColumn of valid bytes into a fresh and a "
          "used-then-reset column, DecodeColumn of arbitrary bytes of the right length, DecodeColumn of short input); element "
          "values exhaustive for 8/16-bit types, boundary-biased random otherwise. Every case is checked against the reference "
          "codec in-process and emits transcript lines (hash of output, rows, digest of values, error class) that the driver "
          "diffs between the two builds. programs = number of dual codecs; evaluations = cases; every case is non-trivial "
          "(contains an arbitrary-bytes decode and a non-empty-buffer encode)."),
    quick=[unit("codec", "^TestC15", checks=6000, timeout=900, seed_key="c15", seed_idx=0),
           unit("codec", "^TestC15", variant="purego", checks=6000, timeout=900, seed_key="c15", seed_idx=0)],
    thorough=[unit("codec", "^TestC15", checks=80000, timeout=6000, shards=8, seed_key="c15", seed_idx=0),
              unit("codec", "^TestC15", variant="purego", checks=80000, timeout=6000, shards=8, seed_key="c15", seed_idx=0)],
    post="transcript_diff",
    manifest=dict(
        text="Differential (translation-validation style) testing of the two build variants: identical generated inputs, "
             "transcripts diffed line by line, and each side additionally pinned to the reference codec so that 'both wrong' "
             "fails too.",
        design_ref="DESIGN.md 4 C15",
        note="Decoding into a non-empty column without Reset is outside the statement and not generated. ColRawOf exists "
             "only in the default build.",
        technique="differential testing of two builds on identical rapid-generated inputs + reference codec",
    ),
)

check(
    "C18", "result blocks bind only to compatible targets", "exploration",
    rule=("rapid draws (block schema, target list) pairs by construction in 12 labelled classes (identical, permuted, renamed, "
          "extra/missing column, blank target names then enforcement, type replaced by a type of a different base, "
          "FixedString(N != M), zero-row header blocks with and without targets, custom-serialization flag set, sequences of "
          "2-4 blocks with changing schema against the same targets) over 2-4 catalog columns of pairwise different base "
          "types carrying distinct data, plus 9 classes for inferable targets and documented equivalences (ColEnum adopting "
          "the server's definition, alone and inside Array/Map; DateTime adopting the zone; DateTime64 adopting the precision, "
          "alone and in Array; Enum vs Int; Decimal(P,S) vs DecimalN). Blocks come from the reference encoder. The expected "
          "outcome follows from the class. Distinct = hash of (class, schema, data). Non-trivial = any class but identical."),
    quick=[unit("codec", "^TestC18", checks=20000, timeout=900)],
    thorough=[unit("codec", "^TestC18", checks=60000, timeout=6000, shards=16)],
    manifest=dict(
        text="Class-labelled generated pairs with outcome oracles independent of Conflicts: on success every target holds "
             "exactly its own column's values (a mis-bind is visible because columns carry distinct data), names are filled and "
             "enforced, inferable targets report and use the server's parameters; on failure the error names the mismatch and "
             "every target is empty, holds its own column, or is untouched.",
        design_ref="DESIGN.md 4 C18",
        note="Only classes with an unambiguous expected outcome are generated (grey areas of Conflicts such as Map with "
             "differing inner parameters are not asserted). Nullable is not among the statement's inferring wrappers.",
        technique="class-labelled property-based testing (rapid) with reference-encoded blocks",
    ),
)

CLIENT_ASSUME = ["the simulated net.Conn honours the net.Conn contract (deadlines on the bubble's virtual clock, copy-on-write)",
                 "the reference protocol codec and stream parser are correct (cross-checked against the library in C17)"]

check(
    "C13", "handshake negotiates min(client, server) and fails cleanly", "exploration",
    rule=("rapid draws (client revision, server revision) so that the negotiated revision is spread over representatives of "
          "every interval of the supported window (both neighbours of each threshold 54441..54460; servers up to 60000), a "
          "server answer in {hello, hello delayed by readTimeout-1ms / = / +1ms / 2x / handshakeTimeout-1ms / half, exception "
          "chain, wrong packet, garbage, truncated hello then cut, immediate cut, silence}, database/user/password/quota-key/"
          "client-name strings (empty, non-UTF-8, long), ReadTimeout and HandshakeTimeout settings, Dial (simulated dialer) or "
          "Connect; each case runs in its own synctest bubble (virtual time). Distinct = hash of the case. Non-trivial = "
          "server != client revision with a feature threshold between them, or any answer other than an immediate hello."),
    quick=[unit("client", "^TestC13", checks=12000, timeout=900)],
    thorough=[unit("client", "^TestC13", checks=60000, timeout=6000, shards=16)],
    manifest=dict(
        text="Generated handshake scenarios against a scripted server on a virtual clock; oracles: client hello parsed by the "
             "reference codec carries credentials and revision, ServerInfo() equals what was sent, addendum iff negotiated "
             ">= 54458, a follow-up query parses at exactly the negotiated revision and a reply encoded at it decodes, parameters "
             "refused iff < 54459; failures return an error (with the exception chain), no client, within HandshakeTimeout+1s, "
             "and a dialed connection is closed; a hello at any delay below the handshake timeout is accepted.",
        design_ref="DESIGN.md 4 C13",
        note="All hello thresholds lie below the supported window, so the server hello is gated unambiguously by the client's revision.",
        technique="property-based testing (rapid) in synctest bubbles against a scripted server + reference stream parser",
    ),
    assumptions=CLIENT_ASSUME,
)

check(
    "C02", "client writes a well-formed packet sequence", "exploration",
    rule=("rapid draws a ch.Query (id incl. empty, body incl. empty/long/non-UTF-8, 0-4 connection-level and 0-4 query-level "
          "settings with flags, parameters where the negotiated revision has them, secret, quota key, initial user, external "
          "data with table name or default, 1-3 input columns of catalog kinds, bound result or schema exchange, an "
          "OpenTelemetry span context or none) x negotiated revision spread over the window x 9 compression settings. The "
          "complete client byte log is parsed by the independent stream parser. Distinct = hash of the bytes written. "
          "Non-trivial = the query has input or external data, or >= 2 settings plus parameters."),
    quick=[unit("client", "^TestC02", checks=15000, timeout=900)],
    thorough=[unit("client", "^TestC02", checks=60000, timeout=6000, shards=16)],
    manifest=dict(
        text="Every byte the client writes during Connect+Do is parsed at min(client, server) revision and the configured "
             "method and must be exactly Hello, addendum iff >= 54458, one Query packet with all caller fields in order, the "
             "external Data block and terminator, the input blocks (equal to the model) and terminator, each block one "
             "checksummed frame of the configured method iff compression is on, and no other byte.",
        design_ref="DESIGN.md 4 C02",
        note="Input columns of inferring kinds receive the server's column info with their own type strings.",
        technique="property-based testing (rapid) with an independent streaming parser of the client byte stream as oracle",
    ),
    assumptions=CLIENT_ASSUME,
)

check(
    "C03", "results, telemetry, exceptions delivered once, in order", "exploration",
    rule=("rapid draws finite server scripts over {Data, Totals (1-3 catalog columns, 0-4 rows, zero-row headers, empty end "
          "markers), Progress, Profile, ProfileEvents (UInt64 or Int64 value column), Log, TableColumns} ending in an "
          "exception chain of depth 1-5 or EndOfStream, x compression x negotiated revision x result binding {typed Results, "
          "Results.Auto(), single ResultColumn, nil} x presence of each of 7 callbacks x one callback failing at its j-th call. "
          "A model interpreter of the script yields the expected callback trace and outcome. Distinct = hash of (script, client "
          "bytes). Non-trivial = >= 2 non-empty blocks, or exception chain depth >= 2, or telemetry interleaved with data."),
    quick=[unit("client", "^TestC03", checks=15000, timeout=900)],
    thorough=[unit("client", "^TestC03", checks=60000, timeout=6000, shards=16)],
    manifest=dict(
        text="Model-based: the observed callback trace (with a snapshot of the bound columns taken inside OnResult and compared "
             "with that block's rows), the return value (nil iff EndOfStream and no failing callback; sentinel reachable; README "
             "rule without OnResult) and the full exception chain (errors.As, errors.Is for every code, IsErr) must equal the "
             "model's.",
        design_ref="DESIGN.md 4 C03",
        note="Extremes/TablesStatus/PartUUIDs/ReadTask packets are outside the statement and appear in C04 as unexpected packets.",
        technique="model-based property testing (rapid) of generated server scripts in synctest bubbles",
    ),
    assumptions=CLIENT_ASSUME,
)

check(
    "C09", "streamed INSERT: one faithful block per round, then one terminator", "exploration",
    rule=("rapid draws insert histories: 1-3 input columns (one third steered to zero-copy kinds), initial rows 0-3, 1-5 "
          "OnInput rounds each {append, Reset+append, overwrite the same number of rows over the same memory, unchanged} and a "
          "final return {io.EOF with or without rows present, wrapped io.EOF, other error}, x 9 compression settings x "
          "schema exchange or bound result x negotiated revision. Model = deep snapshots of the columns at each callback "
          "return; the parsed client stream must contain exactly those blocks in order, then exactly one empty block (none "
          "after a callback error). Distinct = hash of (history, bytes). Non-trivial = >= 2 rounds with a Reset or in-place "
          "overwrite on a zero-copy column."),
    quick=[unit("client", "^TestC09", checks=12000, timeout=900)],
    thorough=[unit("client", "^TestC09", checks=40000, timeout=6000, shards=16)],
    manifest=dict(
        text="Model-based history testing: what the scripted server receives, decoded by the reference codec, must equal the "
             "column contents as they were when each round began, whatever later rounds do to the same memory.",
        design_ref="DESIGN.md 4 C09",
        note="In-place overwrite is produced by Reset + re-append of as many rows (the same backing memory is rewritten).",
        technique="model-based property testing (rapid) with snapshots as oracle, reference decoding of the client stream",
    ),
    assumptions=CLIENT_ASSUME,
)

check(
    "C04", "failed query => closed, or open exactly at a packet boundary", "fault_enumeration",
    rule=("Gated execution inside synctest bubbles: client goroutines park at ~25 kinds of gates (net.Conn Read/Write/"
          "SetReadDeadline/SetWriteDeadline/LocalAddr, every user callback, every log point of a gating zapcore.Core used as "
          "Query.Logger); after synctest.Wait() the enabled actions {release a parked goroutine, emit the next server packet, "
          "inject the fault} are computed and rapid draws one, so a run is a pure function of the draws. Scenarios {select, "
          "insert with schema exchange, streaming insert of 1-3 rounds} x compression {off, LZ4, ZSTD, None} x telemetry "
          "on/off x context with/without deadline x read timeout {3s, 200ms}; ONE fault per run from {server stream cut after "
          "k bytes, client write failing after k bytes, j-th callback failing, exception arriving at any scheduler step (also "
          "before the query is written), unknown packet code, valid but unhandled code (Hello/Pong/Extremes/TablesStatus/"
          "PartUUIDs/ReadTask), undecodable block then close, 1-3 surplus header blocks}. Distinct = hash of (scenario, fault, "
          "schedule). Non-trivial = the fault took effect and both the sender and the receiver ran after gating started."),
    quick=[unit("client", "^TestC04FailedQuery", checks=15000, timeout=900),
           unit("client", "^TestC04(ChattyServer|ExceptionWhilePeerNotReading)", checks=2000, timeout=900)],
    thorough=[unit("client", "^TestC04FailedQuery", checks=80000, timeout=8000, shards=16),
              unit("client", "^TestC04(ChattyServer|ExceptionWhilePeerNotReading)", checks=20000, timeout=8000, shards=4)],
    manifest=dict(
        text="Fault enumeration over scenarios x fault kinds x fault positions x gate-level schedules with the oracle: Do "
             "returns within readTimeout x (packets+3) + 3s of virtual time; then either the client is closed (Close was called, "
             "further Ping/Do return ErrClosed and the connection records no further call of any kind) or it is open and "
             "everything written parses as whole packets, a follow-up Ping makes the connection receive exactly the byte 04, "
             "gets its Pong, and a follow-up Do succeeds.",
        design_ref="DESIGN.md 4 C04",
        note="Schedules are enumerated at gate granularity (not instruction granularity); two simultaneous faults are not "
             "combined; a server that stalls inside a packet is excluded (no deadline there by design). Close() is not gated "
             "(it runs under the client's mutex).",
        technique="deterministic schedule + fault exploration (rapid-drawn) on a simulated connection with virtual time",
    ),
    assumptions=CLIENT_ASSUME,
)

check(
    "C10", "cancellation: prompt return, Cancel packet, closed connection, no leak", "fault_enumeration",
    rule=("Same gated machinery as C04 on fault-free scenarios {select, insert, streaming insert} x compression x telemetry x "
          "read timeout {3s, 50ms}: the context is cancelled (cancel()) or its deadline expires (virtual clock) at a "
          "rapid-drawn scheduler step 0..80, i.e. before/after every client write, server packet, callback and log point; "
          "kinds: cancel(), deadline expiry, cancel() of a context that also has a far deadline. Second property: cancellation "
          "during the handshake (Connect and Dial; server answering, silent, or no longer reading after its hello so that the "
          "addendum write blocks). Third property (ungated): the server streams 1500 packets with gaps below the read timeout "
          "and cancel() arrives from another goroutine or inside a callback. Distinct = "
          "hash of (scenario, kind, schedule). Non-trivial = the call failed because of the cancellation while at least one "
          "server packet was still to come."),
    quick=[unit("client", "^TestC10(Cancellation|HandshakeCancellation)", checks=10000, timeout=900),
           unit("client", "^TestC10StreamingCancel", checks=1500, timeout=900),
           unit("pool", "^TestC10TLSDialCancellation", checks=1, timeout=900),
           unit("client", "^TestC10(SilentInsidePacket|PeerStopsReading)", checks=1500, timeout=900)],
    thorough=[unit("client", "^TestC10(Cancellation|HandshakeCancellation)", checks=80000, timeout=8000, shards=12),
              unit("client", "^TestC10StreamingCancel", checks=8000, timeout=8000, shards=4),
              unit("pool", "^TestC10TLSDialCancellation", checks=1, timeout=900),
              unit("client", "^TestC10(SilentInsidePacket|PeerStopsReading)", checks=20000, timeout=8000, shards=4)],
    manifest=dict(
        text="Oracle per run: Do returns within readTimeout + 2s of the cancellation instant on the virtual clock; the error "
             "matches ctx.Err(); the client is closed and Close was called on the connection; the Cancel packet is judged per "
             "write call (one write of exactly 03 after the cancellation, or a refused attempt; all other bytes in order a "
             "prefix of a well-formed packet sequence); after synctest.Wait no goroutine with ch-go frames remains.",
        design_ref="DESIGN.md 4 C10",
        note="ReadTimeout < 0 (no timeout) is excluded: the statement presupposes one. A write attempted by the sender after "
             "Close (refused by the connection) is not counted as a violation: the statement does not forbid it.",
        technique="deterministic schedule exploration of cancellation instants (rapid-drawn) with virtual time and goroutine-leak oracle",
    ),
    assumptions=CLIENT_ASSUME,
)

check(
    "C11", "pool: one holder per connection, dead/expired never reissued", "exploration",
    rule=("rapid state machine (T.Repeat) inside a synctest bubble over chpool with a simulated dialer whose servers answer "
          "by query body (OK, exception, cut, never): MaxConns 1-4, MinConns 0-2, lifetime / idle time / health-check period "
          "from small virtual durations; actions Acquire (30 ms timeout, each new handle probes with a tagged query that "
          "reveals its connection), Do OK/exception/cut/hang+cancel, Ping, Release of ANY handle any number of times, "
          "advance the clock, Pool.Do/Pool.Ping, bursts of 2-6 parallel Pool.Do, asynchronous Close; invariants at quiescent "
          "points (synctest.Wait) after every step. Distinct = hash of (configuration, history). Non-trivial = >= 2 "
          "concurrently held handles together with a repeated Release, or an expiry that was checked."),
    quick=[unit("pool", "^TestC11", checks=7500, timeout=900)],
    thorough=[unit("pool", "^TestC11", checks=40000, timeout=8000, shards=16)],
    manifest=dict(
        text="Model-based stateful testing of the pool: the scripted servers must never see a request while another is in "
             "flight on the same connection, live handles map to distinct connections, open connections <= MaxConns, an issued "
             "connection always works (a connection whose client was closed or that outlived its lifetime at release is never "
             "reissued), repeated Release never panics and changes nothing, Stat() agrees with the model, idle expired "
             "connections are closed by the health check, and after Close + release of all handles every dialed connection "
             "is closed.",
        design_ref="DESIGN.md 4 C11",
        note="Interleavings inside puddle are explored only through the Go scheduler in bursts. Connections die only during "
             "calls (never silently while idle), so a failing probe is always a pool defect.",
        technique="model-based stateful property testing (rapid T.Repeat) in synctest bubbles with virtual time",
    ),
    assumptions=CLIENT_ASSUME,
)

check(
    "C12", "no data race inside the library", "exploration",
    rule=("Binary built with -race (GORACE=halt_on_error=0, log per process). rapid draws UNGATED scenarios on the "
          "direction-independent simulated connection (the two directions share no lock; the only cross-direction edge is the "
          "causal one through the reactive server): C03 server scripts with all callbacks; streamed INSERT of 2-5 rounds while "
          "the server streams progress / profile events / logs after every block; the same with Client.Close from a foreign "
          "goroutine or a cancellation after a drawn delay; Ping afterwards; OpenTelemetryInstrumentation on/off; callbacks "
          "yield at drawn points; and a pool shared by 2-8 goroutines (Do OK/exception/cut, Ping, Acquire+hold+Stat+Release) "
          "with a 1 ms health check, 5 ms idle time and 20 ms lifetime. Oracle = Go race detector; a report counts when either "
          "access stack has a non-test ch-go frame (de-duplicated by the pair of top library frames). Distinct = hash of the "
          "scenario. Non-trivial = a scenario in which sender, receiver and a foreign or pool goroutine all run (every "
          "scenario except plain scripts)."),
    quick=[unit("client", "^TestC12", variant="race", checks=1200, timeout=900),
           unit("pool", "^TestC12|^TestC11", variant="race", checks=500, timeout=900)],
    thorough=[unit("client", "^TestC12", variant="race", checks=20000, timeout=8000, shards=10),
              unit("pool", "^TestC12|^TestC11", variant="race", checks=10000, timeout=8000, shards=6)],
    manifest=dict(
        text="Exploration with the Go race detector as oracle over generated concurrent scenarios; absence of reports over the "
             "executions generated, not absence of races.",
        design_ref="DESIGN.md 4 C12",
        note="The detector needs both accesses to execute in one run, not the bad interleaving itself. Races confined to "
             "third-party code (puddle, otel SDK) are out of scope unless a ch-go frame is on either stack.",
        technique="race-detector-instrumented property testing of generated concurrent scenarios",
    ),
    assumptions=CLIENT_ASSUME + ["the Go race detector reports only real races"],
)

# Dimensions added after the rule texts above were written (seeding rounds 3-6 and the coverage review); appended
# to each rule so that the evidence states what a run actually generates.
ADDED = {
    "C01": "Also: every one of the 726 kinds once per pass through the whole oracle (TestEveryKindC01), encoding into a reused "
           "buffer whose spare capacity holds an earlier packet, copy-through of inferred columns (decode into ColAuto targets, "
           "encode them again through both write paths), raw copy through ColRaw / ColLowCardinalityRaw, accessor agreement "
           "(iterators, Go-map Append, Nullable helpers), blocks of 4095-10000 rows, strings on both length-prefix boundaries. An Enum16 member name ending in an escaped backslash (all shapes, tuples). Unit TestC01AliasedColumns (columns announced under another type name through proto.Alias, both directions).",
    "C02": "Also: streamed input (OnInput rounds, rows with io.EOF, no rows at all), blocks of 4 KiB-1.3 MiB, strings on the "
           "length-prefix boundaries (127/128, 16383/16384) and bodies to 200 KB, the same setting key on both levels, an earlier "
           "exchange (select / exception / insert / ping) on the same client. A quarter of the cases run with instrumentation on and a recording SDK tracer (the wire carries the recorded Do span).",
    "C03": "Also: data blocks with 4-256 KiB values, a server pausing inside a packet for longer than the read timeout, an "
           "earlier exchange on the same client, a context with a far deadline. Exception texts of 131071-230000 bytes. Progress packets without a delta, a quarter of the clients instrumented, LowCardinality(String) columns of 257/300 distinct values per block; which error a call with a failed callback reports is counted, not asserted. Unit TestC03ExceptionInsteadOfColumnInfo (20000 INSERTs answered by an exception instead of the column description; the schedule is the runtime's).",
    "C04": "Also: fault kinds reset (reads and all later writes fail), bad-input (the encoder rejects the caller's columns after "
           "the query went out), callback errors that wrap a *ch.Exception; 0-2 earlier exception queries on the same client; "
           "a Ping with a cancelled context before the follow-up. Streaming callbacks that wait on their context (no further batch once the failure is on its way); exception packets cut at any byte of a three-element chain. Gated scenarios at lower revisions on either side; unit TestC04ChattyServerSenderFailure (the sender fails while the server streams packets faster than the read timeout). Silent servers and clients without a read timeout in the chatty-server unit. Unit TestC04ExceptionWhilePeerNotReading (the server reports an exception and stops reading while the sender's write is in flight).",
    "C05": "Also: blocks spread over 2-4 frames (and empty frames in between) with a later frame altered, decoded through "
           "proto.Reader - the error must still carry the CorruptedDataErr; ZSTD frames whose inner content size exceeds the limit. Client unit TestC05ClientProducedFrames: compressed connections with large incompressible values, every frame written must verify and decompress to the block encoded.",
    "C06": "Also: pair mutations (two structural fields near the caps at once), decoding into reused targets, hostile type strings "
           "in the block header. Caller-built FixedString targets up to 1 MiB wide; query messages with 300-1500 settings or parameters.",
    "C07": "Also: every catalog kind once as the last column with every cut (TestC07EveryKindLast), zero-row blocks decoded "
           "without targets, messages whose last field is a 64 KiB-3 MiB string (sampled cuts), blocks of 4095-10000 rows. Query messages with 300-1500 settings or parameters.",
    "C08": "Also: every typed read of proto.Reader against every Put of proto.Buffer (primitive level), truncated prefixes "
           "(identical error under every segmentation), every catalog kind under one-byte and two-piece delivery, client level: "
           "pauses inside packets, NoTimeout with a short handshake timeout, a gap before the first response packet, large blocks. The answer to the follow-up Ping behind the last packet in the same write (bytes read ahead); TestC08LongValuesReusedTargets (values to 2.5 MiB, several blocks into the same targets). Empty reads (zero-length segments), deadlines 30 ms behind the last packet in the gap families.",
    "C09": "Also: true in-place overwrite, steering to Preparable kinds, blocks of 4 KiB-1.3 MiB mostly as the tail sent with "
           "io.EOF, an earlier exchange on the same client. Rounds of exactly 127-129 and 16383-16385 rows.",
    "C10": "Also: 0-2 earlier exception queries on the same client, callbacks that fail with their own error once the context is "
           "cancelled; a nil result after a cancellation in the middle of the exchange is a violation. Cancellation inside the dialer (handshake unit). A client returned over a connection the library closed is a violation; cancellation together with the release of a parked operation; transports whose Close reports an error; lower revisions on either side; unit TestC10TLSDialCancellation (real loopback, silent peer). Units TestC10SilentInsidePacket (the server goes silent inside a packet body) and TestC10PeerStopsReading (writes block; simnet serialises writes like a socket).",
    "C11": "Also: RST answers (reads and later writes fail), connections whose Close takes 2-7 ms of virtual time or returns an "
           "error, construction unit (New/Dial with MinConns against a dialer refusing the k-th connection). Exception chains cut inside the nested element; MinConns up to MaxConns+2 in the construction unit.",
    "C12": "Also: queries with settings, parameters and unnamed external tables, pool-wide Options.Settings with spare capacity, "
           "an earlier exchange on the same client, large blocks. Scenarios nested-queries (callbacks query other clients under their context) and string-consumer (strings from ForEach/Row/First copied by a worker while later blocks decode).",
    "C13": "Also: hello split into 2-3 pieces with pauses longer than the read timeout, a hello or exception cut short followed by "
           "silence, all compression modes, an INSERT follow-up parsed at the negotiated revision, follow-ups bounded on the clock. Follow-up after idling past the handshake timeout: a statement with nothing bound answered by a 2/3-column schema block. Transports whose Close reports an error; a follow-up with an external table of columns and no rows.",
    "C14": "Also: LowCardinality dictionaries around the key-width boundaries, a writer created over a pre-filled buffer, every "
           "catalog kind once per pass (TestEveryKindC14), blocks of 4095-10000 rows. Alphabet of 9 letters incl. Reset and ChainWrite from inside a ChainBuffer callback. Unit TestC14HugeValuePaths (values of a mebibyte and more next to short ones).",
    "C15": "Also: WriteColumn through a writer over a pre-filled buffer, DecodeColumn from a reader that served reads before (zero "
           "rows too), one bad Bool byte at any position, every dual codec at 4097 / 8193 / 10000 rows. Encode into a zero-capacity buffer then reset and refill the column; decode behind the decompressor with a following frame.",
    "C16": "Also: Enum and DateTime64 re-inference machines, in-place overwrite steps, block-level decode actions incl. zero rows. TestC16RawInputReuse (caller-built ColLowCardinalityRaw over several blocks); bulk appends from one reused, cleared scratch slice. Values of a mebibyte and more in one history in 25; enum definitions switching base with equal members; the raw LowCardinality unit alternates decoding and rebuilding and switches key widths. Unit TestC16AutoInputReinfer (a ColAuto holding rows is told an equivalent spelling of its type).",
    "C17": "Also: zero-row schema blocks (header + column descriptors, also inside a compressed frame), strings on both "
           "length-prefix boundaries and longer than the reader's 128 KiB buffer. Setting/parameter lists of 255-16385 entries; schema blocks into a reused ColInfoInput.",
    "C18": "Also: classes auto-targets-enforced (Results.Auto() targets held to count, names and types on later blocks), "
           "autoresult-reinferred (AutoResult targets reused across blocks of changing types), map-of-two-inferables, generated "
           "enum definitions (blanks in names), Enum16/Int16 in both directions; every decode must consume the whole block. Classes rows-without-columns and array-datetime-zone; schema headers into ColInfoInput. Enum base switch on a reused target; class names-differ-by-case. Nullable targets created with another precision (right values or an error); class single-result-column (known finding).",
    "C19": "Also: soundness of 12 typed inferable target shapes (the reported type carries every requested parameter), several "
           "blanks or a tab after commas, token-soup parameter lists. A second block through the same inferred column. Unit TestC19DeepNesting (300000 levels under a 64 MiB stack limit).",
    "C20": "Also: interval spans over the whole 1900-2299 range and five daylight-saving zones (calendar-day oracle), Date / "
           "Date32 / DateTime columns filled one by one, in bulk and as Array rows from batches in mixed zones, special IPv6 "
           "blocks, Precision helpers.",
}
for _cid, _txt in ADDED.items():
    CHECKS[_cid]["rule"] += " " + _txt
