#!/usr/bin/env python3
"""Regenerates MANIFEST.json from checks_def.py (+ manifest_meta in it)."""
import json, os, sys
ROOT = os.path.dirname(os.path.abspath(__file__))
sys.path.insert(0, ROOT)
from checks_def import CHECKS, META  # noqa

props = [json.loads(l) for l in open(os.path.join(ROOT, "properties.jsonl"))]
ids = [p["id"] for p in props]
BASE = ("for m in . ./internal/cmd/ch-dl; do (cd /repo/$m && GOFLAGS=-mod=mod GOPROXY=off GOSUMDB=off "
        "GOTOOLCHAIN=local go test -json -vet=off -count=1 -timeout 25m ./...); done")
man = {
    "version": 1,
    "setup_cmd": "./check --build",
    "hooks": {
        "guard": "verif",
        "enable": "go build tag: every harness binary is built with `-tags verif` (see /verif/check, VARIANTS)",
        "baseline_off_cmd": BASE,
        "source_commits": META.get("hook_commits", []),
        "add_only": True,
    },
    "engines": META["engines"],
    "checks": [],
    "notes": META["notes"],
    "not_applicable": [],
}
for cid in ids:
    if cid in CHECKS:
        c = CHECKS[cid]
        m = c["manifest"]
        man["checks"].append({
            "property_id": cid,
            "quick_cmd": f"./check {cid} --tier quick",
            "thorough_cmd": f"./check {cid} --tier thorough",
            "evidence_file": f"/verif/evidence/{cid}.json",
            "replay_cmd_template": f"./check {cid} --replay {{path}}",
            "engine": m.get("engine", "harness"),
            "level_claimed": {"category": c["level"], "text": m["text"], "design_ref": m["design_ref"]},
            "level_note": m["note"],
            "technique": m["technique"],
        })
    else:
        man["not_applicable"].append({"property_id": cid, "reason": META["pending"].get(cid, "check not built yet in this session (work in progress); see DESIGN.md section 4 for the planned design")})
json.dump(man, open(os.path.join(ROOT, "MANIFEST.json"), "w"), indent=1)
print("checks:", [c["property_id"] for c in man["checks"]], "n/a:", [c["property_id"] for c in man["not_applicable"]])
