package ref

import (
	"encoding/binary"
	"errors"
	"fmt"

	"github.com/go-faster/city"
	"github.com/klauspost/compress/zstd"
	"github.com/pierrec/lz4/v4"
)

// Compressed frame (ClickHouse CompressedWriteBuffer):
//
//	16 bytes CityHash128 (v1.0.2) of everything that follows
//	 1 byte  method (0x02 none, 0x82 LZ4, 0x90 ZSTD)
//	 4 bytes LE size of compressed data + 9
//	 4 bytes LE size of uncompressed data
//	 compressed data
const (
	MethodNone byte = 0x02
	MethodLZ4  byte = 0x82
	MethodZSTD byte = 0x90

	FrameHeader  = 16 + 9
	MaxFrameSize = 128 << 20
)

// The zstd coder objects use channels internally, so they are created per call:
// a package-level one would be shared between testing/synctest bubbles.
func zstdEncode(p []byte) []byte {
	enc, _ := zstd.NewWriter(nil, zstd.WithEncoderConcurrency(1))
	defer enc.Close()
	return enc.EncodeAll(p, nil)
}

func zstdDecode(p []byte) ([]byte, error) {
	dec, _ := zstd.NewReader(nil, zstd.WithDecoderConcurrency(1), zstd.WithDecoderMaxMemory(256<<20))
	defer dec.Close()
	return dec.DecodeAll(p, nil)
}

// SealFrame computes the header and checksum for (method, compressed, rawLen).
func SealFrame(method byte, compressed []byte, rawLen uint32) []byte {
	out := make([]byte, FrameHeader+len(compressed))
	out[16] = method
	binary.LittleEndian.PutUint32(out[17:], uint32(len(compressed)+9))
	binary.LittleEndian.PutUint32(out[21:], rawLen)
	copy(out[FrameHeader:], compressed)
	FixChecksum(out)
	return out
}

// FixChecksum recomputes the checksum of a (possibly altered) frame in place.
func FixChecksum(frame []byte) {
	h := city.CH128(frame[16:])
	binary.LittleEndian.PutUint64(frame[0:], h.Low)
	binary.LittleEndian.PutUint64(frame[8:], h.High)
}

// BuildFrame compresses payload with the reference implementation.
func BuildFrame(method byte, payload []byte) ([]byte, error) {
	var comp []byte
	switch method {
	case MethodNone:
		comp = payload
	case MethodLZ4:
		comp = make([]byte, lz4.CompressBlockBound(len(payload)))
		var c lz4.Compressor
		n, err := c.CompressBlock(payload, comp)
		if err != nil {
			return nil, err
		}
		comp = comp[:n]
	case MethodZSTD:
		comp = zstdEncode(payload)
	default:
		return nil, fmt.Errorf("ref: method %#x", method)
	}
	return SealFrame(method, comp, uint32(len(payload))), nil
}

type Frame struct {
	Method   byte
	Payload  []byte
	Consumed int
	Stored   city.U128
	Computed city.U128
}

var ErrChecksum = errors.New("ref: frame checksum mismatch")

// ParseFrame parses and verifies one frame at the start of b.
func ParseFrame(b []byte) (*Frame, error) {
	if len(b) < FrameHeader {
		return nil, ErrShort
	}
	rawSize := int(binary.LittleEndian.Uint32(b[17:])) - 9
	dataSize := int(binary.LittleEndian.Uint32(b[21:]))
	if rawSize < 0 || rawSize > MaxFrameSize || dataSize < 0 || dataSize > MaxFrameSize {
		return nil, fmt.Errorf("ref: frame sizes %d/%d out of range", rawSize, dataSize)
	}
	if len(b) < FrameHeader+rawSize {
		return nil, ErrShort
	}
	f := &Frame{Method: b[16], Consumed: FrameHeader + rawSize}
	f.Stored = city.U128{Low: binary.LittleEndian.Uint64(b[0:]), High: binary.LittleEndian.Uint64(b[8:])}
	f.Computed = city.CH128(b[16 : FrameHeader+rawSize])
	if f.Stored != f.Computed {
		return f, ErrChecksum
	}
	comp := b[FrameHeader : FrameHeader+rawSize]
	switch f.Method {
	case MethodNone:
		if rawSize != dataSize {
			return f, fmt.Errorf("ref: uncompressed frame sizes differ %d/%d", rawSize, dataSize)
		}
		f.Payload = append([]byte(nil), comp...)
	case MethodLZ4:
		dst := make([]byte, dataSize)
		if dataSize == 0 && rawSize == 0 {
			f.Payload = dst
			break
		}
		n, err := lz4.UncompressBlock(comp, dst)
		if err != nil {
			return f, fmt.Errorf("ref: lz4: %w", err)
		}
		if n != dataSize {
			return f, fmt.Errorf("ref: lz4 size %d != %d", n, dataSize)
		}
		f.Payload = dst
	case MethodZSTD:
		out, err := zstdDecode(comp)
		if err != nil {
			return f, fmt.Errorf("ref: zstd: %w", err)
		}
		if len(out) != dataSize {
			return f, fmt.Errorf("ref: zstd size %d != %d", len(out), dataSize)
		}
		f.Payload = out
	default:
		return f, fmt.Errorf("ref: unknown method %#x", f.Method)
	}
	return f, nil
}

// ParseFrames parses a whole stream of frames and returns the concatenated payload.
func ParseFrames(b []byte) ([]byte, int, error) {
	var out []byte
	n := 0
	for len(b) > 0 {
		f, err := ParseFrame(b)
		if err != nil {
			return out, n, err
		}
		out = append(out, f.Payload...)
		b = b[f.Consumed:]
		n++
	}
	return out, n, nil
}
