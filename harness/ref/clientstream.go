package ref

import (
	"errors"
	"fmt"
)

// PacketKind of a parsed client packet.
type PacketKind int

const (
	PHello PacketKind = iota
	PAddendum
	PQuery
	PData
	PCancel
	PPing
)

func (k PacketKind) String() string {
	return [...]string{"Hello", "Addendum", "Query", "Data", "Cancel", "Ping"}[k]
}

type Packet struct {
	Kind       PacketKind
	Start, End int // byte range in the stream
	Hello      *ClientHello
	QuotaKey   string // addendum
	Query      *Query
	Table      string // data
	Block      *Block // data
	Compressed bool   // data: block was wrapped in a compressed frame
	Method     byte   // data: frame method byte
	Frames     int
}

// ClientStream incrementally parses everything a client writes.
type ClientStream struct {
	ServerRev int // revision the scripted server announces
	// Compression expected for data blocks: taken from the last Query packet.
	Buf     []byte
	Pos     int
	Packets []Packet
	Err     error // first hard parse error (stream is not well-formed)

	Rev        int // negotiated revision once the hello was seen
	helloSeen  bool
	needAdd    bool
	compressed bool
}

func (s *ClientStream) Negotiated() int { return s.Rev }

// ForgetQueries drops every packet recorded after the handshake (hello and addendum stay), so
// that counting preconditions start afresh; the parse state (negotiated revision, position in
// the byte stream) is kept.
func (s *ClientStream) ForgetQueries() {
	keep := 0
	for keep < len(s.Packets) && (s.Packets[keep].Kind == PHello || s.Packets[keep].Kind == PAddendum) {
		keep++
	}
	s.Packets = s.Packets[:keep]
}

// Feed appends bytes and parses as many complete packets as possible.
func (s *ClientStream) Feed(b []byte) {
	s.Buf = append(s.Buf, b...)
	s.parse()
}

func (s *ClientStream) parse() {
	for s.Err == nil && s.Pos < len(s.Buf) {
		n, p, err := s.parseOne(s.Buf[s.Pos:])
		if err != nil {
			if errors.Is(err, ErrShort) {
				return
			}
			s.Err = fmt.Errorf("at byte %d: %w", s.Pos, err)
			return
		}
		p.Start, p.End = s.Pos, s.Pos+n
		s.Pos += n
		s.Packets = append(s.Packets, p)
	}
}

// Pending reports unparsed bytes (an incomplete packet, or garbage after Err).
func (s *ClientStream) Pending() int { return len(s.Buf) - s.Pos }

func (s *ClientStream) parseOne(b []byte) (int, Packet, error) {
	d := &Dec{B: b}
	if s.needAdd {
		q, err := d.str()
		if err != nil {
			return 0, Packet{}, err
		}
		s.needAdd = false
		return d.Pos, Packet{Kind: PAddendum, QuotaKey: q}, nil
	}
	code, err := d.UVarint()
	if err != nil {
		return 0, Packet{}, err
	}
	if !s.helloSeen {
		if code != ClientHelloCode {
			return 0, Packet{}, fmt.Errorf("first packet has code %d, want Hello", code)
		}
		h, err := DecodeClientHello(d)
		if err != nil {
			return 0, Packet{}, err
		}
		s.helloSeen = true
		s.Rev = int(h.Revision)
		if s.ServerRev < s.Rev {
			s.Rev = s.ServerRev
		}
		s.needAdd = s.Rev >= RevAddendum
		return d.Pos, Packet{Kind: PHello, Hello: &h}, nil
	}
	switch code {
	case ClientQueryCode:
		q, err := DecodeQuery(d, s.Rev)
		if err != nil {
			return 0, Packet{}, err
		}
		if q.Compression > 1 {
			return 0, Packet{}, fmt.Errorf("query compression flag %d", q.Compression)
		}
		s.compressed = q.Compression == 1
		return d.Pos, Packet{Kind: PQuery, Query: &q}, nil
	case ClientDataCode:
		p := Packet{Kind: PData}
		if s.Rev >= RevTempTables {
			t, err := d.str()
			if err != nil {
				return 0, Packet{}, err
			}
			p.Table = t
		}
		if !s.compressed {
			blk, err := DecodeBlock(d, s.Rev)
			if err != nil {
				return 0, Packet{}, err
			}
			p.Block = blk
			return d.Pos, p, nil
		}
		// Exactly one frame must hold exactly one block.
		f, err := ParseFrame(d.B[d.Pos:])
		if err != nil {
			return 0, Packet{}, err
		}
		inner := &Dec{B: f.Payload}
		blk, err := DecodeBlock(inner, s.Rev)
		if err != nil {
			if errors.Is(err, ErrShort) {
				return 0, Packet{}, fmt.Errorf("compressed frame holds a truncated block: %v", err)
			}
			return 0, Packet{}, err
		}
		if inner.Left() != 0 {
			return 0, Packet{}, fmt.Errorf("compressed frame holds %d bytes beyond the block", inner.Left())
		}
		d.Pos += f.Consumed
		p.Block, p.Compressed, p.Method, p.Frames = blk, true, f.Method, 1
		return d.Pos, p, nil
	case ClientCancelCode:
		return d.Pos, Packet{Kind: PCancel}, nil
	case ClientPingCode:
		return d.Pos, Packet{Kind: PPing}, nil
	case ClientHelloCode:
		return 0, Packet{}, fmt.Errorf("second Hello packet")
	}
	return 0, Packet{}, fmt.Errorf("unknown client packet code %d", code)
}

// Count returns the number of parsed packets of kind k.
func (s *ClientStream) Count(k PacketKind) int {
	n := 0
	for _, p := range s.Packets {
		if p.Kind == k {
			n++
		}
	}
	return n
}

// EmptyData returns how many data packets with an empty (0 x 0) block were seen.
func (s *ClientStream) EmptyData() int {
	n := 0
	for _, p := range s.Packets {
		if p.Kind == PData && len(p.Block.Columns) == 0 && p.Block.Rows() == 0 {
			n++
		}
	}
	return n
}

// DataSinceQuery returns the data packets after the last Query packet.
func (s *ClientStream) DataSinceQuery() []Packet {
	last := -1
	for i, p := range s.Packets {
		if p.Kind == PQuery {
			last = i
		}
	}
	var out []Packet
	if last < 0 {
		return nil
	}
	for _, p := range s.Packets[last+1:] {
		if p.Kind == PData {
			out = append(out, p)
		}
	}
	return out
}

// LastQuery returns the last query packet.
func (s *ClientStream) LastQuery() *Query {
	for i := len(s.Packets) - 1; i >= 0; i-- {
		if s.Packets[i].Kind == PQuery {
			return s.Packets[i].Query
		}
	}
	return nil
}
