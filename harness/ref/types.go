// Package ref is an independent reference implementation of the ClickHouse
// Native column/block format and of the TCP protocol messages, written from
// the wire format. It imports nothing from ch-go's encoders or decoders.
package ref

import (
	"fmt"
	"strconv"
	"strings"
)

type Kind int

const (
	KFixed    Kind = iota // fixed-width scalar: Val = []byte of Width wire bytes
	KString               // Val = []byte
	KArray                // Val = []Val
	KNullable             // Val = Null
	KLowCard              // Val = inner Val
	KMap                  // Val = []KV
	KTuple                // Val = []Val
)

// Val is an erased logical value; its shape is given by the Type.
type Val = any

type Null struct {
	IsNull bool
	V      Val // the value slot on the wire (present also for NULL rows)
}

type KV struct{ K, V Val }

type Type struct {
	K     Kind
	Name  string // ClickHouse type string
	Width int    // KFixed
	Elem  []*Type
	Names []string // named tuple members ("" when unnamed)
	JSON  bool     // KString with the 8-byte JSON-as-string serialization version as state prefix
}

func (t *Type) String() string { return t.Name }

// HasLC reports whether the type contains LowCardinality (non-canonical encoding).
func (t *Type) HasLC() bool {
	if t.K == KLowCard {
		return true
	}
	for _, e := range t.Elem {
		if e.HasLC() {
			return true
		}
	}
	return false
}

func (t *Type) Depth() int {
	d := 0
	for _, e := range t.Elem {
		if x := e.Depth(); x > d {
			d = x
		}
	}
	if t.K == KFixed || t.K == KString {
		return 0
	}
	return d + 1
}

func Fixed(name string, width int) *Type { return &Type{K: KFixed, Name: name, Width: width} }
func String(name string) *Type           { return &Type{K: KString, Name: name} }
func Array(e *Type) *Type {
	return &Type{K: KArray, Name: "Array(" + e.Name + ")", Elem: []*Type{e}}
}
func Nullable(e *Type) *Type {
	return &Type{K: KNullable, Name: "Nullable(" + e.Name + ")", Elem: []*Type{e}}
}
func LowCard(e *Type) *Type {
	return &Type{K: KLowCard, Name: "LowCardinality(" + e.Name + ")", Elem: []*Type{e}}
}
func Map(k, v *Type) *Type {
	return &Type{K: KMap, Name: "Map(" + k.Name + ", " + v.Name + ")", Elem: []*Type{k, v}}
}
func Tuple(names []string, elems ...*Type) *Type {
	var parts []string
	for i, e := range elems {
		if names != nil && names[i] != "" {
			parts = append(parts, names[i]+" "+e.Name)
		} else {
			parts = append(parts, e.Name)
		}
	}
	if names == nil {
		names = make([]string, len(elems))
	}
	return &Type{K: KTuple, Name: "Tuple(" + strings.Join(parts, ", ") + ")", Elem: elems, Names: names}
}

var scalarWidths = map[string]int{
	"Int8": 1, "UInt8": 1, "Bool": 1, "Enum8": 1, "Nothing": 1,
	"Int16": 2, "UInt16": 2, "Enum16": 2, "Date": 2,
	"Int32": 4, "UInt32": 4, "Float32": 4, "Date32": 4, "DateTime": 4, "IPv4": 4, "Decimal32": 4,
	"Int64": 8, "UInt64": 8, "Float64": 8, "DateTime64": 8, "Decimal64": 8,
	"Int128": 16, "UInt128": 16, "UUID": 16, "IPv6": 16, "Decimal128": 16,
	"Int256": 32, "UInt256": 32, "Decimal256": 32,
	"IntervalSecond": 8, "IntervalMinute": 8, "IntervalHour": 8, "IntervalDay": 8,
	"IntervalWeek": 8, "IntervalMonth": 8, "IntervalQuarter": 8, "IntervalYear": 8,
}

// splitTop splits s at top-level commas (outside parentheses and single quotes).
func splitTop(s string) ([]string, error) {
	var parts []string
	depth, start := 0, 0
	inQ := false
	for i := 0; i < len(s); i++ {
		c := s[i]
		switch {
		case inQ:
			if c == '\\' && i+1 < len(s) {
				i++
			} else if c == '\'' {
				inQ = false
			}
		case c == '\'':
			inQ = true
		case c == '(':
			depth++
		case c == ')':
			depth--
			if depth < 0 {
				return nil, fmt.Errorf("unbalanced ')' in %q", s)
			}
		case c == ',' && depth == 0:
			parts = append(parts, strings.TrimSpace(s[start:i]))
			start = i + 1
		}
	}
	if depth != 0 || inQ {
		return nil, fmt.Errorf("unbalanced %q", s)
	}
	parts = append(parts, strings.TrimSpace(s[start:]))
	return parts, nil
}

// ParseType parses a ClickHouse type string into a Type (wire layout only:
// parameters that do not affect the layout are validated loosely).
func ParseType(s string) (*Type, error) {
	return parseType(strings.TrimSpace(s), 0)
}

func parseType(s string, depth int) (*Type, error) {
	if depth > 64 {
		return nil, fmt.Errorf("type too deep")
	}
	if s == "" {
		return nil, fmt.Errorf("empty type")
	}
	open := strings.IndexByte(s, '(')
	base, args := s, ""
	hasArgs := false
	if open >= 0 {
		if !strings.HasSuffix(s, ")") {
			return nil, fmt.Errorf("missing ')' in %q", s)
		}
		base, args = s[:open], s[open+1:len(s)-1]
		hasArgs = true
	}
	for _, c := range base {
		if !(c >= 'a' && c <= 'z' || c >= 'A' && c <= 'Z' || c >= '0' && c <= '9' || c == '_') {
			return nil, fmt.Errorf("bad base %q", base)
		}
	}
	switch base {
	case "String", "JSON":
		if hasArgs {
			return nil, fmt.Errorf("%s takes no parameters", base)
		}
		t := String(s)
		t.JSON = base == "JSON"
		return t, nil
	case "FixedString":
		n, err := strconv.Atoi(strings.TrimSpace(args))
		if err != nil || n <= 0 {
			return nil, fmt.Errorf("bad FixedString size %q", args)
		}
		return Fixed(s, n), nil
	case "Array", "Nullable", "LowCardinality":
		if !hasArgs {
			return nil, fmt.Errorf("%s needs a parameter", base)
		}
		parts, err := splitTop(args)
		if err != nil || len(parts) != 1 {
			return nil, fmt.Errorf("%s needs exactly one parameter: %q", base, args)
		}
		e, err := parseType(parts[0], depth+1)
		if err != nil {
			return nil, err
		}
		k := map[string]Kind{"Array": KArray, "Nullable": KNullable, "LowCardinality": KLowCard}[base]
		return &Type{K: k, Name: s, Elem: []*Type{e}}, nil
	case "Map":
		parts, err := splitTop(args)
		if err != nil || len(parts) != 2 {
			return nil, fmt.Errorf("Map needs two parameters: %q", args)
		}
		k, err := parseType(parts[0], depth+1)
		if err != nil {
			return nil, err
		}
		v, err := parseType(parts[1], depth+1)
		if err != nil {
			return nil, err
		}
		return &Type{K: KMap, Name: s, Elem: []*Type{k, v}}, nil
	case "Tuple":
		parts, err := splitTop(args)
		if err != nil || !hasArgs {
			return nil, fmt.Errorf("bad Tuple %q", s)
		}
		t := &Type{K: KTuple, Name: s}
		for _, p := range parts {
			name := ""
			// "name Type" form: first token is an identifier followed by a space and a type.
			if sp := strings.IndexByte(p, ' '); sp > 0 && !strings.ContainsAny(p[:sp], "(',") {
				if _, err := parseType(strings.TrimSpace(p[sp+1:]), depth+1); err == nil {
					name, p = p[:sp], strings.TrimSpace(p[sp+1:])
				}
			}
			e, err := parseType(p, depth+1)
			if err != nil {
				return nil, err
			}
			t.Elem = append(t.Elem, e)
			t.Names = append(t.Names, name)
		}
		return t, nil
	case "Point":
		f := Fixed("Float64", 8)
		return &Type{K: KTuple, Name: s, Elem: []*Type{f, f}, Names: []string{"", ""}}, nil
	case "Decimal":
		parts, err := splitTop(args)
		if err != nil || !hasArgs || len(parts) < 1 || len(parts) > 2 {
			return nil, fmt.Errorf("bad Decimal %q", s)
		}
		p, err := strconv.Atoi(parts[0])
		if err != nil {
			return nil, fmt.Errorf("bad Decimal precision %q", parts[0])
		}
		switch {
		case p >= 1 && p <= 9:
			return Fixed(s, 4), nil
		case p <= 18 && p >= 1:
			return Fixed(s, 8), nil
		case p <= 38 && p >= 1:
			return Fixed(s, 16), nil
		case p <= 76 && p >= 1:
			return Fixed(s, 32), nil
		}
		return nil, fmt.Errorf("bad Decimal precision %d", p)
	}
	if w, ok := scalarWidths[base]; ok {
		switch base {
		case "Enum8", "Enum16", "DateTime", "DateTime64", "Decimal32", "Decimal64", "Decimal128", "Decimal256":
			// parameters allowed
		default:
			if hasArgs {
				return nil, fmt.Errorf("%s takes no parameters", base)
			}
		}
		return Fixed(s, w), nil
	}
	return nil, fmt.Errorf("unknown type %q", s)
}
