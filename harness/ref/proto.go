package ref

import (
	"encoding/binary"
	"fmt"
)

// Client packet codes.
const (
	ClientHelloCode  = 0
	ClientQueryCode  = 1
	ClientDataCode   = 2
	ClientCancelCode = 3
	ClientPingCode   = 4
)

// Server packet codes.
const (
	ServerHelloCode         = 0
	ServerDataCode          = 1
	ServerExceptionCode     = 2
	ServerProgressCode      = 3
	ServerPongCode          = 4
	ServerEndOfStreamCode   = 5
	ServerProfileCode       = 6
	ServerTotalsCode        = 7
	ServerExtremesCode      = 8
	ServerTablesStatusCode  = 9
	ServerLogCode           = 10
	ServerTableColumnsCode  = 11
	ServerPartUUIDsCode     = 12
	ServerReadTaskCode      = 13
	ServerProfileEventsCode = 14
)

type ClientHello struct {
	Name                   string
	Major, Minor, Revision int64
	Database, User, Pass   string
}

// EncodeClientHello writes the packet including its code.
func EncodeClientHello(e *Enc, h ClientHello) {
	e.UVarint(ClientHelloCode, RCount)
	e.Str([]byte(h.Name), RPayload)
	e.UVarint(uint64(h.Major), RCount)
	e.UVarint(uint64(h.Minor), RCount)
	e.UVarint(uint64(h.Revision), RCount)
	e.Str([]byte(h.Database), RPayload)
	e.Str([]byte(h.User), RPayload)
	e.Str([]byte(h.Pass), RPayload)
}

func (d *Dec) str() (string, error) {
	b, err := d.Str()
	return string(b), err
}

func (d *Dec) ivar() (int64, error) {
	v, err := d.UVarint()
	return int64(v), err
}

// DecodeClientHello parses the body (after the code).
func DecodeClientHello(d *Dec) (h ClientHello, err error) {
	if h.Name, err = d.str(); err != nil {
		return
	}
	if h.Major, err = d.ivar(); err != nil {
		return
	}
	if h.Minor, err = d.ivar(); err != nil {
		return
	}
	if h.Revision, err = d.ivar(); err != nil {
		return
	}
	if h.Database, err = d.str(); err != nil {
		return
	}
	if h.User, err = d.str(); err != nil {
		return
	}
	h.Pass, err = d.str()
	return
}

type ServerHello struct {
	Name                   string
	Major, Minor, Revision int64
	Timezone, DisplayName  string
	Patch                  int64
}

// EncodeServerHello writes the packet (with code); fields gated by the
// revision the client announced, as the real server does.
func EncodeServerHello(e *Enc, h ServerHello, clientRev int) {
	e.UVarint(ServerHelloCode, RCount)
	e.Str([]byte(h.Name), RPayload)
	e.UVarint(uint64(h.Major), RCount)
	e.UVarint(uint64(h.Minor), RCount)
	e.UVarint(uint64(h.Revision), RCount)
	if clientRev >= RevTimezone {
		e.Str([]byte(h.Timezone), RPayload)
	}
	if clientRev >= RevDisplayName {
		e.Str([]byte(h.DisplayName), RPayload)
	}
	if clientRev >= RevVersionPatch {
		e.UVarint(uint64(h.Patch), RCount)
	}
}

type Setting struct {
	Key, Value string
	Flags      uint64 // 1 important, 2 custom, 4 obsolete
}

func encodeSetting(e *Enc, s Setting) {
	e.Str([]byte(s.Key), RPayload)
	e.UVarint(s.Flags, RCount)
	e.Str([]byte(s.Value), RPayload)
}

func decodeSettings(d *Dec) ([]Setting, error) {
	var out []Setting
	for {
		k, err := d.str()
		if err != nil {
			return nil, err
		}
		if k == "" {
			return out, nil
		}
		f, err := d.UVarint()
		if err != nil {
			return nil, err
		}
		v, err := d.str()
		if err != nil {
			return nil, err
		}
		out = append(out, Setting{Key: k, Value: v, Flags: f})
	}
}

type Span struct {
	Valid   bool
	TraceID [16]byte
	SpanID  [8]byte
	State   string
	Flags   byte
}

type ClientInfo struct {
	QueryKind        byte
	InitialUser      string
	InitialQueryID   string
	InitialAddress   string
	InitialTime      int64
	Interface        byte
	OSUser           string
	Hostname         string
	ClientName       string
	Major, Minor     int64
	Revision         int64
	QuotaKey         string
	DistributedDepth int64
	Patch            int64
	Span             Span
	Collaborate      int64
	CountReplicas    int64
	ReplicaNumber    int64
}

func rev8(b []byte) []byte {
	out := make([]byte, len(b))
	for i := 0; i+8 <= len(b); i += 8 {
		for j := 0; j < 8; j++ {
			out[i+j] = b[i+7-j]
		}
	}
	return out
}

func encodeClientInfo(e *Enc, c ClientInfo, rev int) {
	e.Byte(c.QueryKind, RPayload)
	e.Str([]byte(c.InitialUser), RPayload)
	e.Str([]byte(c.InitialQueryID), RPayload)
	e.Str([]byte(c.InitialAddress), RPayload)
	if rev >= RevQueryStartTime {
		e.U64(uint64(c.InitialTime), RPayload)
	}
	e.Byte(c.Interface, RPayload)
	e.Str([]byte(c.OSUser), RPayload)
	e.Str([]byte(c.Hostname), RPayload)
	e.Str([]byte(c.ClientName), RPayload)
	e.UVarint(uint64(c.Major), RCount)
	e.UVarint(uint64(c.Minor), RCount)
	e.UVarint(uint64(c.Revision), RCount)
	if rev >= RevQuotaKeyInClientInfo {
		e.Str([]byte(c.QuotaKey), RPayload)
	}
	if rev >= RevDistributedDepth {
		e.UVarint(uint64(c.DistributedDepth), RCount)
	}
	if rev >= RevVersionPatch && c.Interface == 1 {
		e.UVarint(uint64(c.Patch), RCount)
	}
	if rev >= RevOpenTelemetry {
		if c.Span.Valid {
			e.Byte(1, RPayload)
			e.Raw(rev8(c.Span.TraceID[:]), RPayload)
			e.Raw(rev8(c.Span.SpanID[:]), RPayload)
			e.Str([]byte(c.Span.State), RPayload)
			e.Byte(c.Span.Flags, RPayload)
		} else {
			e.Byte(0, RPayload)
		}
	}
	if rev >= RevParallelReplicas {
		e.UVarint(uint64(c.Collaborate), RCount)
		e.UVarint(uint64(c.CountReplicas), RCount)
		e.UVarint(uint64(c.ReplicaNumber), RCount)
	}
}

func decodeClientInfo(d *Dec, rev int) (c ClientInfo, err error) {
	if c.QueryKind, err = d.Byte(); err != nil {
		return
	}
	if c.InitialUser, err = d.str(); err != nil {
		return
	}
	if c.InitialQueryID, err = d.str(); err != nil {
		return
	}
	if c.InitialAddress, err = d.str(); err != nil {
		return
	}
	if rev >= RevQueryStartTime {
		var v uint64
		if v, err = d.U64(); err != nil {
			return
		}
		c.InitialTime = int64(v)
	}
	if c.Interface, err = d.Byte(); err != nil {
		return
	}
	if c.OSUser, err = d.str(); err != nil {
		return
	}
	if c.Hostname, err = d.str(); err != nil {
		return
	}
	if c.ClientName, err = d.str(); err != nil {
		return
	}
	if c.Major, err = d.ivar(); err != nil {
		return
	}
	if c.Minor, err = d.ivar(); err != nil {
		return
	}
	if c.Revision, err = d.ivar(); err != nil {
		return
	}
	if rev >= RevQuotaKeyInClientInfo {
		if c.QuotaKey, err = d.str(); err != nil {
			return
		}
	}
	if rev >= RevDistributedDepth {
		if c.DistributedDepth, err = d.ivar(); err != nil {
			return
		}
	}
	if rev >= RevVersionPatch && c.Interface == 1 {
		if c.Patch, err = d.ivar(); err != nil {
			return
		}
	}
	if rev >= RevOpenTelemetry {
		var has byte
		if has, err = d.Byte(); err != nil {
			return
		}
		if has > 1 {
			return c, fmt.Errorf("ref: trace flag byte %d", has)
		}
		if has == 1 {
			c.Span.Valid = true
			var b []byte
			if b, err = d.Take(16); err != nil {
				return
			}
			copy(c.Span.TraceID[:], rev8(b))
			if b, err = d.Take(8); err != nil {
				return
			}
			copy(c.Span.SpanID[:], rev8(b))
			if c.Span.State, err = d.str(); err != nil {
				return
			}
			if c.Span.Flags, err = d.Byte(); err != nil {
				return
			}
		}
	}
	if rev >= RevParallelReplicas {
		if c.Collaborate, err = d.ivar(); err != nil {
			return
		}
		if c.CountReplicas, err = d.ivar(); err != nil {
			return
		}
		if c.ReplicaNumber, err = d.ivar(); err != nil {
			return
		}
	}
	return
}

type Query struct {
	ID          string
	Info        ClientInfo
	Settings    []Setting
	Secret      string
	Stage       uint64
	Compression uint64
	Body        string
	Params      []Setting
}

// EncodeQuery writes a Query packet (with code) at rev >= 54429.
func EncodeQuery(e *Enc, q Query, rev int) {
	e.UVarint(ClientQueryCode, RCount)
	e.Str([]byte(q.ID), RPayload)
	encodeClientInfo(e, q.Info, rev)
	for _, s := range q.Settings {
		encodeSetting(e, s)
	}
	e.Str(nil, RPayload)
	if rev >= RevInterServerSecret {
		e.Str([]byte(q.Secret), RPayload)
	}
	e.UVarint(q.Stage, RCount)
	e.UVarint(q.Compression, RCount)
	e.Str([]byte(q.Body), RPayload)
	if rev >= RevParameters {
		for _, s := range q.Params {
			encodeSetting(e, s)
		}
		e.Str(nil, RPayload)
	}
}

// DecodeQuery parses the body (after the code).
func DecodeQuery(d *Dec, rev int) (q Query, err error) {
	if rev < RevSettingsAsStrings {
		return q, fmt.Errorf("ref: query at revision %d not modelled", rev)
	}
	if q.ID, err = d.str(); err != nil {
		return
	}
	if q.Info, err = decodeClientInfo(d, rev); err != nil {
		return
	}
	if q.Settings, err = decodeSettings(d); err != nil {
		return
	}
	if rev >= RevInterServerSecret {
		if q.Secret, err = d.str(); err != nil {
			return
		}
	}
	if q.Stage, err = d.UVarint(); err != nil {
		return
	}
	if q.Compression, err = d.UVarint(); err != nil {
		return
	}
	if q.Body, err = d.str(); err != nil {
		return
	}
	if rev >= RevParameters {
		if q.Params, err = decodeSettings(d); err != nil {
			return
		}
	}
	return
}

type Progress struct{ Rows, Bytes, TotalRows, WroteRows, WroteBytes, ElapsedNs uint64 }

// EncodeProgress writes the body (no code).
func EncodeProgress(e *Enc, p Progress, rev int) {
	e.UVarint(p.Rows, RCount)
	e.UVarint(p.Bytes, RCount)
	e.UVarint(p.TotalRows, RCount)
	if rev >= RevClientWriteInfo {
		e.UVarint(p.WroteRows, RCount)
		e.UVarint(p.WroteBytes, RCount)
	}
	if rev >= RevServerQueryTimeInProg {
		e.UVarint(p.ElapsedNs, RCount)
	}
}

type Profile struct {
	Rows, Blocks, Bytes uint64
	AppliedLimit        bool
	RowsBeforeLimit     uint64
	Calculated          bool
}

func bbyte(b bool) byte {
	if b {
		return 1
	}
	return 0
}

// EncodeProfile writes the body (no code).
func EncodeProfile(e *Enc, p Profile) {
	e.UVarint(p.Rows, RCount)
	e.UVarint(p.Blocks, RCount)
	e.UVarint(p.Bytes, RCount)
	e.Byte(bbyte(p.AppliedLimit), RPayload)
	e.UVarint(p.RowsBeforeLimit, RCount)
	e.Byte(bbyte(p.Calculated), RPayload)
}

type Exception struct {
	Code                 int32
	Name, Message, Stack string
	Nested               bool
}

// EncodeException writes one exception body (no code).
func EncodeException(e *Enc, x Exception) {
	var b [4]byte
	binary.LittleEndian.PutUint32(b[:], uint32(x.Code))
	e.Raw(b[:], RPayload)
	e.Str([]byte(x.Name), RPayload)
	e.Str([]byte(x.Message), RPayload)
	e.Str([]byte(x.Stack), RPayload)
	e.Byte(bbyte(x.Nested), RPayload)
}

// EncodeExceptionChain writes code + chain with nested flags.
func EncodeExceptionChain(e *Enc, chain []Exception) {
	e.UVarint(ServerExceptionCode, RCount)
	for i, x := range chain {
		x.Nested = i != len(chain)-1
		EncodeException(e, x)
	}
}

type TableColumns struct{ First, Second string }

func EncodeTableColumns(e *Enc, t TableColumns) {
	e.Str([]byte(t.First), RPayload)
	e.Str([]byte(t.Second), RPayload)
}

// EncodeDataHeader writes code + table name (rev >= 50264) of a data-like packet.
func EncodeDataHeader(e *Enc, code uint64, table string, rev int) {
	e.UVarint(code, RCount)
	if rev >= RevTempTables {
		e.Str([]byte(table), RName)
	}
}

// EncodeDataPacket writes a complete data-like packet; the block is wrapped in
// one compressed frame when method != 0.
func EncodeDataPacket(e *Enc, code uint64, table string, rev int, b *Block, method byte) error {
	EncodeDataHeader(e, code, table, rev)
	if method == 0 {
		EncodeBlock(e, rev, b)
		return nil
	}
	inner := &Enc{NoMap: true}
	EncodeBlock(inner, rev, b)
	f, err := BuildFrame(method, inner.B)
	if err != nil {
		return err
	}
	e.Raw(f, RPayload)
	return nil
}

// EncodeClientInfo writes a bare ClientInfo (as embedded in a Query packet).
func EncodeClientInfo(e *Enc, c ClientInfo, rev int) { encodeClientInfo(e, c, rev) }

// DecodeClientInfo parses a bare ClientInfo.
func DecodeClientInfo(d *Dec, rev int) (ClientInfo, error) { return decodeClientInfo(d, rev) }
