package ref

import (
	"bytes"
	"encoding/binary"
	"errors"
	"fmt"
)

// Role classifies a byte range of an encoding for mutation / cut targeting.
type Role int

const (
	RCount   Role = iota // block column/row counts (uvarint)
	RLength              // string length (uvarint)
	ROffset              // array/map cumulative offset (8 bytes)
	RKey                 // low-cardinality key
	RMeta                // low-cardinality meta / dictionary size / key count
	RVersion             // low-cardinality state prefix
	RMask                // nullable mask byte
	RPayload             // value bytes
	RName                // column name / type string bytes
	RInfo                // block info fields
	RFlag                // custom serialization flag
)

var roleNames = [...]string{"count", "length", "offset", "key", "meta", "version", "mask", "payload", "name", "info", "flag"}

func (r Role) String() string { return roleNames[r] }

type Field struct {
	Off, Len int
	Role     Role
}

// Enc is an append-only buffer that records a field map.
type Enc struct {
	B      []byte
	Fields []Field
	// NoMap disables field recording (bulk encodes).
	NoMap bool
	// LCBump widens LowCardinality keys beyond the minimal width (0..3 steps; any sufficient
	// width is valid on the wire, and real servers do send wider keys than necessary).
	LCBump int
}

func (e *Enc) mark(n int, r Role) {
	if e.NoMap {
		return
	}
	// Coalesce adjacent payload bytes to keep the map small.
	if r == RPayload && len(e.Fields) > 0 {
		l := &e.Fields[len(e.Fields)-1]
		if l.Role == RPayload && l.Off+l.Len == len(e.B)-n && l.Len < 1<<12 {
			l.Len += n
			return
		}
	}
	e.Fields = append(e.Fields, Field{Off: len(e.B) - n, Len: n, Role: r})
}

func (e *Enc) UVarint(v uint64, r Role) {
	n0 := len(e.B)
	e.B = binary.AppendUvarint(e.B, v)
	e.mark(len(e.B)-n0, r)
}

func (e *Enc) U64(v uint64, r Role) {
	e.B = binary.LittleEndian.AppendUint64(e.B, v)
	e.mark(8, r)
}

func (e *Enc) Raw(b []byte, r Role) {
	if len(b) == 0 {
		return
	}
	e.B = append(e.B, b...)
	e.mark(len(b), r)
}

func (e *Enc) Byte(b byte, r Role) {
	e.B = append(e.B, b)
	e.mark(1, r)
}

func (e *Enc) Str(s []byte, r Role) {
	e.UVarint(uint64(len(s)), RLength)
	e.Raw(s, r)
}

// EncodeState writes the serialization state prefix of a column of type t.
func EncodeState(e *Enc, t *Type) {
	switch t.K {
	case KString:
		if t.JSON {
			e.U64(1, RVersion) // JSON serialized as string
		}
	case KLowCard:
		e.U64(1, RVersion) // SharedDictionariesWithAdditionalKeys
		EncodeState(e, t.Elem[0])
	case KArray, KNullable, KMap, KTuple:
		for _, el := range t.Elem {
			EncodeState(e, el)
		}
	}
}

func valKey(t *Type, v Val) string {
	// Dictionary identity of a scalar value = its wire bytes.
	switch t.K {
	case KFixed, KString:
		return string(v.([]byte))
	}
	panic("ref: low cardinality over non-scalar")
}

// EncodeColumn writes the rows of a column (without state prefix).
func EncodeColumn(e *Enc, t *Type, rows []Val) {
	switch t.K {
	case KFixed:
		for _, v := range rows {
			b := v.([]byte)
			if len(b) != t.Width {
				panic(fmt.Sprintf("ref: %s value has %d bytes", t.Name, len(b)))
			}
			e.Raw(b, RPayload)
		}
	case KString:
		for _, v := range rows {
			e.Str(v.([]byte), RPayload)
		}
	case KArray:
		var flat []Val
		for _, v := range rows {
			flat = append(flat, v.([]Val)...)
			e.U64(uint64(len(flat)), ROffset)
		}
		EncodeColumn(e, t.Elem[0], flat)
	case KNullable:
		vals := make([]Val, len(rows))
		for i, v := range rows {
			n := v.(Null)
			if n.IsNull {
				e.Byte(1, RMask)
			} else {
				e.Byte(0, RMask)
			}
			vals[i] = n.V
		}
		EncodeColumn(e, t.Elem[0], vals)
	case KLowCard:
		if len(rows) == 0 {
			return
		}
		var dict []Val
		idx := map[string]int{}
		keys := make([]int, len(rows))
		for i, v := range rows {
			k := valKey(t.Elem[0], v)
			j, ok := idx[k]
			if !ok {
				j = len(dict)
				idx[k] = j
				dict = append(dict, v)
			}
			keys[i] = j
		}
		kw := 0
		switch {
		case len(dict) <= 1<<8:
			kw = 0
		case len(dict) <= 1<<16:
			kw = 1
		default:
			kw = 2
		}
		kw = min(3, kw+e.LCBump)
		e.U64(uint64(kw)|1<<9|1<<10, RMeta)
		e.U64(uint64(len(dict)), RMeta)
		EncodeColumn(e, t.Elem[0], dict)
		e.U64(uint64(len(rows)), RMeta)
		for _, k := range keys {
			switch kw {
			case 0:
				e.Byte(byte(k), RKey)
			case 1:
				e.B = binary.LittleEndian.AppendUint16(e.B, uint16(k))
				e.mark(2, RKey)
			case 2:
				e.B = binary.LittleEndian.AppendUint32(e.B, uint32(k))
				e.mark(4, RKey)
			case 3:
				e.B = binary.LittleEndian.AppendUint64(e.B, uint64(k))
				e.mark(8, RKey)
			}
		}
	case KMap:
		if len(rows) == 0 {
			return
		}
		var ks, vs []Val
		for _, v := range rows {
			for _, kv := range v.([]KV) {
				ks = append(ks, kv.K)
				vs = append(vs, kv.V)
			}
			e.U64(uint64(len(ks)), ROffset)
		}
		EncodeColumn(e, t.Elem[0], ks)
		EncodeColumn(e, t.Elem[1], vs)
	case KTuple:
		for i, el := range t.Elem {
			col := make([]Val, len(rows))
			for j, v := range rows {
				col[j] = v.([]Val)[i]
			}
			EncodeColumn(e, el, col)
		}
	}
}

// ---- decoding ----------------------------------------------------------

var ErrShort = errors.New("ref: unexpected end of input")

type Dec struct {
	B   []byte
	Pos int
}

func (d *Dec) Left() int { return len(d.B) - d.Pos }

func (d *Dec) Take(n int) ([]byte, error) {
	if n < 0 || d.Left() < n {
		return nil, ErrShort
	}
	b := d.B[d.Pos : d.Pos+n]
	d.Pos += n
	return b, nil
}

func (d *Dec) UVarint() (uint64, error) {
	v, n := binary.Uvarint(d.B[d.Pos:])
	if n == 0 {
		return 0, ErrShort
	}
	if n < 0 {
		return 0, errors.New("ref: uvarint overflow")
	}
	d.Pos += n
	return v, nil
}

func (d *Dec) U64() (uint64, error) {
	b, err := d.Take(8)
	if err != nil {
		return 0, err
	}
	return binary.LittleEndian.Uint64(b), nil
}

func (d *Dec) Byte() (byte, error) {
	b, err := d.Take(1)
	if err != nil {
		return 0, err
	}
	return b[0], nil
}

func (d *Dec) Str() ([]byte, error) {
	n, err := d.UVarint()
	if err != nil {
		return nil, err
	}
	if n > uint64(d.Left()) {
		return nil, ErrShort
	}
	b, _ := d.Take(int(n))
	return bytes.Clone(b), nil
}

func DecodeState(d *Dec, t *Type) error {
	switch t.K {
	case KString:
		if t.JSON {
			v, err := d.U64()
			if err != nil {
				return err
			}
			if v != 1 {
				return fmt.Errorf("ref: JSON serialization version %d", v)
			}
		}
	case KLowCard:
		v, err := d.U64()
		if err != nil {
			return err
		}
		if v != 1 {
			return fmt.Errorf("ref: low cardinality serialization version %d", v)
		}
		return DecodeState(d, t.Elem[0])
	case KArray, KNullable, KMap, KTuple:
		for _, el := range t.Elem {
			if err := DecodeState(d, el); err != nil {
				return err
			}
		}
	}
	return nil
}

const maxRefRows = 1 << 27

func DecodeColumn(d *Dec, t *Type, rows int) ([]Val, error) {
	if rows < 0 || rows > maxRefRows {
		return nil, fmt.Errorf("ref: bad row count %d", rows)
	}
	out := make([]Val, 0, min(rows, 1<<16))
	switch t.K {
	case KFixed:
		if d.Left() < rows*t.Width {
			return nil, ErrShort
		}
		for i := 0; i < rows; i++ {
			b, _ := d.Take(t.Width)
			out = append(out, bytes.Clone(b))
		}
	case KString:
		for i := 0; i < rows; i++ {
			s, err := d.Str()
			if err != nil {
				return nil, err
			}
			out = append(out, s)
		}
	case KArray:
		offs := make([]uint64, rows)
		var prev uint64
		for i := range offs {
			o, err := d.U64()
			if err != nil {
				return nil, err
			}
			if o < prev {
				return nil, fmt.Errorf("ref: array offsets decrease (%d after %d)", o, prev)
			}
			offs[i], prev = o, o
		}
		if prev > maxRefRows {
			return nil, fmt.Errorf("ref: array size %d", prev)
		}
		flat, err := DecodeColumn(d, t.Elem[0], int(prev))
		if err != nil {
			return nil, err
		}
		var s uint64
		for _, o := range offs {
			row := make([]Val, 0, o-s)
			row = append(row, flat[s:o]...)
			out = append(out, row)
			s = o
		}
	case KNullable:
		mask, err := d.Take(rows)
		if err != nil {
			return nil, err
		}
		mask = bytes.Clone(mask)
		vals, err := DecodeColumn(d, t.Elem[0], rows)
		if err != nil {
			return nil, err
		}
		for i, m := range mask {
			if m > 1 {
				return nil, fmt.Errorf("ref: null mask byte %d", m)
			}
			out = append(out, Null{IsNull: m == 1, V: vals[i]})
		}
	case KLowCard:
		if rows == 0 {
			return out, nil
		}
		meta, err := d.U64()
		if err != nil {
			return nil, err
		}
		kw := meta & 0xff
		if kw > 3 {
			return nil, fmt.Errorf("ref: key width code %d", kw)
		}
		if meta&(1<<8) != 0 {
			return nil, fmt.Errorf("ref: global dictionary flag set")
		}
		if meta&(1<<9) == 0 {
			return nil, fmt.Errorf("ref: additional keys flag missing")
		}
		if meta>>11 != 0 {
			return nil, fmt.Errorf("ref: unknown meta bits %x", meta)
		}
		n, err := d.U64()
		if err != nil {
			return nil, err
		}
		if n > maxRefRows {
			return nil, fmt.Errorf("ref: dictionary size %d", n)
		}
		dict, err := DecodeColumn(d, t.Elem[0], int(n))
		if err != nil {
			return nil, err
		}
		kc, err := d.U64()
		if err != nil {
			return nil, err
		}
		if kc != uint64(rows) {
			return nil, fmt.Errorf("ref: key count %d != rows %d", kc, rows)
		}
		w := 1 << kw
		kb, err := d.Take(rows * w)
		if err != nil {
			return nil, err
		}
		for i := 0; i < rows; i++ {
			var k uint64
			switch w {
			case 1:
				k = uint64(kb[i])
			case 2:
				k = uint64(binary.LittleEndian.Uint16(kb[2*i:]))
			case 4:
				k = uint64(binary.LittleEndian.Uint32(kb[4*i:]))
			case 8:
				k = binary.LittleEndian.Uint64(kb[8*i:])
			}
			if k >= n {
				return nil, fmt.Errorf("ref: key %d out of dictionary of %d", k, n)
			}
			out = append(out, dict[k])
		}
	case KMap:
		if rows == 0 {
			return out, nil
		}
		offs := make([]uint64, rows)
		var prev uint64
		for i := range offs {
			o, err := d.U64()
			if err != nil {
				return nil, err
			}
			if o < prev {
				return nil, fmt.Errorf("ref: map offsets decrease")
			}
			offs[i], prev = o, o
		}
		if prev > maxRefRows {
			return nil, fmt.Errorf("ref: map size %d", prev)
		}
		ks, err := DecodeColumn(d, t.Elem[0], int(prev))
		if err != nil {
			return nil, err
		}
		vs, err := DecodeColumn(d, t.Elem[1], int(prev))
		if err != nil {
			return nil, err
		}
		var s uint64
		for _, o := range offs {
			row := make([]KV, 0, o-s)
			for j := s; j < o; j++ {
				row = append(row, KV{ks[j], vs[j]})
			}
			out = append(out, row)
			s = o
		}
	case KTuple:
		cols := make([][]Val, len(t.Elem))
		for i, el := range t.Elem {
			c, err := DecodeColumn(d, el, rows)
			if err != nil {
				return nil, err
			}
			cols[i] = c
		}
		for j := 0; j < rows; j++ {
			row := make([]Val, len(t.Elem))
			for i := range t.Elem {
				row[i] = cols[i][j]
			}
			out = append(out, row)
		}
	}
	return out, nil
}

// Equal compares two values of type t. Map rows are compared in order.
func Equal(t *Type, a, b Val) bool {
	switch t.K {
	case KFixed, KString:
		x, ok1 := a.([]byte)
		y, ok2 := b.([]byte)
		return ok1 && ok2 && bytes.Equal(x, y)
	case KArray:
		x, ok1 := a.([]Val)
		y, ok2 := b.([]Val)
		if !ok1 || !ok2 || len(x) != len(y) {
			return false
		}
		for i := range x {
			if !Equal(t.Elem[0], x[i], y[i]) {
				return false
			}
		}
		return true
	case KNullable:
		x, ok1 := a.(Null)
		y, ok2 := b.(Null)
		return ok1 && ok2 && x.IsNull == y.IsNull && Equal(t.Elem[0], x.V, y.V)
	case KLowCard:
		return Equal(t.Elem[0], a, b)
	case KMap:
		x, ok1 := a.([]KV)
		y, ok2 := b.([]KV)
		if !ok1 || !ok2 || len(x) != len(y) {
			return false
		}
		for i := range x {
			if !Equal(t.Elem[0], x[i].K, y[i].K) || !Equal(t.Elem[1], x[i].V, y[i].V) {
				return false
			}
		}
		return true
	case KTuple:
		x, ok1 := a.([]Val)
		y, ok2 := b.([]Val)
		if !ok1 || !ok2 || len(x) != len(t.Elem) || len(y) != len(t.Elem) {
			return false
		}
		for i := range x {
			if !Equal(t.Elem[i], x[i], y[i]) {
				return false
			}
		}
		return true
	}
	return false
}

func EqualRows(t *Type, a, b []Val) (int, bool) {
	if len(a) != len(b) {
		return -1, false
	}
	for i := range a {
		if !Equal(t, a[i], b[i]) {
			return i, false
		}
	}
	return 0, true
}

// Show renders a value compactly for messages and evidence samples.
func Show(t *Type, v Val) string {
	switch t.K {
	case KFixed, KString:
		b, _ := v.([]byte)
		if len(b) > 24 {
			return fmt.Sprintf("%x…(%d bytes)", b[:24], len(b))
		}
		return fmt.Sprintf("%x", b)
	case KArray:
		s := "["
		for i, e := range v.([]Val) {
			if i > 0 {
				s += ","
			}
			if i >= 6 {
				s += "…"
				break
			}
			s += Show(t.Elem[0], e)
		}
		return s + "]"
	case KNullable:
		n := v.(Null)
		if n.IsNull {
			return "NULL(" + Show(t.Elem[0], n.V) + ")"
		}
		return Show(t.Elem[0], n.V)
	case KLowCard:
		return Show(t.Elem[0], v)
	case KMap:
		s := "{"
		for i, kv := range v.([]KV) {
			if i > 0 {
				s += ","
			}
			if i >= 6 {
				s += "…"
				break
			}
			s += Show(t.Elem[0], kv.K) + ":" + Show(t.Elem[1], kv.V)
		}
		return s + "}"
	case KTuple:
		s := "("
		for i, e := range v.([]Val) {
			if i > 0 {
				s += ","
			}
			s += Show(t.Elem[i], e)
		}
		return s + ")"
	}
	return "?"
}

func ShowRows(t *Type, rows []Val) string {
	s := ""
	for i, r := range rows {
		if i > 0 {
			s += " "
		}
		if i >= 8 {
			s += fmt.Sprintf("…(%d rows)", len(rows))
			break
		}
		s += Show(t, r)
	}
	return s
}
