package ref

import (
	"fmt"
)

// Revision thresholds (src/Core/ProtocolDefines.h), the harness's own table.
const (
	RevTempTables            = 50264
	RevBlockInfo             = 51903
	RevTimezone              = 54058
	RevQuotaKeyInClientInfo  = 54060
	RevDisplayName           = 54372
	RevVersionPatch          = 54401
	RevServerLogs            = 54406
	RevClientWriteInfo       = 54420
	RevSettingsAsStrings     = 54429
	RevInterServerSecret     = 54441
	RevOpenTelemetry         = 54442
	RevDistributedDepth      = 54448
	RevQueryStartTime        = 54449
	RevProfileEvents         = 54451
	RevParallelReplicas      = 54453
	RevCustomSerialization   = 54454
	RevQuotaKey              = 54458
	RevAddendum              = 54458
	RevParameters            = 54459
	RevServerQueryTimeInProg = 54460
)

type BlockInfo struct {
	Overflows bool
	BucketNum int32
}

type Column struct {
	Name string
	T    *Type
	Rows []Val
}

type Block struct {
	Info    BlockInfo
	Columns []Column
	NumRows int // used when there are no columns
}

func (b *Block) Rows() int {
	if len(b.Columns) == 0 {
		return b.NumRows
	}
	return len(b.Columns[0].Rows)
}

func EncodeBlockInfo(e *Enc, i BlockInfo) {
	e.UVarint(1, RInfo)
	if i.Overflows {
		e.Byte(1, RInfo)
	} else {
		e.Byte(0, RInfo)
	}
	e.UVarint(2, RInfo)
	v := uint32(i.BucketNum)
	e.Raw([]byte{byte(v), byte(v >> 8), byte(v >> 16), byte(v >> 24)}, RInfo)
	e.UVarint(0, RInfo)
}

// EncodeBlock writes a Native block as it appears inside a Data packet
// (after the table name), at protocol revision rev.
func EncodeBlock(e *Enc, rev int, b *Block) {
	if rev >= RevBlockInfo {
		EncodeBlockInfo(e, b.Info)
	}
	EncodeRawBlock(e, rev, b)
}

func EncodeRawBlock(e *Enc, rev int, b *Block) {
	rows := b.Rows()
	e.UVarint(uint64(len(b.Columns)), RCount)
	e.UVarint(uint64(rows), RCount)
	for _, c := range b.Columns {
		if len(c.Rows) != rows {
			panic("ref: ragged block")
		}
		e.Str([]byte(c.Name), RName)
		e.Str([]byte(c.T.Name), RName)
		if rev >= RevCustomSerialization {
			e.Byte(0, RFlag)
		}
		if rows == 0 {
			continue
		}
		EncodeState(e, c.T)
		EncodeColumn(e, c.T, c.Rows)
	}
}

func DecodeBlockInfo(d *Dec) (BlockInfo, error) {
	var bi BlockInfo
	for {
		f, err := d.UVarint()
		if err != nil {
			return bi, err
		}
		switch f {
		case 0:
			return bi, nil
		case 1:
			v, err := d.Byte()
			if err != nil {
				return bi, err
			}
			if v > 1 {
				return bi, fmt.Errorf("ref: overflows byte %d", v)
			}
			bi.Overflows = v == 1
		case 2:
			b, err := d.Take(4)
			if err != nil {
				return bi, err
			}
			bi.BucketNum = int32(uint32(b[0]) | uint32(b[1])<<8 | uint32(b[2])<<16 | uint32(b[3])<<24)
		default:
			return bi, fmt.Errorf("ref: unknown block info field %d", f)
		}
	}
}

// DecodeBlock parses a Native block, deriving each column's layout from its
// type string with ParseType.
func DecodeBlock(d *Dec, rev int) (*Block, error) {
	b := &Block{}
	if rev >= RevBlockInfo {
		bi, err := DecodeBlockInfo(d)
		if err != nil {
			return nil, fmt.Errorf("block info: %w", err)
		}
		b.Info = bi
	}
	if err := DecodeRawBlock(d, rev, b); err != nil {
		return nil, err
	}
	return b, nil
}

func DecodeRawBlock(d *Dec, rev int, b *Block) error {
	nc, err := d.UVarint()
	if err != nil {
		return fmt.Errorf("columns: %w", err)
	}
	nr, err := d.UVarint()
	if err != nil {
		return fmt.Errorf("rows: %w", err)
	}
	if nc > 1_000_000 || nr > maxRefRows {
		return fmt.Errorf("ref: block of %d columns x %d rows", nc, nr)
	}
	b.NumRows = int(nr)
	for i := 0; i < int(nc); i++ {
		name, err := d.Str()
		if err != nil {
			return fmt.Errorf("column %d name: %w", i, err)
		}
		ts, err := d.Str()
		if err != nil {
			return fmt.Errorf("column %d type: %w", i, err)
		}
		if rev >= RevCustomSerialization {
			f, err := d.Byte()
			if err != nil {
				return fmt.Errorf("column %d flag: %w", i, err)
			}
			if f != 0 {
				return fmt.Errorf("ref: column %d custom serialization flag %d", i, f)
			}
		}
		t, err := ParseType(string(ts))
		if err != nil {
			return fmt.Errorf("column %d: %w", i, err)
		}
		col := Column{Name: string(name), T: t}
		if nr > 0 {
			if err := DecodeState(d, t); err != nil {
				return fmt.Errorf("column %d state: %w", i, err)
			}
			rows, err := DecodeColumn(d, t, int(nr))
			if err != nil {
				return fmt.Errorf("column %d (%s): %w", i, ts, err)
			}
			col.Rows = rows
		}
		b.Columns = append(b.Columns, col)
	}
	return nil
}

// BlockEqual compares blocks (names, type strings, rows, values).
func BlockEqual(a, b *Block) error {
	if len(a.Columns) != len(b.Columns) {
		return fmt.Errorf("column count %d vs %d", len(a.Columns), len(b.Columns))
	}
	if a.Rows() != b.Rows() {
		return fmt.Errorf("row count %d vs %d", a.Rows(), b.Rows())
	}
	for i := range a.Columns {
		x, y := a.Columns[i], b.Columns[i]
		if x.Name != y.Name {
			return fmt.Errorf("column %d name %q vs %q", i, x.Name, y.Name)
		}
		if x.T.Name != y.T.Name {
			return fmt.Errorf("column %d type %q vs %q", i, x.T.Name, y.T.Name)
		}
		if j, ok := EqualRows(x.T, x.Rows, y.Rows); !ok {
			if j < 0 {
				return fmt.Errorf("column %d (%s) rows %d vs %d", i, x.T.Name, len(x.Rows), len(y.Rows))
			}
			return fmt.Errorf("column %d (%s) row %d: %s vs %s", i, x.T.Name, j, Show(x.T, x.Rows[j]), Show(y.T, y.Rows[j]))
		}
	}
	return nil
}
