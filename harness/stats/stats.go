// Package stats collects, per test process, what a check actually explored:
// number of generated cases, distinct non-trivial cases (by hash), class
// histograms, sample cases, tolerated known findings and violations.
// The driver (/verif/check) merges the files of all processes of a run into
// /verif/evidence/<ID>.json.
package stats

import (
	"encoding/binary"
	"encoding/json"
	"fmt"
	"hash/fnv"
	"os"
	"path/filepath"
	"runtime"
	"sort"
	"strconv"
	"strings"
	"sync"
	"sync/atomic"
	"testing"
	"time"
)

// beat counts collector calls: the real-time watchdog's sign of life.
var beat atomic.Int64

type Violation struct {
	Key    string `json:"key"`
	Msg    string `json:"msg"`
	Replay string `json:"replay,omitempty"`
}

type Collector struct {
	mu         sync.Mutex
	Name       string
	evals      int64
	nontrivial map[uint64]struct{}
	labels     map[string]int64
	samples    []any
	ntSamples  []any
	known      map[string]int64
	knownMsg   map[string]string
	viol       []Violation
	exhaustive map[string]bool
	maxHashes  int
	kinds      map[string]int
	byConstr   int64 // non-trivial cases that are distinct by construction (enumerations)
}

var (
	global    = New("global")
	knownSet  map[string]map[string]bool // property -> key -> true
	knownOnce sync.Once
)

func New(name string) *Collector {
	return &Collector{
		Name:       name,
		nontrivial: map[uint64]struct{}{},
		labels:     map[string]int64{},
		known:      map[string]int64{},
		knownMsg:   map[string]string{},
		exhaustive: map[string]bool{},
		maxHashes:  4_000_000,
	}
}

// G is the process-wide collector.
func G() *Collector { return global }

func Hash(parts ...any) uint64 {
	h := fnv.New64a()
	for _, p := range parts {
		switch v := p.(type) {
		case []byte:
			var l [8]byte
			binary.LittleEndian.PutUint64(l[:], uint64(len(v)))
			h.Write(l[:])
			h.Write(v)
		case string:
			var l [8]byte
			binary.LittleEndian.PutUint64(l[:], uint64(len(v)))
			h.Write(l[:])
			h.Write([]byte(v))
		default:
			fmt.Fprintf(h, "|%v", v)
		}
	}
	return h.Sum64()
}

// Case records one evaluated case. hash identifies the case (distinctness),
// nontrivial says whether the stated rule classifies it as non-trivial,
// sample (may be nil) renders the case for the evidence file; it is only
// invoked for the few cases that are kept.
func (c *Collector) Case(hash uint64, nontrivial bool, sample func() any) {
	beat.Add(1)
	c.mu.Lock()
	defer c.mu.Unlock()
	c.evals++
	fresh := false
	if nontrivial {
		if _, ok := c.nontrivial[hash]; !ok && len(c.nontrivial) < c.maxHashes {
			c.nontrivial[hash] = struct{}{}
			fresh = true
		}
	}
	if sample == nil {
		return
	}
	// Keep a few samples, spread over time (evals 1,2,4,8,...) and kinds.
	if !(c.evals&(c.evals-1) == 0 || (nontrivial && fresh && c.evals%1009 == 0)) {
		return
	}
	if len(c.ntSamples)+len(c.samples) >= 24 {
		return
	}
	v := sample()
	kind := "?"
	if m, ok := v.(map[string]any); ok {
		if k, ok := m["kind"].(string); ok {
			kind = k
		}
	}
	if c.kinds == nil {
		c.kinds = map[string]int{}
	}
	if c.kinds[kind] >= 3 {
		return
	}
	c.kinds[kind]++
	if nontrivial {
		c.ntSamples = append(c.ntSamples, v)
	} else {
		c.samples = append(c.samples, v)
	}
}

// Evals adds n evaluations that are not individually hashed (inner
// exhaustive loops: cuts, alterations, revisions).
func (c *Collector) Evals(n int64) {
	beat.Add(1)
	c.mu.Lock()
	c.evals += n
	c.mu.Unlock()
}

// Enumerated records n evaluations of an enumeration whose cases are
// pairwise distinct by construction, nt of which are non-trivial.
func (c *Collector) Enumerated(n, nt int64) {
	beat.Add(1)
	c.mu.Lock()
	c.evals += n
	c.byConstr += nt
	c.mu.Unlock()
}

// Sample adds a sample case unconditionally (bounded).
func (c *Collector) Sample(v any) {
	c.mu.Lock()
	if len(c.ntSamples) < 12 {
		c.ntSamples = append(c.ntSamples, v)
	}
	c.mu.Unlock()
}

func (c *Collector) Label(l string) { c.LabelN(l, 1) }

func (c *Collector) LabelN(l string, n int64) {
	beat.Add(1)
	c.mu.Lock()
	c.labels[l] += n
	c.mu.Unlock()
}

func (c *Collector) Exhaustive(what string) {
	c.mu.Lock()
	c.exhaustive[what] = true
	c.mu.Unlock()
}

// Known records that a failure with signature key was observed and is listed
// as a known finding (so it is tolerated and the search goes on).
func (c *Collector) Known(key, msg string) {
	c.mu.Lock()
	c.known[key]++
	if _, ok := c.knownMsg[key]; !ok {
		c.knownMsg[key] = msg
	}
	c.mu.Unlock()
}

// Violate records a violation found outside rapid (exhaustive loops, fuzz
// targets, replays). replay is the content of a replay file, written under
// $VERIF_FAILDIR.
func (c *Collector) Violate(key, msg string, replay []byte) string {
	c.mu.Lock()
	defer c.mu.Unlock()
	path := ""
	if dir := os.Getenv("VERIF_FAILDIR"); dir != "" && replay != nil {
		_ = os.MkdirAll(dir, 0o755)
		path = filepath.Join(dir, fmt.Sprintf("%s-%016x.replay", sanitize(key), Hash(replay)))
		_ = os.WriteFile(path, replay, 0o644)
	}
	if len(c.viol) < 50 {
		c.viol = append(c.viol, Violation{Key: key, Msg: msg, Replay: path})
	}
	return path
}

func sanitize(s string) string {
	b := []byte(s)
	for i, ch := range b {
		ok := ch >= 'a' && ch <= 'z' || ch >= 'A' && ch <= 'Z' || ch >= '0' && ch <= '9' || ch == '-' || ch == '_'
		if !ok {
			b[i] = '_'
		}
	}
	if len(b) > 60 {
		b = b[:60]
	}
	return string(b)
}

type fileFormat struct {
	Name        string            `json:"name"`
	Evaluations int64             `json:"evaluations"`
	Nontrivial  int               `json:"nontrivial"`
	Labels      map[string]int64  `json:"labels"`
	Samples     []any             `json:"samples"`
	Known       map[string]int64  `json:"known"`
	KnownMsg    map[string]string `json:"known_msg"`
	Violations  []Violation       `json:"violations"`
	Exhaustive  []string          `json:"exhaustive"`
	HashFile    string            `json:"hash_file"`
	ByConstr    int64             `json:"distinct_by_construction"`
}

// Flush writes the collector to $VERIF_STATS (JSON) and the non-trivial
// hashes to $VERIF_STATS.hashes (8 bytes LE each).
func (c *Collector) Flush() {
	path := os.Getenv("VERIF_STATS")
	if path == "" {
		return
	}
	c.mu.Lock()
	defer c.mu.Unlock()
	ff := fileFormat{
		Name: c.Name, Evaluations: c.evals, Nontrivial: len(c.nontrivial),
		Labels: c.labels, Known: c.known, KnownMsg: c.knownMsg, Violations: c.viol,
		HashFile: path + ".hashes", ByConstr: c.byConstr,
	}
	ff.Samples = append(ff.Samples, c.ntSamples...)
	ff.Samples = append(ff.Samples, c.samples...)
	for k := range c.exhaustive {
		ff.Exhaustive = append(ff.Exhaustive, k)
	}
	sort.Strings(ff.Exhaustive)
	hb := make([]byte, 0, 8*len(c.nontrivial))
	for h := range c.nontrivial {
		hb = binary.LittleEndian.AppendUint64(hb, h)
	}
	_ = os.WriteFile(path+".hashes", hb, 0o644)
	data, err := json.MarshalIndent(ff, "", " ")
	if err != nil {
		data, _ = json.Marshal(map[string]any{"name": c.Name, "evaluations": c.evals, "marshal_error": err.Error()})
	}
	_ = os.WriteFile(path, data, 0o644)
}

// Main is used as TestMain body: runs tests, flushes stats.
func Main(m *testing.M) {
	startWatchdog()
	code := m.Run()
	global.Flush()
	os.Exit(code)
}

// startWatchdog guards against hangs that the virtual clock of a synctest bubble cannot see: a
// goroutine blocked on a sync.Mutex is not "durably blocked", so virtual time stops and no
// bound expressed in it ever fires (e.g. a cancellation path waiting for a lock held by a
// blocked writer). If the collectors see no call for VERIF_WATCHDOG_S seconds (default 600) of
// real time, the stacks are recorded as a violation and the process ends. Cases take
// milliseconds to seconds; native fuzz workers (no collector calls) are exempt.
func startWatchdog() {
	for _, a := range os.Args {
		if strings.HasPrefix(a, "-test.fuzz") {
			return
		}
	}
	limit := 600
	if v, err := strconv.Atoi(os.Getenv("VERIF_WATCHDOG_S")); err == nil && v > 0 {
		limit = v
	}
	go func() {
		last, since := beat.Load(), time.Now()
		for {
			time.Sleep(5 * time.Second)
			if b := beat.Load(); b != last {
				last, since = b, time.Now()
				continue
			}
			if time.Since(since) < time.Duration(limit)*time.Second {
				continue
			}
			buf := make([]byte, 1<<20)
			buf = buf[:runtime.Stack(buf, true)]
			var lib []string
			for _, g := range strings.Split(string(buf), "\n\n") {
				if strings.Contains(g, "github.com/ClickHouse/ch-go") {
					lib = append(lib, g)
				}
			}
			msg := fmt.Sprintf("no case finished for %d s of real time: the code under test hangs where the virtual clock cannot advance (goroutines blocked on a lock). Library goroutines:\n%s", limit, strings.Join(lib, "\n\n"))
			if len(msg) > 6000 {
				msg = msg[:6000] + "…"
			}
			global.Violate("hang-in-real-time", msg, buf)
			global.Flush()
			fmt.Fprintln(os.Stderr, "verif watchdog: "+msg)
			os.Exit(1)
		}
	}()
}

type knownEntry struct {
	Property string `json:"property"`
	Key      string `json:"key"`
	Status   string `json:"status"`
}

func loadKnown() {
	knownSet = map[string]map[string]bool{}
	path := os.Getenv("VERIF_KNOWN")
	if path == "" {
		path = "/verif/known_findings.json"
	}
	data, err := os.ReadFile(path)
	if err != nil {
		return
	}
	var f struct {
		Findings []knownEntry `json:"findings"`
	}
	if json.Unmarshal(data, &f) != nil {
		return
	}
	for _, e := range f.Findings {
		if e.Status != "known" {
			continue
		}
		if knownSet[e.Property] == nil {
			knownSet[e.Property] = map[string]bool{}
		}
		knownSet[e.Property][e.Key] = true
	}
}

// IsKnown reports whether (property, key) is listed with status "known" in
// the committed known-findings file. Entries with status "fixed" suppress
// nothing.
func IsKnown(property, key string) bool {
	knownOnce.Do(loadKnown)
	return knownSet[property][key]
}

// Tier returns "quick" or "thorough" (VERIF_TIER).
func Tier() string {
	if os.Getenv("VERIF_TIER") == "thorough" {
		return "thorough"
	}
	return "quick"
}

func Thorough() bool { return Tier() == "thorough" }

// EnvInt reads an integer knob set by the driver.
func EnvInt(name string, def int) int {
	v := os.Getenv(name)
	if v == "" {
		return def
	}
	n := 0
	for _, ch := range v {
		if ch < '0' || ch > '9' {
			return def
		}
		n = n*10 + int(ch-'0')
	}
	return n
}
