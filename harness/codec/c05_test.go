package codec

// C05 — compressed frames round-trip; any altered frame is rejected; the
// reader never hands out a byte that is not part of a verified frame.

import (
	"bytes"
	"encoding/binary"
	"errors"
	"fmt"
	"io"
	"runtime"
	"testing"

	"github.com/ClickHouse/ch-go/compress"
	"github.com/ClickHouse/ch-go/proto"
	"github.com/go-faster/city"
	"pgregory.net/rapid"

	"verif/harness/gen"
	"verif/harness/ref"
	"verif/harness/stats"
)

type c05method struct {
	name  string
	m     compress.Method
	level compress.Level
	wire  byte
}

func c05methods() []c05method {
	ms := []c05method{
		{"None", compress.None, 0, ref.MethodNone},
		{"LZ4", compress.LZ4, 0, ref.MethodLZ4},
		{"ZSTD", compress.ZSTD, 0, ref.MethodZSTD},
	}
	for _, l := range []compress.Level{0, 1, 2, 3, 4, 5, 6, 7, 8, 9, 10, 11, 12, 99} {
		ms = append(ms, c05method{fmt.Sprintf("LZ4HC(%d)", l), compress.LZ4HC, l, ref.MethodLZ4})
	}
	return ms
}

func payloadOf(kind int, seed uint64, n int) []byte {
	switch kind % 4 {
	case 0:
		return gen.Expand(seed, n)
	case 1:
		p := make([]byte, n)
		pat := gen.Expand(seed, 7)
		for i := range p {
			p[i] = pat[i%len(pat)]
		}
		return p
	case 2:
		return make([]byte, n)
	default:
		p := make([]byte, 0, n)
		words := []string{"SELECT ", "number ", "FROM ", "system.numbers ", "LIMIT ", "10\n"}
		for i := 0; len(p) < n; i++ {
			p = append(p, words[(uint64(i)+seed)%uint64(len(words))]...)
		}
		return p[:n]
	}
}

var payloadKinds = []string{"random", "repetitive", "zero", "text"}

func libCompress(m c05method, payload []byte) ([]byte, error) {
	w := compress.NewWriter(m.level, m.m)
	var out []byte
	err := safely(func() error {
		if err := w.Compress(payload); err != nil {
			return err
		}
		out = append([]byte(nil), w.Data...)
		return nil
	})
	return out, err
}

// readSizes drives a reader with the given read sizes (cycled) until error;
// returns the bytes handed out and the error.
func readWith(r io.Reader, sizes []int, limit int) ([]byte, error) {
	var out []byte
	for i := 0; ; i++ {
		n := sizes[i%len(sizes)]
		buf := make([]byte, n)
		k, err := r.Read(buf)
		out = append(out, buf[:k]...)
		if err != nil {
			return out, err
		}
		if len(out) > limit {
			return out, fmt.Errorf("harness: reader produced more than %d bytes", limit)
		}
		if i > limit+1000 {
			return out, fmt.Errorf("harness: reader made no progress")
		}
	}
}

func checkFrameRoundTrip(m c05method, payload []byte) error {
	frame, err := libCompress(m, payload)
	if err != nil {
		return fmt.Errorf("Compress: %v", err)
	}
	if frame[16] != m.wire {
		return fmt.Errorf("method byte %#x want %#x", frame[16], m.wire)
	}
	f, err := ref.ParseFrame(frame)
	if err != nil {
		return fmt.Errorf("reference parser rejects library frame: %v", err)
	}
	if f.Consumed != len(frame) {
		return fmt.Errorf("frame has %d trailing bytes", len(frame)-f.Consumed)
	}
	if !bytes.Equal(f.Payload, payload) {
		return fmt.Errorf("reference decompression differs from payload")
	}
	// Library reads its own frame and the reference-built one.
	rf, err := ref.BuildFrame(m.wire, payload)
	if err != nil {
		return fmt.Errorf("harness: %v", err)
	}
	for i, fr := range [][]byte{frame, rf} {
		r := compress.NewReader(bytes.NewReader(fr))
		var got []byte
		err := safely(func() error {
			var e error
			got, e = readWith(r, []int{len(payload) + 1}, len(payload)+10)
			return e
		})
		if isPanic(err) {
			return fmt.Errorf("Reader.Read panicked on %s frame: %v", [2]string{"library", "reference"}[i], err)
		}
		if !bytes.Equal(got, payload) {
			return fmt.Errorf("Reader.Read of %s-built frame returned %d bytes (err %v), want the %d payload bytes",
				[2]string{"library", "reference"}[i], len(got), err, len(payload))
		}
		if err == nil {
			return fmt.Errorf("reader did not report end of stream")
		}
	}
	return nil
}

func TestC05EveryLength(t *testing.T) {
	st := stats.G()
	maxLen := 300
	extra := []int{511, 512, 513, 1023, 1024, 1025, 4095, 4096, 4097, 65535, 65536, 65537}
	if stats.Thorough() {
		maxLen = 4096
		extra = append(extra, 1<<20-1, 1<<20, 1<<20+1, 4<<20)
	}
	shard, shards := stats.EnvInt("VERIF_SHARD", 0), stats.EnvInt("VERIF_SHARDS", 1)
	var lens []int
	for n := 0; n <= maxLen; n++ {
		lens = append(lens, n)
	}
	lens = append(lens, extra...)
	var cnt, nt int64
	for i, n := range lens {
		if i%shards != shard {
			continue
		}
		for _, m := range c05methods() {
			if n > 70000 && m.m == compress.LZ4HC && m.level != 0 && m.level != 12 {
				continue
			}
			for k := range payloadKinds {
				p := payloadOf(k, uint64(n*31+k), n)
				cnt++
				if n > 0 {
					nt++
				}
				if err := checkFrameRoundTrip(m, p); err != nil {
					key := "frame-roundtrip"
					msg := fmt.Sprintf("%s payload=%s len=%d: %v", m.name, payloadKinds[k], n, err)
					path := st.Violate(key, msg, []byte(fmt.Sprintf(`{"method":%q,"level":%d,"kind":%q,"len":%d}`, m.name, m.level, payloadKinds[k], n)))
					t.Fatalf("C05 %s (replay %s)", msg, path)
				}
			}
		}
	}
	st.Enumerated(cnt, nt)
	st.Exhaustive(fmt.Sprintf("every payload length 0..%d x 17 method/level settings x 4 content classes", maxLen))
	st.Sample(map[string]any{"kind": "frame-roundtrip", "lengths": fmt.Sprintf("0..%d + %v", maxLen, extra), "methods": len(c05methods())})
}

type c05stream struct {
	frames   [][]byte // library-built frames
	payloads [][]byte
}

func drawStream(rt *rapid.T, maxFrames, maxLen int) (c05stream, []c05method) {
	ms := c05methods()
	n := rapid.IntRange(1, maxFrames).Draw(rt, "frames")
	var s c05stream
	var used []c05method
	for i := 0; i < n; i++ {
		m := ms[rapid.IntRange(0, len(ms)-1).Draw(rt, "method")]
		ln := rapid.OneOf(rapid.IntRange(1, 40), rapid.IntRange(0, maxLen)).Draw(rt, "len")
		p := payloadOf(rapid.IntRange(0, 3).Draw(rt, "content"), rapid.Uint64().Draw(rt, "pseed"), ln)
		f, err := libCompress(m, p)
		if err != nil {
			rt.Fatalf("Compress(%s, %d bytes): %v", m.name, ln, err)
		}
		s.frames = append(s.frames, f)
		s.payloads = append(s.payloads, p)
		used = append(used, m)
	}
	return s, used
}

func TestC05Streams(t *testing.T) {
	st := stats.G()
	rapid.Check(t, func(rt *rapid.T) {
		maxLen := 3000
		if stats.Thorough() && rapid.IntRange(0, 20).Draw(rt, "huge") == 0 {
			maxLen = 2 << 20
		}
		s, _ := drawStream(rt, 8, maxLen)
		stream := bytes.Join(s.frames, nil)
		want := bytes.Join(s.payloads, nil)
		sizes := rapid.SliceOfN(rapid.OneOf(rapid.IntRange(1, 8), rapid.IntRange(1, 5000)), 1, 6).Draw(rt, "readsizes")
		viaProto := rapid.Bool().Draw(rt, "via-proto-reader")
		// The source may deliver the stream in arbitrary segments (short reads).
		var src io.Reader = bytes.NewReader(stream)
		var srcSegs []int
		if rapid.Bool().Draw(rt, "segmented-source") {
			srcSegs = rapid.SliceOfN(rapid.OneOf(rapid.IntRange(1, 30), rapid.IntRange(1, 2000)), 1, 40).Draw(rt, "source-segments")
			src = &chunkReader{data: stream, segs: append([]int(nil), srcSegs...)}
		}
		var got []byte
		var err error
		perr := safely(func() error {
			if viaProto {
				pr := proto.NewReader(src)
				pr.EnableCompression()
				got, err = readWith(pr, sizes, len(want)+10)
			} else {
				got, err = readWith(compress.NewReader(src), sizes, len(want)+10)
			}
			return nil
		})
		if perr != nil {
			rt.Fatalf("panic while reading %d frames: %v", len(s.frames), perr)
		}
		if !bytes.Equal(got, want) {
			rt.Fatalf("stream of %d frames, read sizes %v, source segments %v: got %d bytes, want %d (first diff at %d), err=%v", len(s.frames), sizes, short(srcSegs), len(got), len(want), firstDiff(got, want), err)
		}
		if err == nil {
			rt.Fatalf("no error at end of stream")
		}
		if p, n, perr := ref.ParseFrames(stream); perr != nil || n != len(s.frames) || !bytes.Equal(p, want) {
			rt.Fatalf("reference parser disagrees on library stream: %v", perr)
		}
		straddle := false
		if len(s.frames) > 1 {
			pos, si := 0, 0
			bounds := map[int]bool{}
			acc := 0
			for _, p := range s.payloads[:len(s.payloads)-1] {
				acc += len(p)
				bounds[acc] = true
			}
			for pos < len(want) {
				n := sizes[si%len(sizes)]
				for b := range bounds {
					if b > pos && b < pos+n {
						straddle = true
					}
				}
				pos += n
				si++
			}
		}
		st.Case(stats.Hash("stream", stream, fmt.Sprint(sizes), viaProto), straddle, func() any {
			var lens []int
			for _, p := range s.payloads {
				lens = append(lens, len(p))
			}
			return map[string]any{"kind": "frame-stream", "payload_lens": lens, "read_sizes": sizes, "via_proto_reader": viaProto}
		})
	})
}

func firstDiff(a, b []byte) int {
	for i := 0; i < len(a) && i < len(b); i++ {
		if a[i] != b[i] {
			return i
		}
	}
	return min(len(a), len(b))
}

// checkAltered reads an altered stream and judges everything handed out.
// alteredFrame is the index of the frame containing the altered byte, off its
// offset inside that frame.
func checkAltered(s c05stream, altered []byte, alteredFrame, off int, sizes []int, viaProto bool) error {
	var rd io.Reader
	if viaProto {
		pr := proto.NewReader(bytes.NewReader(altered))
		pr.EnableCompression()
		rd = pr
	} else {
		rd = compress.NewReader(bytes.NewReader(altered))
	}
	total := 0
	for _, p := range s.payloads {
		total += len(p)
	}
	var got []byte
	var err error
	if perr := safely(func() error { got, err = readWith(rd, sizes, total+1<<16); return nil }); perr != nil {
		return fmt.Errorf("panic: %v", perr)
	}
	before := bytes.Join(s.payloads[:alteredFrame], nil)
	if !bytes.Equal(got, before) {
		return fmt.Errorf("handed out %d bytes before failing, want exactly the %d payload bytes of the %d intact frames before the altered one (first difference at %d): a byte of an unverified frame was delivered",
			len(got), len(before), alteredFrame, firstDiff(got, before))
	}
	if err == nil {
		return fmt.Errorf("altered frame accepted")
	}
	if off < 17 || off > 24 {
		var ce *compress.CorruptedDataErr
		if !errors.As(err, &ce) {
			return fmt.Errorf("alteration at frame offset %d (length fields intact) gives %q, want CorruptedDataErr", off, err)
		}
		start := 0
		for _, f := range s.frames[:alteredFrame] {
			start += len(f)
		}
		fr := altered[start : start+len(s.frames[alteredFrame])]
		stored := city.U128{Low: binary.LittleEndian.Uint64(fr[0:]), High: binary.LittleEndian.Uint64(fr[8:])}
		actual := city.CH128(fr[16:])
		if ce.Reference != stored || ce.Actual != actual {
			return fmt.Errorf("CorruptedDataErr carries reference=%v actual=%v, want %v / %v", ce.Reference, ce.Actual, stored, actual)
		}
	}
	// Continued reads: anything handed out must be payload of intact frames after the altered one,
	// starting at a frame boundary.
	var more []byte
	for i := 0; i < 3; i++ {
		buf := make([]byte, 64)
		var k int
		if perr := safely(func() error { k, _ = rd.Read(buf); return nil }); perr != nil {
			return fmt.Errorf("panic on read after error: %v", perr)
		}
		more = append(more, buf[:k]...)
	}
	if len(more) > 0 {
		ok := false
		for k := alteredFrame + 1; k < len(s.payloads); k++ {
			rest := bytes.Join(s.payloads[k:], nil)
			if len(more) <= len(rest) && bytes.Equal(more, rest[:len(more)]) {
				ok = true
				break
			}
		}
		if !ok {
			return fmt.Errorf("reads after the error returned %d bytes (%x…) that do not belong to any verified frame", len(more), more[:min(len(more), 16)])
		}
	}
	return nil
}

func TestC05Alterations(t *testing.T) {
	st := stats.G()
	rapid.Check(t, func(rt *rapid.T) {
		s, ms := drawStream(rt, 3, 120)
		sizes := rapid.SliceOfN(rapid.IntRange(1, 200), 1, 3).Draw(rt, "readsizes")
		viaProto := rapid.Bool().Draw(rt, "via-proto-reader")
		stream := bytes.Join(s.frames, nil)
		rmask := byte(rapid.IntRange(1, 255).Draw(rt, "mask"))
		var n int64
		start := 0
		for fi, f := range s.frames {
			for off := 0; off < len(f); off++ {
				for _, mask := range []byte{0x01, 0x80, 0xff, rmask} {
					alt := append([]byte(nil), stream...)
					alt[start+off] ^= mask
					n++
					if err := checkAltered(s, alt, fi, off, sizes, viaProto); err != nil {
						rt.Fatalf("stream of %d frames (%s…), frame %d offset %d mask %#x, read sizes %v: %v", len(s.frames), ms[0].name, fi, off, mask, sizes, err)
					}
				}
			}
			start += len(f)
		}
		st.Enumerated(n, n)
		st.Case(stats.Hash("alt", stream), true, func() any {
			var lens []int
			for _, p := range s.payloads {
				lens = append(lens, len(p))
			}
			return map[string]any{"kind": "alterations", "payload_lens": lens, "alterations": n, "every_offset_x_masks": "01,80,ff,random"}
		})
	})
}

func TestC05EndOfStreamAndTruncation(t *testing.T) {
	st := stats.G()
	rapid.Check(t, func(rt *rapid.T) {
		s, _ := drawStream(rt, 3, 200)
		stream := bytes.Join(s.frames, nil)
		want := bytes.Join(s.payloads, nil)
		// Clean stream: after the end, further reads return nothing.
		rd := compress.NewReader(bytes.NewReader(stream))
		got, err := readWith(rd, []int{50}, len(want)+10)
		if !bytes.Equal(got, want) || err == nil {
			rt.Fatalf("clean stream: got %d bytes err %v", len(got), err)
		}
		for i := 0; i < 3; i++ {
			buf := make([]byte, 32)
			k, err := rd.Read(buf)
			if k != 0 || err == nil {
				rt.Fatalf("read #%d after end of stream returned %d bytes (%x), err=%v: bytes of an already delivered frame were handed out again", i+1, k, buf[:k], err)
			}
		}
		// Truncated stream at a random cut: only payloads of complete frames, then error.
		cut := rapid.IntRange(0, len(stream)-1).Draw(rt, "cut")
		complete, acc := 0, 0
		for _, f := range s.frames {
			if acc+len(f) > cut {
				break
			}
			complete++
			acc += len(f)
		}
		rd = compress.NewReader(bytes.NewReader(stream[:cut]))
		got, err = readWith(rd, []int{rapid.IntRange(1, 100).Draw(rt, "rs")}, len(want)+10)
		if w := bytes.Join(s.payloads[:complete], nil); !bytes.Equal(got, w) || err == nil {
			rt.Fatalf("stream cut at %d/%d: got %d bytes want %d, err=%v", cut, len(stream), len(got), len(w), err)
		}
		for i := 0; i < 2; i++ {
			buf := make([]byte, 32)
			if k, _ := rd.Read(buf); k != 0 {
				rt.Fatalf("read after truncation error returned %d bytes", k)
			}
		}
		st.Case(stats.Hash("eos", stream, cut), true, func() any {
			return map[string]any{"kind": "truncated-stream", "frames": len(s.frames), "cut": cut, "of": len(stream)}
		})
	})
}

func TestC05OversizeHeaders(t *testing.T) {
	st := stats.G()
	rapid.Check(t, func(rt *rapid.T) {
		method := rapid.SampledFrom([]byte{ref.MethodNone, ref.MethodLZ4, ref.MethodZSTD}).Draw(rt, "method")
		body := rapid.SliceOfN(rapid.Byte(), 0, 64).Draw(rt, "body")
		frame := ref.SealFrame(method, body, uint32(len(body)))
		which := rapid.IntRange(0, 3).Draw(rt, "field")
		switch which {
		case 3:
			// The third size field of a ZSTD frame: the content size inside the zstd frame header,
			// beyond the limit while both ClickHouse size fields are small and consistent.
			fcs := rapid.SampledFrom([]uint64{128<<20 + 1, 129 << 20, 256 << 20, 1 << 30, 1 << 32, 1 << 40}).Draw(rt, "zstd-content-size")
			z := []byte{0x28, 0xb5, 0x2f, 0xfd, 0xc0, 0x00} // magic, descriptor (8-byte content size, window descriptor follows), 1 KiB window
			z = binary.LittleEndian.AppendUint64(z, fcs)
			z = append(z, 0x01, 0x00, 0x00) // last block, raw, empty
			method = ref.MethodZSTD
			frame = ref.SealFrame(method, z, uint32(rapid.SampledFrom([]int{0, 1, 100, 4096}).Draw(rt, "datasize")))
		case 0: // uncompressed size beyond 128 MiB
			v := rapid.OneOf(rapid.Uint32Range(128<<20+1, 1<<31), rapid.Uint32Range(1<<31, 1<<32-1)).Draw(rt, "datasize")
			binary.LittleEndian.PutUint32(frame[21:], v)
		case 1: // compressed size beyond 128 MiB
			v := rapid.OneOf(rapid.Uint32Range(128<<20+10, 1<<31), rapid.Uint32Range(1<<31, 1<<32-1)).Draw(rt, "rawsize")
			binary.LittleEndian.PutUint32(frame[17:], v)
		case 2: // compressed size below the 9 header bytes
			binary.LittleEndian.PutUint32(frame[17:], uint32(rapid.IntRange(0, 8).Draw(rt, "rawsize")))
		}
		ref.FixChecksum(frame)
		// Pad so that a reader that trusted the header would find bytes to read.
		stream := append(frame, make([]byte, 256)...)
		runtime.GC()
		var m0, m1 runtime.MemStats
		runtime.ReadMemStats(&m0)
		rd := compress.NewReader(bytes.NewReader(stream))
		var k int
		var err error
		perr := safely(func() error { k, err = rd.Read(make([]byte, 16)); return nil })
		runtime.ReadMemStats(&m1)
		if perr != nil {
			rt.Fatalf("panic on oversize header: %v", perr)
		}
		if err == nil || k != 0 {
			rt.Fatalf("header with out-of-limit size field accepted (field %d): n=%d err=%v", which, k, err)
		}
		if grown := m1.TotalAlloc - m0.TotalAlloc; grown > 1<<20 {
			rt.Fatalf("reader allocated %d bytes before rejecting an out-of-limit size field", grown)
		}
		st.Case(stats.Hash("oversize", frame[:ref.FrameHeader]), true, func() any {
			return map[string]any{"kind": "oversize-header", "method": method, "rawsize_field": binary.LittleEndian.Uint32(frame[17:]), "datasize_field": binary.LittleEndian.Uint32(frame[21:])}
		})
	})
}

// A block spread over several frames, decoded through proto.Reader (the way the client reads
// compressed Data packets): whichever typed read - varint, string length, string body,
// fixed-width batch, column data - first touches the altered frame, the decode fails, the
// failure is a CorruptedDataErr with both checksums (length fields intact), and nothing of
// the altered frame or after it reaches a column.
func TestC05BlockOverAlteredFrames(t *testing.T) {
	st := stats.G()
	rapid.Check(t, func(rt *rapid.T) {
		cols, rows := drawBlock(rt, 3)
		rev := rapid.SampledFrom(blockRevs).Draw(rt, "rev")
		e := &ref.Enc{}
		ref.EncodeBlock(e, rev, refBlock(cols, ref.BlockInfo{BucketNum: -1}))
		data, fields := e.B, e.Fields
		if len(data) < 4 {
			return
		}
		// Frame boundaries: steered to land right after a length prefix or inside a field.
		nf := rapid.IntRange(2, 4).Draw(rt, "frames")
		cutSet := map[int]bool{}
		for len(cutSet) < nf-1 {
			var p int
			if len(fields) > 0 && rapid.IntRange(0, 2).Draw(rt, "steer") > 0 {
				f := fields[rapid.IntRange(0, len(fields)-1).Draw(rt, "field")]
				p = f.Off + rapid.SampledFrom([]int{0, 1, f.Len / 2, f.Len - 1, f.Len}).Draw(rt, "in-field")
			} else {
				p = rapid.IntRange(1, len(data)-1).Draw(rt, "cut")
			}
			if p >= 1 && p <= len(data)-1 {
				cutSet[p] = true
			} else if len(data)-1 < nf {
				break
			}
		}
		var cuts []int
		for p := 0; p < len(data); p++ {
			if cutSet[p] {
				cuts = append(cuts, p)
			}
		}
		cuts = append(cuts, len(data))
		ms := c05methods()
		var frames [][]byte
		var starts []int
		prev, total := 0, 0
		for _, c := range cuts {
			m := ms[rapid.IntRange(0, len(ms)-1).Draw(rt, "method")]
			f, err := libCompress(m, data[prev:c])
			if err != nil {
				rt.Fatalf("compress: %v", err)
			}
			starts = append(starts, total)
			frames = append(frames, f)
			total += len(f)
			prev = c
		}
		// Frames with an empty payload are legal anywhere in the sequence: a read that meets one
		// gets zero bytes and no error from the decompressor and has to carry on.
		if ne := rapid.IntRange(0, 2).Draw(rt, "empty-frames"); ne > 0 {
			for i := 0; i < ne; i++ {
				at := rapid.IntRange(0, len(frames)-1).Draw(rt, "empty-frame-at") // never behind the last piece: nothing reads on after the block
				ef, err := libCompress(ms[rapid.IntRange(0, len(ms)-1).Draw(rt, "empty-frame-method")], nil)
				if err != nil {
					rt.Fatalf("compress(empty): %v", err)
				}
				frames = append(frames[:at], append([][]byte{ef}, frames[at:]...)...)
				cuts = append(cuts[:at], append([]int{0}, cuts[at:]...)...)
				if at > 0 {
					cuts[at] = cuts[at-1]
				}
			}
			starts = starts[:0]
			total = 0
			for _, f := range frames {
				starts = append(starts, total)
				total += len(f)
			}
			st.Label("stream-with-empty-frames")
		}
		stream := bytes.Join(frames, nil)
		inferable := true
		for _, c := range cols {
			inferable = inferable && autoInferable(c.Kind.T.Name)
		}
		if err := decodeTypedCompressed(stream, rev, cols, false); err != nil {
			rt.Fatalf("harness: intact stream of %d frames (cuts %v) does not decode: %v", len(frames), cuts, err)
		}
		if inferable {
			if err := decodeTypedCompressed(stream, rev, cols, true); err != nil {
				rt.Fatalf("intact stream of %d frames (cuts %v) does not decode into inferred columns: %v", len(frames), cuts, err)
			}
		}
		// Alter one byte of a frame after the first (the first is covered by TestC05Alterations).
		fi := rapid.IntRange(1, len(frames)-1).Draw(rt, "altered-frame")
		var n int64
		offs := []int{0, 15, 16, 17, 21, 25, len(frames[fi]) - 1}
		for i := 0; i < 6; i++ {
			offs = append(offs, rapid.IntRange(0, len(frames[fi])-1).Draw(rt, "offset"))
		}
		for _, off := range offs {
			if off >= len(frames[fi]) {
				continue
			}
			alt := append([]byte(nil), stream...)
			alt[starts[fi]+off] ^= byte(rapid.IntRange(1, 255).Draw(rt, "mask"))
			for _, auto := range []bool{false, true} {
				if auto && !inferable {
					continue
				}
				n++
				err := decodeTypedCompressed(alt, rev, cols, auto)
				if err == nil || isPanic(err) {
					rt.Fatalf("block %v over %d frames (cuts %v), frame %d altered at offset %d, auto=%v: decode returned %v", typeNames(cols), len(frames), cuts, fi, off, auto, err)
				}
				if off < 17 || off > 24 {
					var ce *compress.CorruptedDataErr
					if !errors.As(err, &ce) {
						rt.Fatalf("block %v over %d frames (cuts %v), frame %d altered at offset %d (length fields intact), auto=%v: error %q is not a CorruptedDataErr", typeNames(cols), len(frames), cuts, fi, off, auto, err)
					}
					fr := alt[starts[fi] : starts[fi]+len(frames[fi])]
					stored := city.U128{Low: binary.LittleEndian.Uint64(fr[0:]), High: binary.LittleEndian.Uint64(fr[8:])}
					if ce.Reference != stored || ce.Actual != city.CH128(fr[16:]) {
						rt.Fatalf("CorruptedDataErr carries reference=%v actual=%v, want %v / %v", ce.Reference, ce.Actual, stored, city.CH128(fr[16:]))
					}
				}
			}
		}
		st.Enumerated(n, n)
		_, inside := insideField(fields, cuts[fi-1])
		if inside {
			st.Label("altered-frame-starts-inside-a-field")
		}
		st.Case(stats.Hash("c05blk", stream, fi, rev), true, func() any {
			return map[string]any{"kind": "block-over-altered-frames", "types": typeNames(cols), "rows": rows, "frames": len(frames), "cuts": cuts, "altered_frame": fi}
		})
	})
}
