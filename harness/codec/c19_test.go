package codec

// C19 — inference is total and sound; type compatibility is reflexive,
// symmetric, honours the documented equivalences and separates base types.

import (
	"runtime/debug"
	"fmt"
	"strings"
	"testing"
	"time"

	"github.com/ClickHouse/ch-go/proto"
	"pgregory.net/rapid"

	"verif/harness/gen"
	"verif/harness/ref"
	"verif/harness/stats"
)

func inferNoPanic(s string) (col *proto.ColAuto, err error) {
	col = new(proto.ColAuto)
	err = safely(func() error { return col.Infer(proto.ColumnType(s)) })
	return col, err
}

func conflictsNoPanic(a, b string) (res bool, err error) {
	err = safely(func() error { res = proto.ColumnType(a).Conflicts(proto.ColumnType(b)); return nil })
	return res, err
}

func anyTypeString(rt *rapid.T) (string, bool) {
	if rapid.Bool().Draw(rt, "well-formed") {
		return gen.WellFormedType(rt, rapid.IntRange(0, 4).Draw(rt, "depth")), true
	}
	return gen.MalformedType(rt), false
}

func TestC19InferTotalAndSound(t *testing.T) {
	st := stats.G()
	rapid.Check(t, func(rt *rapid.T) {
		s, wf := anyTypeString(rt)
		col, err := inferNoPanic(s)
		if isPanic(err) {
			rt.Fatalf("ColAuto.Infer(%q) panicked: %v", s, err)
		}
		nt := !wf || strings.ContainsAny(s, "(")
		st.Case(stats.Hash("infer", s), nt, func() any {
			return map[string]any{"kind": "infer", "type": s, "well_formed": wf, "inferred": err == nil}
		})
		if !wf {
			st.Label("malformed")
			// Also exercise the relation on malformed input.
			if _, perr := conflictsNoPanic(s, s); perr != nil {
				rt.Fatalf("Conflicts(%q, itself) panicked: %v", s, perr)
			}
			return
		}
		if err != nil {
			st.Label("wellformed:not-supported")
			return
		}
		st.Label("wellformed:inferred")
		typ := proto.ColumnType(s)
		if c, perr := conflictsNoPanic(string(col.Type()), s); perr != nil || c {
			rt.Fatalf("Infer(%q): reported type %q conflicts with the requested one (%v)", s, col.Type(), perr)
		}
		if col.Data == nil {
			rt.Fatalf("Infer(%q) succeeded without creating a column", s)
		}
		// The inner column's own Type() is compared only for spellings a server prints:
		// DecimalN(S) is accepted by Infer (the repository's tests promise it) but is never a
		// block's type name (ClickHouse prints Decimal(P, S)), and ColDecimalN reports the bare
		// "DecimalN"; the statement speaks of the reported type of the created (auto) column.
		aliasSpelling := strings.Contains(s, "Decimal32(") || strings.Contains(s, "Decimal64(") || strings.Contains(s, "Decimal128(") || strings.Contains(s, "Decimal256(")
		if aliasSpelling {
			st.Label("excluded:decimalN(S)-inner-type")
		}
		if !aliasSpelling && col.Data.Type().Conflicts(typ) {
			rt.Fatalf("Infer(%q): created column reports %q, which conflicts with the requested type", s, col.Data.Type())
		}
		// Soundness: data of that type, encoded by the reference, decodes correctly through Results.Auto().
		pt, perr := ref.ParseType(s)
		if perr != nil {
			rt.Fatalf("harness: reference parser rejects generated type %q: %v", s, perr)
		}
		rows := gen.RowCount().Draw(rt, "rows")
		vg := gen.ValueFor(pt)
		var vals []ref.Val
		for i := 0; i < rows; i++ {
			vals = append(vals, vg.Draw(rt, "v"))
		}
		rev := rapid.SampledFrom(blockRevs).Draw(rt, "rev")
		e := &ref.Enc{NoMap: true}
		ref.EncodeBlock(e, rev, &ref.Block{Info: ref.BlockInfo{BucketNum: -1}, Columns: []ref.Column{{Name: "c", T: pt, Rows: vals}}})
		var res proto.Results
		var blk proto.Block
		r := readerOf(e.B)
		auto := res.Auto()
		if derr := safely(func() error { return blk.DecodeBlock(r, rev, auto) }); derr != nil {
			rt.Fatalf("type %q infers, but decoding %d rows of it through Results.Auto() fails: %v\nvalues %s", s, rows, derr, ref.ShowRows(pt, vals))
		}
		if !atEOF(r) {
			rt.Fatalf("type %q: Auto decode did not consume the block", s)
		}
		if len(res) != 1 || res[0].Data.Rows() != rows {
			rt.Fatalf("type %q: Auto produced %d columns / %d rows, want 1 / %d", s, len(res), res[0].Data.Rows(), rows)
		}
		got, rerr := gen.ReflectRows(pt, res[0].Data)
		if rerr != nil {
			rt.Fatalf("type %q: reading inferred column %T: %v", s, res[0].Data, rerr)
		}
		if j, ok := ref.EqualRows(pt, got, vals); !ok {
			rt.Fatalf("type %q decoded through inference: row %d = %s want %s", s, j, ref.Show(pt, got[max(j, 0)]), ref.Show(pt, vals[max(j, 0)]))
		}
		// ... and so does the next block of the stream, through the same inferred column. (Not for
		// the DecimalN(S) spellings, for the reason given above: the bound column reports "DecimalN".)
		if aliasSpelling {
			return
		}
		rows2 := gen.RowCount().Draw(rt, "rows-2")
		var vals2 []ref.Val
		for i := 0; i < rows2; i++ {
			vals2 = append(vals2, vg.Draw(rt, "v2"))
		}
		e2 := &ref.Enc{NoMap: true}
		ref.EncodeBlock(e2, rev, &ref.Block{Info: ref.BlockInfo{BucketNum: -1}, Columns: []ref.Column{{Name: "c", T: pt, Rows: vals2}}})
		r2 := readerOf(e2.B)
		var blk2 proto.Block
		if derr := safely(func() error { return blk2.DecodeBlock(r2, rev, auto) }); derr != nil {
			rt.Fatalf("type %q: second block (%d rows after %d) through the inferred column fails: %v", s, rows2, rows, derr)
		}
		if !atEOF(r2) || len(res) != 1 || res[0].Data.Rows() != rows2 {
			rt.Fatalf("type %q: second block of %d rows after %d: %d columns / %d rows, consumed all: %v", s, rows2, rows, len(res), res[0].Data.Rows(), atEOF(r2))
		}
		got2, rerr := gen.ReflectRows(pt, res[0].Data)
		if rerr != nil {
			rt.Fatalf("type %q: reading inferred column %T after the second block: %v", s, res[0].Data, rerr)
		}
		if j, ok := ref.EqualRows(pt, got2, vals2); !ok {
			rt.Fatalf("type %q, second block of %d rows after %d through the same inferred column: row %d = %s want %s", s, rows2, rows, j, ref.Show(pt, got2[max(j, 0)]), ref.Show(pt, vals2[max(j, 0)]))
		}
	})
}

var mustInfer = []string{
	"String", "Array(String)", "Array(LowCardinality(String))", "Date", "Date32", "Int8", "Int16", "Array(Int16)", "Nullable(Int16)",
	"Int32", "Int64", "Int128", "Int256", "UInt8", "UInt16", "UInt32", "UInt64", "UInt128", "UInt256", "Float32", "Float64", "IPv4", "IPv6",
	"LowCardinality(String)", "DateTime(Europe/Berlin)", "DateTime64(9)", "Map(String,String)", "Enum8('hello'=1,'world'=2)",
	"Enum16('hello'=-1,'world'=10)", "IntervalSecond", "IntervalMinute", "IntervalHour", "Nothing", "Nullable(Nothing)", "Array(Nothing)",
	"UUID", "Array(UUID)", "Nullable(UUID)", "Decimal", "Decimal32", "Decimal64", "Decimal128", "Decimal256", "Decimal(2)", "Decimal(20, 2)",
	"Decimal32(1)", "Decimal64(2)", "Decimal128(3)", "Decimal256(4)", "Array(Nullable(Int8))", "Nullable(DateTime64(3))",
}

func TestC19MustInfer(t *testing.T) {
	// The repository's own TestColAuto_Infer promises these.
	for _, s := range mustInfer {
		col, err := inferNoPanic(s)
		if err != nil {
			stats.G().Violate("must-infer", fmt.Sprintf("Infer(%q): %v", s, err), []byte(s))
			t.Errorf("Infer(%q): %v", s, err)
			continue
		}
		if string(col.Type()) != s {
			t.Errorf("Infer(%q).Type() = %q", s, col.Type())
		}
	}
	stats.G().Enumerated(int64(len(mustInfer)), int64(len(mustInfer)))
}

// equivalent pairs: (a, b) documented as compatible.
func drawEquivalentPair(rt *rapid.T) (string, string) {
	var a, b string
	switch rapid.IntRange(0, 5).Draw(rt, "equiv") {
	case 0:
		a, b = "Int8", "Enum8('a' = 1, 'b' = 2)"
		if rapid.Bool().Draw(rt, "e16") {
			a, b = "Int16", "Enum16('a' = 1000)"
		}
	case 1:
		p := rapid.IntRange(1, 76).Draw(rt, "p")
		s := rapid.IntRange(0, p).Draw(rt, "s")
		a = fmt.Sprintf("Decimal(%d, %d)", p, s)
		switch {
		case p <= 9:
			b = "Decimal32"
		case p <= 18:
			b = "Decimal64"
		case p <= 38:
			b = "Decimal128"
		default:
			b = "Decimal256"
		}
		if rapid.Bool().Draw(rt, "tight") {
			a = fmt.Sprintf("Decimal(%d,%d)", p, s)
		}
	case 2:
		// the same type written with different blanks after its commas (none, one, several, a tab)
		parts := rapid.SampledFrom([][]string{{"Map(String", "String)"}, {"DateTime64(3", "'UTC')"}, {"Map(String", "UInt64)"}, {"Tuple(Int8", "String", "Date)"},
			{"Decimal(10", "2)"}, {"Map(String", "Map(String", "Int8))"}, {"Tuple(a Int8", "b Array(String)", "c Map(String", "Date))"}}).Draw(rt, "comma-type")
		sp := func(l string) string {
			return rapid.SampledFrom([]string{"", " ", " ", "  ", "\t", " \t ", "   "}).Draw(rt, l)
		}
		a, b = parts[0], parts[0]
		for _, p := range parts[1:] {
			a += "," + sp("blank-a") + p
			b += "," + sp("blank-b") + p
		}
	case 3:
		a, b = "DateTime", fmt.Sprintf("DateTime('%s')", rapid.SampledFrom([]string{"UTC", "Europe/Berlin"}).Draw(rt, "tz"))
	case 4:
		p := rapid.IntRange(0, 9).Draw(rt, "p")
		a, b = fmt.Sprintf("DateTime64(%d)", p), fmt.Sprintf("DateTime64(%d, 'UTC')", p)
	case 5:
		a, b = "Enum8('a' = 1)", "Enum8('a'=1,'b'=2)"
	}
	for d := rapid.IntRange(0, 3).Draw(rt, "wrap-depth"); d > 0; d-- {
		w := rapid.SampledFrom([]string{"Array", "Nullable", "LowCardinality"}).Draw(rt, "wrapper")
		a, b = w+"("+a+")", w+"("+b+")"
	}
	if rapid.Bool().Draw(rt, "swap") {
		a, b = b, a
	}
	return a, b
}

func refBase(s string) string {
	if i := strings.IndexByte(s, '('); i > 0 {
		return s[:i]
	}
	return s
}

func TestC19Conflicts(t *testing.T) {
	st := stats.G()
	rapid.Check(t, func(rt *rapid.T) {
		a, _ := anyTypeString(rt)
		b, _ := anyTypeString(rt)
		if rapid.IntRange(0, 3).Draw(rt, "related") == 0 && len(a) > 0 {
			// b = single edit of a
			i := rapid.IntRange(0, len(a)-1).Draw(rt, "pos")
			b = a[:i] + string(rapid.SampledFrom([]byte("(),' x0=A")).Draw(rt, "ch")) + a[i+1:]
		}
		ab, e1 := conflictsNoPanic(a, b)
		ba, e2 := conflictsNoPanic(b, a)
		aa, e3 := conflictsNoPanic(a, a)
		if e1 != nil || e2 != nil || e3 != nil {
			rt.Fatalf("Conflicts panicked on (%q, %q): %v %v %v", a, b, e1, e2, e3)
		}
		if aa {
			rt.Fatalf("Conflicts(%q, itself) = true", a)
		}
		if ab != ba {
			rt.Fatalf("Conflicts(%q, %q) = %v but Conflicts(%q, %q) = %v", a, b, ab, b, a, ba)
		}
		st.Case(stats.Hash("pair", a, b), a != b, func() any { return map[string]any{"kind": "conflicts-pair", "a": a, "b": b, "conflicts": ab} })
	})
	rapid.Check(t, func(rt *rapid.T) {
		a, b := drawEquivalentPair(rt)
		c, err := conflictsNoPanic(a, b)
		if err != nil || c {
			rt.Fatalf("documented equivalence reported as conflict: Conflicts(%q, %q) = %v (%v)", a, b, c, err)
		}
		st.Case(stats.Hash("equiv", a, b), true, func() any { return map[string]any{"kind": "equivalent-pair", "a": a, "b": b} })
	})
	rapid.Check(t, func(rt *rapid.T) {
		// Different base types conflict (excluding the Enum/Int and Decimal equivalences).
		a := gen.WellFormedType(rt, rapid.IntRange(0, 2).Draw(rt, "da"))
		b := gen.WellFormedType(rt, rapid.IntRange(0, 2).Draw(rt, "db"))
		ba, bb := refBase(a), refBase(b)
		if ba == bb {
			return
		}
		special := func(x string) bool {
			return strings.HasPrefix(x, "Enum") || strings.HasPrefix(x, "Decimal") || x == "Int8" || x == "Int16"
		}
		if special(ba) && special(bb) {
			return
		}
		c, err := conflictsNoPanic(a, b)
		if err != nil || !c {
			rt.Fatalf("types of different base reported compatible: Conflicts(%q, %q) = %v (%v)", a, b, c, err)
		}
		st.Case(stats.Hash("diffbase", a, b), true, func() any { return map[string]any{"kind": "different-base", "a": a, "b": b} })
	})
}

// Typed inferable columns receive the server's type string too (Results.DecodeResult
// calls Infer before anything else): Infer must be total for them as well.
func TestC19TypedInferTotal(t *testing.T) {
	st := stats.G()
	mk := []func() (string, proto.Inferable){
		func() (string, proto.Inferable) { return "ColEnum", new(proto.ColEnum) },
		func() (string, proto.Inferable) { return "ColDateTime", new(proto.ColDateTime) },
		func() (string, proto.Inferable) { return "ColDateTime64", new(proto.ColDateTime64) },
		func() (string, proto.Inferable) { return "ColInterval", new(proto.ColInterval) },
		func() (string, proto.Inferable) { return "ColArr[ColEnum]", proto.NewArray[string](new(proto.ColEnum)) },
		func() (string, proto.Inferable) {
			return "ColArr[ColArr[ColDateTime64]]", proto.NewArray[[]time.Time](proto.NewArray[time.Time](new(proto.ColDateTime64)))
		},
		func() (string, proto.Inferable) {
			return "ColMap[string,ColEnum]", proto.NewMap[string, string](new(proto.ColStr), new(proto.ColEnum))
		},
		func() (string, proto.Inferable) {
			return "ColMap[ColDateTime,ColMap]", proto.NewMap[time.Time, map[string]string](new(proto.ColDateTime), proto.NewMap[string, string](new(proto.ColStr), new(proto.ColEnum)))
		},
		func() (string, proto.Inferable) {
			return "ColTuple", proto.ColTuple{new(proto.ColEnum), new(proto.ColStr), proto.Named[time.Time](new(proto.ColDateTime64), "ts")}
		},
		func() (string, proto.Inferable) { return "ColAuto", new(proto.ColAuto) },
	}
	rapid.Check(t, func(rt *rapid.T) {
		s, _ := anyTypeString(rt)
		name, col := mk[rapid.IntRange(0, len(mk)-1).Draw(rt, "target")]()
		err := safely(func() error { return col.Infer(proto.ColumnType(s)) })
		if isPanic(err) {
			rt.Fatalf("%s.Infer(%q) panicked: %v", name, s, err)
		}
		st.Case(stats.Hash("tinfer", name, s), true, func() any {
			return map[string]any{"kind": "typed-infer", "target": name, "type": s, "error": fmt.Sprint(err)}
		})
	})
}

// Typed inferable targets, sound side: a target inferred from a well-formed type of its own
// shape - also composites in which more than one component takes parameters - reports a type
// that does not conflict with the requested one (either way round) and that carries every
// requested parameter: enum definitions, precisions and zones of all components.
func TestC19TypedInferSound(t *testing.T) {
	st := stats.G()
	rapid.Check(t, func(rt *rapid.T) {
		enumDef := func(label string) string {
			base := rapid.SampledFrom([]string{"Enum8", "Enum16"}).Draw(rt, label+"-base")
			n := rapid.IntRange(1, 3).Draw(rt, label+"-members")
			names := rapid.Permutation([]string{"a", "b c", "", "x", " y"}).Draw(rt, label+"-names")
			var parts []string
			for i := 0; i < n; i++ {
				parts = append(parts, fmt.Sprintf("'%s' = %d", names[i], (i+1)*rapid.SampledFrom([]int{1, -1, 7}).Draw(rt, label+"-sign")))
			}
			return base + "(" + strings.Join(parts, ", ") + ")"
		}
		dt := func(label string) string {
			return rapid.SampledFrom([]string{"DateTime", "DateTime('UTC')"}).Draw(rt, label)
		}
		dt64 := func(label string) string {
			p := rapid.IntRange(0, 9).Draw(rt, label+"-precision")
			if rapid.Bool().Draw(rt, label+"-zone") {
				return fmt.Sprintf("DateTime64(%d, 'UTC')", p)
			}
			return fmt.Sprintf("DateTime64(%d)", p)
		}
		e1, e2, d, d64 := enumDef("enum"), enumDef("enum2"), dt("datetime"), dt64("datetime64")
		type pair struct {
			name   string
			col    proto.Inferable
			typ    string
			params []string // must all appear in the reported type
		}
		pairs := []pair{
			{"ColEnum", new(proto.ColEnum), e1, []string{e1}},
			{"ColDateTime", new(proto.ColDateTime), d, nil},
			{"ColDateTime64", new(proto.ColDateTime64), d64, []string{d64[:strings.IndexAny(d64, ",)")]}},
			{"Array(Enum)", proto.NewArray[string](new(proto.ColEnum)), "Array(" + e1 + ")", []string{e1}},
			{"Array(Array(DateTime64))", proto.NewArray[[]time.Time](proto.NewArray[time.Time](new(proto.ColDateTime64))), "Array(Array(" + d64 + "))", []string{d64[:strings.IndexAny(d64, ",)")]}},
			{"Map(String, Enum)", proto.NewMap[string, string](new(proto.ColStr), new(proto.ColEnum)), "Map(String, " + e1 + ")", []string{e1}},
			{"Map(Enum, DateTime64)", proto.NewMap[string, time.Time](new(proto.ColEnum), new(proto.ColDateTime64)), "Map(" + e1 + ", " + d64 + ")", []string{e1, d64[:strings.IndexAny(d64, ",)")]}},
			{"Map(DateTime, Enum)", proto.NewMap[time.Time, string](new(proto.ColDateTime), new(proto.ColEnum)), "Map(" + d + ", " + e1 + ")", []string{e1}},
			{"Map(Enum, Enum)", proto.NewMap[string, string](new(proto.ColEnum), new(proto.ColEnum)), "Map(" + e1 + ", " + e2 + ")", []string{e1, e2}},
			{"Map(Enum, Array(DateTime64))", proto.NewMap[string, []time.Time](new(proto.ColEnum), proto.NewArray[time.Time](new(proto.ColDateTime64))), "Map(" + e1 + ", Array(" + d64 + "))", []string{e1, d64[:strings.IndexAny(d64, ",)")]}},
			{"Map(DateTime, Map(String, Enum))", proto.NewMap[time.Time, map[string]string](new(proto.ColDateTime), proto.NewMap[string, string](new(proto.ColStr), new(proto.ColEnum))), "Map(" + d + ", Map(String, " + e2 + "))", []string{e2}},
			{"Tuple(Enum, String, ts DateTime64)", proto.ColTuple{new(proto.ColEnum), new(proto.ColStr), proto.Named[time.Time](new(proto.ColDateTime64), "ts")}, "Tuple(" + e1 + ", String, ts " + d64 + ")", []string{e1, d64[:strings.IndexAny(d64, ",)")]}},
		}
		p := pairs[rapid.IntRange(0, len(pairs)-1).Draw(rt, "target")]
		if rapid.Bool().Draw(rt, "inferred-before") {
			// a target that was inferred from another type of the same shape before
			_ = safely(func() error {
				return p.col.Infer(proto.ColumnType(strings.NewReplacer(e1, "Enum8('old' = 9)", e2, "Enum16('older' = 99)", d64, "DateTime64(1)").Replace(p.typ)))
			})
		}
		if err := safely(func() error { return p.col.Infer(proto.ColumnType(p.typ)) }); err != nil {
			rt.Fatalf("%s.Infer(%q): %v", p.name, p.typ, err)
		}
		got := p.col.(interface{ Type() proto.ColumnType }).Type()
		if got.Conflicts(proto.ColumnType(p.typ)) || proto.ColumnType(p.typ).Conflicts(got) {
			rt.Fatalf("%s inferred from %q reports %q, which conflicts with it", p.name, p.typ, got)
		}
		for _, want := range p.params {
			if !strings.Contains(string(got), want) {
				rt.Fatalf("%s inferred from %q reports %q: the parameter %q was not adopted", p.name, p.typ, got, want)
			}
		}
		st.Case(stats.Hash("tsound", p.name, p.typ), len(p.params) > 0, func() any {
			return map[string]any{"kind": "typed-infer-sound", "target": p.name, "type": p.typ, "reported": string(got)}
		})
		st.Label("typed-target:" + p.name)
	})
}

// TestC19DeepNesting (deterministic): type strings nested a few hundred thousand levels deep - a
// block header may carry a type string of any length up to the reader's string cap. Inference and
// the compatibility relation answer (an error is fine) instead of exhausting the goroutine stack,
// which no recover can catch: the process would die. The stack limit is lowered to 64 MiB for the
// duration so that "exhausting" is cheap to reach; the library is free to refuse such strings.
func TestC19DeepNesting(t *testing.T) {
	st := stats.G()
	old := debug.SetMaxStack(64 << 20)
	defer debug.SetMaxStack(old)
	var n int64
	for _, w := range []string{"Array", "Nullable", "LowCardinality", "Array(Nullable", "Map(String, Array", "Tuple"} {
		for _, depth := range []int{50, 2000, 300_000} {
			open, closeP := w+"(", ")"
			if strings.Contains(w, "(") {
				closeP = "))"
			}
			s := strings.Repeat(open, depth) + "Int8" + strings.Repeat(closeP, depth)
			done := make(chan error, 1)
			go func() {
				done <- safely(func() error {
					var a proto.ColAuto
					err := a.Infer(proto.ColumnType(s))
					if err == nil && a.Data == nil {
						return fmt.Errorf("PANIC: Infer succeeded without a column")
					}
					return nil
				})
			}()
			if err := <-done; err != nil {
				p := st.Violate("deep-nesting", fmt.Sprintf("Infer of %s nested %d deep: %v", w, depth, err), []byte(fmt.Sprintf("%s %d", w, depth)))
				t.Fatalf("Infer of %q nested %d levels deep: %v (replay %s)", w, depth, err, p)
			}
			if depth <= 2000 {
				if _, err := conflictsNoPanic(s, s); err != nil {
					t.Fatalf("Conflicts of %q nested %d levels deep with itself: %v", w, depth, err)
				}
			}
			n++
			st.Case(stats.Hash("c19deep", w, depth), true, func() any {
				return map[string]any{"kind": "deep-nesting", "wrapper": w, "depth": depth, "bytes": len(s)}
			})
		}
	}
}
