package codec

import (
	"fmt"
	"testing"

	"github.com/ClickHouse/ch-go/proto"
	"pgregory.net/rapid"

	"verif/harness/gen"
	"verif/harness/ref"
	"verif/harness/stats"
)

// TestC08LongValuesReusedTargets: a stream of several blocks decoded into the same targets (the
// way Do reuses Results), where String values run from a few bytes to more than two mebibytes and
// a later block may be smaller than an earlier one. Delivered at once, in pieces of the transport's
// liking (64 KiB, 1460 bytes, random) or with the pieces ending inside the long value: the rows of
// every block equal the reference model, and every block ends exactly where the next begins.
func TestC08LongValuesReusedTargets(t *testing.T) {
	st := stats.G()
	strK := gen.ByName["String|X|String"]
	u8K := gen.ByName["UInt8|X|UInt8"]
	if strK == nil || u8K == nil {
		t.Fatal("harness: kinds")
	}
	sizes := []int{0, 5, 4096, 65536, 1<<20 - 1, 1 << 20, 1<<20 + 1, 1<<20 + 300_000, 2<<20 + 500_000}
	rapid.Check(t, func(rt *rapid.T) {
		rev := rapid.SampledFrom(blockRevs).Draw(rt, "rev")
		nblocks := rapid.IntRange(2, 4).Draw(rt, "blocks")
		withTail := rapid.Bool().Draw(rt, "plain-column-behind")
		var stream []byte
		var models [][]colSpec
		var desc []string
		for bi := 0; bi < nblocks; bi++ {
			rows := rapid.IntRange(1, 3).Draw(rt, "rows")
			var vals []ref.Val
			var d []int
			for i := 0; i < rows; i++ {
				n := rapid.SampledFrom(sizes).Draw(rt, "value-bytes")
				d = append(d, n)
				vals = append(vals, gen.Expand(rapid.Uint64().Draw(rt, "value-seed"), n))
			}
			cols := []colSpec{{Name: "s", Kind: strK, Rows: vals}}
			if withTail {
				cols = append(cols, colSpec{Name: "t", Kind: u8K, Rows: gen.DrawRows(rt, u8K, rows)})
			}
			e := &ref.Enc{NoMap: true}
			ref.EncodeBlock(e, rev, refBlock(cols, ref.BlockInfo{BucketNum: -1}))
			stream = append(stream, e.B...)
			models = append(models, cols)
			desc = append(desc, fmt.Sprint(d))
		}
		family := rapid.SampledFrom([]string{"at-once", "64KiB", "1460", "random", "128KiB+1"}).Draw(rt, "delivery")
		var segs []int
		switch family {
		case "64KiB", "1460", "128KiB+1":
			sz := map[string]int{"64KiB": 65536, "1460": 1460, "128KiB+1": 131073}[family]
			for n := 0; n < len(stream); n += sz {
				segs = append(segs, sz)
			}
		case "random":
			for n := 0; n < len(stream); {
				s := rapid.SampledFrom([]int{1, 7, 1460, 65536, 1 << 20, 1<<20 + 1, 300_000}).Draw(rt, "seg")
				segs = append(segs, s)
				n += s
			}
		}
		r := proto.NewReader(&chunkReader{data: append([]byte(nil), stream...), segs: segs})
		tc, res := typedTargets(models[0])
		for bi, cols := range models {
			var b proto.Block
			if err := safely(func() error { return b.DecodeBlock(r, rev, res) }); err != nil {
				rt.Fatalf("[%s] block %d of %v (value sizes per block %v): %v", family, bi+1, nblocks, desc, err)
			}
			for ci := range cols {
				got, err := readAll(tc[ci])
				if err != nil {
					rt.Fatalf("[%s] block %d column %d: %v", family, bi+1, ci, err)
				}
				if j, ok := ref.EqualRows(cols[ci].Kind.T, got, cols[ci].Rows); !ok {
					rt.Fatalf("[%s] block %d of %d (value sizes per block %v), column %q: row %d differs from what was sent (%d rows read, %d sent)", family, bi+1, nblocks, desc, cols[ci].Name, j, len(got), len(cols[ci].Rows))
				}
			}
		}
		if !atEOF(r) {
			rt.Fatalf("[%s] %d blocks (value sizes %v) decoded, but the stream was not consumed exactly", family, nblocks, desc)
		}
		st.Case(stats.Hash("c08long", stream[:min(len(stream), 4096)], len(stream), family, fmt.Sprint(segs[:min(len(segs), 50)])), family != "at-once", func() any {
			return map[string]any{"kind": "long-values-reused-targets", "delivery": family, "value_bytes_per_block": desc, "plain_column_behind": withTail, "rev": rev}
		})
		st.Label("delivery:" + family)
	})
}
