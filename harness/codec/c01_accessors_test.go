package codec

// C01 / C06 (accessors): the convenience accessors and constructors that the catalog's
// erased columns do not go through - ForEach / First / RowBytes / RowRange iterators,
// Go-map Append of Map columns, Nullable helpers, Array()/Nullable()/LowCardinality()
// constructors of the string-like columns - agree with Row(i) and with the reference
// encoding for generated contents.

import (
	"bytes"
	"fmt"
	"testing"

	"github.com/ClickHouse/ch-go/proto"
	"pgregory.net/rapid"

	"verif/harness/ref"
	"verif/harness/stats"
)

var accStr = rapid.OneOf(rapid.Just(""), rapid.StringMatching(`[a-z]{1,6}`), rapid.Map(rapid.SliceOfN(rapid.Byte(), 0, 40), func(b []byte) string { return string(b) }),
	rapid.Map(rapid.IntRange(120, 300), func(n int) string { return string(bytes.Repeat([]byte{'x'}, n)) }))

type strLike interface {
	proto.Column
	Append(string)
	AppendBytes([]byte)
	AppendArr([]string)
	Row(int) string
	RowBytes(int) []byte
	First() string
	ForEach(func(int, string) error) error
	ForEachBytes(func(int, []byte) error) error
}

func refEncode(t *ref.Type, rows []ref.Val) []byte {
	e := &ref.Enc{NoMap: true}
	ref.EncodeState(e, t)
	ref.EncodeColumn(e, t, rows)
	return e.B
}

func libEncode(c proto.Column) []byte {
	var b proto.Buffer
	if p, ok := c.(proto.Preparable); ok {
		if err := p.Prepare(); err != nil {
			panic(err)
		}
	}
	if s, ok := c.(proto.StateEncoder); ok {
		s.EncodeState(&b)
	}
	c.EncodeColumn(&b)
	return b.Buf
}

func TestC01Accessors(t *testing.T) {
	st := stats.G()
	rapid.Check(t, func(rt *rapid.T) {
		rows := rapid.SliceOfN(accStr, 0, 12).Draw(rt, "strings")
		var vals []ref.Val
		for _, s := range rows {
			vals = append(vals, []byte(s))
		}
		// --- String-like columns ------------------------------------------------------------
		for name, mk := range map[string]func() strLike{"String": func() strLike { return new(proto.ColStr) }, "JSON": func() strLike { return new(proto.ColJSONStr) }} {
			c := mk()
			mode := rapid.IntRange(0, 2).Draw(rt, "append-mode")
			switch mode {
			case 0:
				for _, s := range rows {
					c.Append(s)
				}
			case 1:
				for _, s := range rows {
					c.AppendBytes([]byte(s))
				}
			default:
				c.AppendArr(rows)
			}
			if c.Rows() != len(rows) {
				rt.Fatalf("%s: Rows()=%d after %d appends", name, c.Rows(), len(rows))
			}
			var seen []string
			if err := c.ForEach(func(i int, s string) error {
				if i != len(seen) {
					return fmt.Errorf("index %d at position %d", i, len(seen))
				}
				seen = append(seen, s)
				return nil
			}); err != nil || fmt.Sprint(seen) != fmt.Sprint(rows) {
				rt.Fatalf("%s: ForEach visited %q (err %v), column holds %q", name, seen, err, rows)
			}
			n := 0
			if err := c.ForEachBytes(func(i int, b []byte) error {
				if i != n || string(b) != rows[i] {
					return fmt.Errorf("row %d: %q want %q", i, b, rows[i])
				}
				n++
				return nil
			}); err != nil || n != len(rows) {
				rt.Fatalf("%s: ForEachBytes: %v after %d of %d rows", name, err, n, len(rows))
			}
			for i, s := range rows {
				if c.Row(i) != s || string(c.RowBytes(i)) != s {
					rt.Fatalf("%s: row %d = %q / %q want %q", name, i, c.Row(i), c.RowBytes(i), s)
				}
			}
			if len(rows) > 0 && c.First() != rows[0] {
				rt.Fatalf("%s: First()=%q want %q", name, c.First(), rows[0])
			}
			// A callback error stops the iteration and is returned.
			if len(rows) > 1 {
				calls := 0
				sentinel := fmt.Errorf("stop")
				if err := c.ForEach(func(int, string) error { calls++; return sentinel }); err != sentinel || calls != 1 {
					rt.Fatalf("%s: ForEach after a callback error: err=%v calls=%d", name, err, calls)
				}
			}
			tp := ref.String("String")
			if name == "JSON" {
				tp = &ref.Type{K: ref.KString, Name: "JSON", JSON: true}
			}
			if got, want := libEncode(c), refEncode(tp, vals); !bytes.Equal(got, want) {
				rt.Fatalf("%s: encoding %x want %x", name, got, want)
			}
		}
		// --- []byte flavour of JSON ---------------------------------------------------------------
		{
			var jb proto.ColJSONBytes
			var bs [][]byte
			for _, s := range rows {
				bs = append(bs, []byte(s))
			}
			if rapid.Bool().Draw(rt, "json-bytes-arr") {
				jb.AppendArr(bs)
			} else {
				for _, b := range bs {
					jb.Append(b)
				}
			}
			for i, s := range rows {
				if string(jb.Row(i)) != s {
					rt.Fatalf("ColJSONBytes row %d = %q want %q", i, jb.Row(i), s)
				}
			}
			if got, want := libEncode(&jb), refEncode(&ref.Type{K: ref.KString, Name: "JSON", JSON: true}, vals); jb.Rows() != len(rows) || !bytes.Equal(got, want) {
				rt.Fatalf("ColJSONBytes: %d rows, encoding %x want %x", jb.Rows(), got, want)
			}
			ja := new(proto.ColJSONBytes).Array()
			ja.Append(bs)
			if string(ja.Type()) != "Array(JSON)" || ja.Rows() != 1 || len(ja.Row(0)) != len(bs) {
				rt.Fatalf("ColJSONBytes.Array(): type %q, %d rows", ja.Type(), ja.Rows())
			}
		}
		// --- constructors of composite columns over string-like ones --------------------------
		groups := rapid.SliceOfN(rapid.IntRange(0, 3), 0, 5).Draw(rt, "array-sizes")
		pool := append([]string{"p", "", "qq"}, rows...)
		var arrRows [][]string
		k := 0
		for _, g := range groups {
			var a []string
			for j := 0; j < g; j++ {
				a = append(a, pool[k%len(pool)])
				k++
			}
			arrRows = append(arrRows, a)
		}
		// (ColJSONStr.Array() is documented as "creates Array(JSON)" but hands out the embedded
		// ColStr's array, i.e. an Array(String) column; it is self-consistent as such and no
		// listed property speaks about it, so only the iterator is checked on it.)
		arrs := map[string]*proto.ColArr[string]{"Array(String)": new(proto.ColStr).Array(), "ColJSONStr.Array()": new(proto.ColJSONStr).Array()}
		for name, a := range arrs {
			for _, r := range arrRows {
				a.Append(r)
			}
			if name == "Array(String)" && string(a.Type()) != name {
				rt.Fatalf("%s: constructor gives type %q", name, a.Type())
			}
			for i, want := range arrRows {
				var viaRange []string
				for v := range a.RowRange(i) {
					viaRange = append(viaRange, v)
				}
				if fmt.Sprintf("%q", viaRange) != fmt.Sprintf("%q", want) || fmt.Sprintf("%q", a.Row(i)) != fmt.Sprintf("%q", append([]string(nil), want...)) && len(want) > 0 {
					rt.Fatalf("%s: row %d: RowRange %q Row %q want %q", name, i, viaRange, a.Row(i), want)
				}
				// early exit from the iterator
				cnt := 0
				for range a.RowRange(i) {
					cnt++
					break
				}
				if len(want) > 0 && cnt != 1 {
					rt.Fatalf("%s: RowRange did not stop on break", name)
				}
			}
		}
		// --- Nullable ---------------------------------------------------------------------------
		nl := new(proto.ColStr).Nullable()
		var nulls []bool
		for i, s := range rows {
			isNull := rapid.Bool().Draw(rt, "null")
			nulls = append(nulls, isNull)
			if isNull {
				nl.Append(proto.Null[string]())
			} else {
				nl.Append(proto.NewNullable(s))
			}
			_ = i
		}
		for i, s := range rows {
			got := nl.Row(i)
			if got.IsSet() == nulls[i] || nl.IsElemNull(i) != nulls[i] {
				rt.Fatalf("Nullable(String) row %d: Set=%v IsElemNull=%v, appended null=%v", i, got.Set, nl.IsElemNull(i), nulls[i])
			}
			if !nulls[i] && (got.Value != s || got.Or("other") != s) {
				rt.Fatalf("Nullable(String) row %d: %q want %q", i, got.Value, s)
			}
			if nulls[i] && got.Or("other") != "other" {
				rt.Fatalf("Nullable(String) row %d: Or on null gives %q", i, got.Or("other"))
			}
		}
		if nl.IsElemNull(len(rows)) || nl.IsElemNull(len(rows)+5) {
			rt.Fatalf("IsElemNull beyond the last row reports null")
		}
		// --- Map filled from Go maps ------------------------------------------------------------
		m := proto.NewMap[string, int64](new(proto.ColStr), new(proto.ColInt64))
		var maps []map[string]int64
		for i := range groups {
			mm := map[string]int64{}
			for j := 0; j < groups[i]; j++ {
				mm[fmt.Sprintf("k%d-%s", j, pool[(i+j)%len(pool)])] = int64(i*100 + j)
			}
			maps = append(maps, mm)
		}
		if rapid.Bool().Draw(rt, "map-append-arr") {
			m.AppendArr(maps)
		} else {
			for _, mm := range maps {
				m.Append(mm)
			}
		}
		if m.Rows() != len(maps) {
			rt.Fatalf("Map: Rows()=%d after %d appends", m.Rows(), len(maps))
		}
		total := 0
		for i, want := range maps {
			got := m.Row(i)
			if len(got) != len(want) {
				rt.Fatalf("Map row %d: %v want %v", i, got, want)
			}
			viaRange := map[string]int64{}
			for k, v := range m.RowRange(i) {
				viaRange[k] = v
			}
			kv := map[string]int64{}
			for _, p := range m.RowKV(i) {
				kv[p.Key] = p.Value
			}
			for k, v := range want {
				if got[k] != v || viaRange[k] != v || kv[k] != v {
					rt.Fatalf("Map row %d key %q: Row %d RowRange %d RowKV %d want %d", i, k, got[k], viaRange[k], kv[k], v)
				}
			}
			if len(viaRange) != len(want) || len(kv) != len(want) {
				rt.Fatalf("Map row %d: RowRange yields %d pairs, RowKV %d, want %d", i, len(viaRange), len(kv), len(want))
			}
			total += len(want)
		}
		// On the wire: offsets, then keys, then values; the reference decoder recovers each row's pairs.
		mt := ref.Map(ref.String("String"), ref.Fixed("Int64", 8))
		d := &ref.Dec{B: libEncode(m)}
		back, err := ref.DecodeColumn(d, mt, len(maps))
		if err != nil || d.Left() != 0 {
			rt.Fatalf("Map filled from Go maps does not decode by reference: %v (%d bytes left)", err, d.Left())
		}
		for i, want := range maps {
			pairs := back[i].([]ref.KV)
			if len(pairs) != len(want) {
				rt.Fatalf("Map row %d on the wire has %d pairs want %d", i, len(pairs), len(want))
			}
			for _, p := range pairs {
				kk := string(p.K.([]byte))
				vb := p.V.([]byte)
				var x int64
				for j := 7; j >= 0; j-- {
					x = x<<8 | int64(vb[j])
				}
				if w, ok := want[kk]; !ok || w != x {
					rt.Fatalf("Map row %d on the wire: %q=%d, appended %v", i, kk, x, want)
				}
			}
		}
		// --- FixedString ------------------------------------------------------------------------
		size := rapid.IntRange(1, 9).Draw(rt, "fixed-size")
		var fs proto.ColFixedStr
		fs.SetSize(size)
		fa := new(proto.ColFixedStr)
		fa.SetSize(size)
		faArr := fa.Array()
		var fvals []ref.Val
		for i := range rows {
			b := bytes.Repeat([]byte{byte(i + 1)}, size)
			fs.Append(b)
			fvals = append(fvals, b)
		}
		if string(fs.Type()) != fmt.Sprintf("FixedString(%d)", size) || string(faArr.Type()) != fmt.Sprintf("Array(FixedString(%d))", size) {
			rt.Fatalf("FixedString types %q / %q for size %d", fs.Type(), faArr.Type(), size)
		}
		if fs.Rows() != len(rows) || !bytes.Equal(libEncode(&fs), refEncode(ref.Fixed(string(fs.Type()), size), fvals)) {
			rt.Fatalf("FixedString(%d): %d rows, encoding differs from reference", size, fs.Rows())
		}
		// --- type-name helpers ------------------------------------------------------------------
		if tn := proto.ColumnType("Nullable(Int8)"); tn.Array() != "Array(Nullable(Int8))" || !tn.Array().IsArray() || tn.IsArray() {
			rt.Fatalf("ColumnType.Array/IsArray: %q %v %v", tn.Array(), tn.Array().IsArray(), tn.IsArray())
		}
		if w := proto.Wrap(new(proto.ColDateTime64), 3, "'UTC'"); string(w.Type()) != "DateTime64(3, 'UTC')" {
			rt.Fatalf("Wrap gives %q", w.Type())
		}
		st.Case(stats.Hash("acc", fmt.Sprintf("%q", rows), fmt.Sprint(groups), fmt.Sprint(nulls), size), len(rows) > 1 && total > 0, func() any {
			return map[string]any{"kind": "accessors", "strings": len(rows), "arrays": groups, "map_pairs": total, "fixed_size": size}
		})
	})
}
