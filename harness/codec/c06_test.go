package codec

// C06 — hostile input yields an error, never a crash, a hang, an abort or an
// inconsistent column. The process-level part of the oracle (fatal errors the
// runtime cannot recover from) lives in the driver: before every decode the
// case is written to $VERIF_WORK/current.bin, so a dead process leaves the
// culprit behind.

import (
	"bytes"
	"encoding/binary"
	"encoding/hex"
	"encoding/json"
	"fmt"
	"os"
	"path/filepath"
	"reflect"
	"runtime/debug"
	"sync/atomic"
	"testing"
	"time"

	"github.com/ClickHouse/ch-go/compress"
	"github.com/ClickHouse/ch-go/proto"
	"pgregory.net/rapid"

	"verif/harness/gen"
	"verif/harness/ref"
	"verif/harness/stats"
)

const (
	c06RowCap = 1 << 18
	c06StrCap = 1 << 24
)

type decodeCase struct {
	Mode    string   `json:"mode"`            // block-typed | block-auto | column | lcraw | colraw | message | compressed
	Prime   string   `json:"prime,omitempty"` // hex of a valid block decoded into the same targets first (reuse)
	Rev     int      `json:"rev"`
	Targets []string `json:"targets,omitempty"` // kind keys
	Names   []string `json:"names,omitempty"`
	Rows    int      `json:"rows,omitempty"`
	Size    int      `json:"size,omitempty"` // fixedstr mode: width of the caller's ColFixedStr
	Message string   `json:"message,omitempty"`
	Hex     string   `json:"hex"`
	Note    string   `json:"note,omitempty"`
}

func (c decodeCase) marshal() []byte {
	b, _ := json.Marshal(c)
	return b
}

var currentFile = func() string {
	if d := os.Getenv("VERIF_WORK"); d != "" {
		return filepath.Join(d, "current.bin")
	}
	return ""
}()

// walkColumn checks internal consistency of a decoded column: Rows() equals
// want and every row accessor works for (a bounded sample of) every index.
func walkColumn(col any, want int) error {
	rc, ok := col.(interface{ Rows() int })
	if !ok {
		return fmt.Errorf("%T has no Rows", col)
	}
	var rows int
	if err := safely(func() error { rows = rc.Rows(); return nil }); err != nil {
		return fmt.Errorf("%T.Rows(): %v", col, err)
	}
	if rows != want {
		return fmt.Errorf("%T reports %d rows, block has %d", col, rows, want)
	}
	if a, ok := col.(*proto.ColAuto); ok {
		return walkColumn(a.Data, want)
	}
	if tup, ok := col.(proto.ColTuple); ok {
		for i, m := range tup {
			if err := walkColumn(m, want); err != nil {
				return fmt.Errorf("tuple[%d]: %w", i, err)
			}
		}
		return nil
	}
	idx := func(f func(i int)) {
		if rows <= 6000 {
			for i := 0; i < rows; i++ {
				f(i)
			}
			return
		}
		for i := 0; i < 3000; i++ {
			f(i)
			f(rows - 1 - i)
		}
	}
	v := reflect.ValueOf(col)
	for _, name := range []string{"Row", "RowKV"} {
		m := v.MethodByName(name)
		if !m.IsValid() || m.Type().NumIn() != 1 {
			continue
		}
		var bad error
		idx(func(i int) {
			if bad != nil {
				return
			}
			if err := safely(func() error { m.Call([]reflect.Value{reflect.ValueOf(i)}); return nil }); err != nil {
				bad = fmt.Errorf("%T.%s(%d) of %d rows after a successful decode: %v", col, name, i, rows, err)
			}
		})
		if bad != nil {
			return bad
		}
	}
	return nil
}

type verdict struct {
	key string
	msg string
}

// runDecodeCase executes one case with panic recovery and a watchdog, and
// returns a verdict when the property is violated.
var c06cases atomic.Int64

func runDecodeCase(c decodeCase) *verdict {
	// The memory oracle is the process's address-space limit. Garbage of earlier cases (a hostile frame
	// may legitimately make the library allocate up to its own cap of 128 MiB, twice) must not count
	// against a later one: on a loaded machine the collector can fall behind the allocation rate (the
	// memory limit of the runtime is a soft one), so it is run by hand every so often.
	if c06cases.Add(1)%128 == 0 {
		debug.FreeOSMemory()
	}
	if currentFile != "" {
		_ = os.WriteFile(currentFile, c.marshal(), 0o644)
	}
	data, err := hex.DecodeString(c.Hex)
	if err != nil {
		return &verdict{"harness", "bad hex"}
	}
	type res struct {
		err error
		v   *verdict
	}
	done := make(chan res, 1)
	go func() {
		var r res
		r.err = safely(func() error {
			v, e := decodeAndWalk(c, data)
			r.v = v
			return e
		})
		done <- r
	}()
	watchdog := time.NewTimer(40 * time.Second)
	defer watchdog.Stop()
	select {
	case r := <-done:
		if isPanic(r.err) {
			return &verdict{"panic", fmt.Sprintf("%s decode panicked: %v", c.Mode, r.err)}
		}
		return r.v
	case <-watchdog.C:
		return &verdict{"hang", fmt.Sprintf("%s decode of %d bytes did not return within 40s", c.Mode, len(data))}
	}
}

func kindsOf(keys []string) ([]*gen.Kind, error) {
	var out []*gen.Kind
	for _, k := range keys {
		kd, err := gen.KindByKey(k)
		if err != nil {
			return nil, err
		}
		out = append(out, kd)
	}
	return out, nil
}

// decodeAndWalk returns (violation, decode error). A decode error is fine.
func decodeAndWalk(c decodeCase, data []byte) (*verdict, error) {
	r := readerOf(data)
	switch c.Mode {
	case "block-typed":
		kinds, err := kindsOf(c.Targets)
		if err != nil {
			return &verdict{"harness", err.Error()}, nil
		}
		var res proto.Results
		for i, k := range kinds {
			res = append(res, proto.ResultColumn{Name: c.Names[i], Data: k.New().Column()})
		}
		var b proto.Block
		if c.Prime != "" {
			// Targets are reused between blocks: decode a valid block into them first.
			pb, _ := hex.DecodeString(c.Prime)
			var b0 proto.Block
			if err := b0.DecodeBlock(readerOf(pb), c.Rev, res); err != nil {
				return &verdict{"harness", "priming block does not decode: " + err.Error()}, nil
			}
		}
		if err := b.DecodeBlock(r, c.Rev, res); err != nil {
			return nil, err
		}
		if b.Columns == 0 && b.Rows == 0 {
			return nil, nil
		}
		for i, rc := range res {
			if err := walkColumn(rc.Data, b.Rows); err != nil {
				return &verdict{"inconsistent", fmt.Sprintf("typed target %d (%s): %v", i, kinds[i].Name, err)}, nil
			}
		}
	case "block-auto":
		var res proto.Results
		var b proto.Block
		if err := b.DecodeBlock(r, c.Rev, res.Auto()); err != nil {
			return nil, err
		}
		if len(res) != b.Columns {
			return &verdict{"inconsistent", fmt.Sprintf("Auto produced %d columns for a block of %d", len(res), b.Columns)}, nil
		}
		for i, rc := range res {
			if err := walkColumn(rc.Data, b.Rows); err != nil {
				return &verdict{"inconsistent", fmt.Sprintf("auto column %d (%s): %v", i, rc.Data.Type(), err)}, nil
			}
		}
	case "column", "lcraw", "colraw", "fixedstr":
		var col proto.ColResult
		switch c.Mode {
		case "column":
			kinds, err := kindsOf(c.Targets)
			if err != nil {
				return &verdict{"harness", err.Error()}, nil
			}
			col = kinds[0].New().Column()
		case "lcraw":
			col = &proto.ColLowCardinalityRaw{Index: new(proto.ColStr)}
		case "colraw":
			col = &proto.ColRaw{T: "UInt32", Size: 4}
		case "fixedstr":
			col = &proto.ColFixedStr{Size: c.Size}
		}
		if s, ok := col.(proto.StateDecoder); ok && c.Rows > 0 {
			if err := s.DecodeState(r); err != nil {
				return nil, err
			}
		}
		if err := col.DecodeColumn(r, c.Rows); err != nil {
			return nil, err
		}
		if err := walkColumn(col, c.Rows); err != nil {
			return &verdict{"inconsistent", fmt.Sprintf("DecodeColumn(%s, %d rows): %v", col.Type(), c.Rows, err)}, nil
		}
	case "message":
		return nil, decodeMessage(c.Message, r, c.Rev)
	case "compressed":
		cr := compress.NewReader(bytes.NewReader(data))
		buf := make([]byte, 4096)
		total := 0
		for i := 0; i < 1<<20; i++ {
			n, err := cr.Read(buf)
			total += n
			if err != nil {
				return nil, err
			}
			if total > 1<<30 {
				return &verdict{"expansion", "reader produced more than 1 GiB"}, nil
			}
		}
	default:
		return &verdict{"harness", "unknown mode " + c.Mode}, nil
	}
	return nil, nil
}

var messageNames = []string{"ClientHello", "ServerHello", "Query", "ClientInfo", "ClientData", "BlockInfo", "Progress", "Profile", "Exception",
	"TableColumns", "Setting", "Parameter"}

func decodeMessage(name string, r *proto.Reader, rev int) error {
	switch name {
	case "ClientHello":
		var m proto.ClientHello
		return m.Decode(r)
	case "ServerHello":
		var m proto.ServerHello
		return m.DecodeAware(r, rev)
	case "Query":
		var m proto.Query
		return m.DecodeAware(r, rev)
	case "ClientInfo":
		var m proto.ClientInfo
		return m.DecodeAware(r, rev)
	case "ClientData":
		var m proto.ClientData
		return m.DecodeAware(r, rev)
	case "BlockInfo":
		var m proto.BlockInfo
		return m.Decode(r)
	case "Progress":
		var m proto.Progress
		return m.DecodeAware(r, rev)
	case "Profile":
		var m proto.Profile
		return m.DecodeAware(r, rev)
	case "Exception":
		var m proto.Exception
		return m.DecodeAware(r, rev)
	case "TableColumns":
		var m proto.TableColumns
		return m.DecodeAware(r, rev)
	case "Setting":
		var m proto.Setting
		return m.Decode(r)
	case "Parameter":
		var m proto.Parameter
		return m.Decode(r)
	}
	return fmt.Errorf("harness: unknown message %s", name)
}

func c06report(rt *rapid.T, c decodeCase, v *verdict, mut gen.Mutation) {
	if v == nil {
		return
	}
	c.Note = mut.Desc
	path := stats.G().Violate("c06-"+v.key, v.msg+" ["+mut.Desc+"]", c.marshal())
	rt.Fatalf("C06 %s: %s\n mutation: %s\n case saved to %s\n case: %s", v.key, v.msg, mut.Desc, path, c.marshal())
}

func withCaps(f func()) {
	setCaps(c06RowCap, c06StrCap)
	defer setCaps(0, 0)
	f()
}

func TestC06BlockMutations(t *testing.T) {
	st := stats.G()
	withCaps(func() {
		rapid.Check(t, func(rt *rapid.T) {
			cols, rows := drawBlock(rt, 3)
			rev := rapid.SampledFrom(blockRevs).Draw(rt, "rev")
			e := &ref.Enc{LCBump: rapid.IntRange(0, 3).Draw(rt, "lc-key-width-bump")}
			ref.EncodeBlock(e, rev, refBlock(cols, ref.BlockInfo{BucketNum: -1}))
			// a second block to splice from
			ocols, _ := drawBlock(rt, 2)
			oe := &ref.Enc{NoMap: true}
			ref.EncodeBlock(oe, rev, refBlock(ocols, ref.BlockInfo{}))
			nmut := rapid.IntRange(1, 3).Draw(rt, "mutations")
			data, fields := e.B, e.Fields
			var mut gen.Mutation
			structural := false
			for i := 0; i < nmut; i++ {
				var m gen.Mutation
				data, m = gen.Mutate(rt, data, fields, oe.B)
				fields = nil // offsets are stale after the first mutation
				if i == 0 {
					mut = m
				} else {
					mut.Desc += "; " + m.Desc
				}
				structural = structural || m.Struct
			}
			// Sometimes the type string of a column is replaced by a hostile one (typed targets pass
			// it to Infer before any check): re-encode the block with that type name and no data.
			if rapid.IntRange(0, 3).Draw(rt, "hostile-type-string") == 0 {
				bad := gen.MalformedType(rt)
				hb := refBlock(cols, ref.BlockInfo{BucketNum: -1})
				i := rapid.IntRange(0, len(cols)-1).Draw(rt, "which-column")
				he := &ref.Enc{NoMap: true}
				if rev >= ref.RevBlockInfo {
					ref.EncodeBlockInfo(he, hb.Info)
				}
				he.UVarint(uint64(len(cols)), ref.RCount)
				he.UVarint(0, ref.RCount)
				for j, col := range cols {
					he.Str([]byte(col.Name), ref.RName)
					tn := col.Kind.T.Name
					if j == i {
						tn = bad
					}
					he.Str([]byte(tn), ref.RName)
					if rev >= ref.RevCustomSerialization {
						he.Byte(0, ref.RFlag)
					}
				}
				data = he.B
				mut = gen.Mutation{Desc: fmt.Sprintf("type string of column %d replaced by %q", i, bad), Struct: true, Role: "name"}
				structural = true
			}
			c := decodeCase{Rev: rev, Hex: hex.EncodeToString(data)}
			for _, col := range cols {
				c.Names = append(c.Names, col.Name)
			}
			mode := rapid.IntRange(0, 3).Draw(rt, "mode")
			switch mode {
			case 0, 1:
				c.Mode = "block-typed"
				for _, col := range cols {
					c.Targets = append(c.Targets, col.Kind.Key())
				}
				if mode == 1 {
					// reused targets: a valid block of the same schema (other rows) is decoded first
					var prime []colSpec
					n := rapid.IntRange(1, 4).Draw(rt, "prime-rows")
					for _, col := range cols {
						prime = append(prime, colSpec{Name: col.Name, Kind: col.Kind, Rows: gen.DrawRows(rt, col.Kind, n)})
					}
					pe := &ref.Enc{NoMap: true}
					ref.EncodeBlock(pe, rev, refBlock(prime, ref.BlockInfo{}))
					c.Prime = hex.EncodeToString(pe.B)
				}
			case 2:
				c.Mode = "block-typed"
				for range cols {
					c.Targets = append(c.Targets, gen.DrawKind(rt, "other-kind").Key())
				}
			case 3:
				c.Mode = "block-auto"
			}
			c06report(rt, c, runDecodeCase(c), mut)
			st.Case(stats.Hash("c06b", data, c.Mode, fmt.Sprint(c.Targets)), structural, func() any {
				return map[string]any{"kind": "block-mutation", "mode": c.Mode, "types": typeNames(cols), "rows": rows, "mutation": mut.Desc, "bytes": len(data)}
			})
			st.Label("mode:" + c.Mode)
			if mut.Role != "" {
				st.Label("role:" + mut.Role)
			}
		})
	})
}

func TestC06ColumnMutations(t *testing.T) {
	st := stats.G()
	withCaps(func() {
		rapid.Check(t, func(rt *rapid.T) {
			k := gen.DrawKind(rt, "kind")
			special := rapid.IntRange(0, 9).Draw(rt, "special-target")
			if special == 0 {
				k = gen.ByName["LowCardinality(String)|LowCardinality(X)|String"]
			}
			rows := gen.RowCount().Draw(rt, "rows")
			vals := gen.DrawRows(rt, k, rows)
			e := &ref.Enc{LCBump: rapid.IntRange(0, 3).Draw(rt, "lc-key-width-bump")}
			if rows > 0 {
				ref.EncodeState(e, k.T)
			}
			ref.EncodeColumn(e, k.T, vals)
			data, mut := gen.Mutate(rt, e.B, e.Fields, nil)
			c := decodeCase{Mode: "column", Rows: rows, Targets: []string{k.Key()}, Hex: hex.EncodeToString(data)}
			if special == 0 {
				c.Mode = "lcraw"
			} else if special == 1 {
				c.Mode = "colraw"
			} else if special == 2 && rapid.Bool().Draw(rt, "wide-fixed-string") {
				// A caller-built FixedString column of any width, wider than the reader's buffer included.
				c.Mode = "fixedstr"
				c.Size = rapid.SampledFrom([]int{1, 7, 255, 4096, 65536, 131071, 131072, 131073, 200000, 1 << 20}).Draw(rt, "fixed-width")
				c.Rows = rapid.IntRange(0, 3).Draw(rt, "fixed-rows")
				rows = c.Rows
				data, mut = gen.Mutate(rt, gen.Expand(rapid.Uint64().Draw(rt, "fixed-seed"), c.Size*c.Rows), nil, nil)
				if rapid.Bool().Draw(rt, "fixed-intact") {
					data = gen.Expand(7, c.Size*c.Rows)
					mut = gen.Mutation{Desc: "intact"}
				}
				c.Hex = hex.EncodeToString(data)
			}
			c06report(rt, c, runDecodeCase(c), mut)
			st.Case(stats.Hash("c06c", data, c.Mode, k.Key(), rows), mut.Struct, func() any {
				return map[string]any{"kind": "column-mutation", "mode": c.Mode, "type": k.T.Name, "rows": rows, "mutation": mut.Desc}
			})
			st.Label("mode:" + c.Mode)
			if mut.Role != "" {
				st.Label("role:" + mut.Role)
			}
		})
	})
}

func encodeRefMessage(rt *rapid.T, name string, rev int) *ref.Enc {
	e := &ref.Enc{}
	s := func(l string) string { return protoStr.Draw(rt, l) }
	i := func(l string) int64 { return int64(protoInt.Draw(rt, l)) }
	info := ref.ClientInfo{QueryKind: byte(rapid.SampledFrom([]int{1, 1, 1, 0, 2}).Draw(rt, "query-kind")), InitialUser: s("u"), InitialQueryID: s("q"), InitialAddress: s("a"), Interface: 1, OSUser: s("o"), Hostname: s("h"),
		ClientName: s("c"), Major: i("ma"), Minor: i("mi"), Revision: i("r"), QuotaKey: s("k"), Patch: i("p"),
		Span: ref.Span{Valid: rapid.Bool().Draw(rt, "span"), TraceID: [16]byte{1}, SpanID: [8]byte{2}, State: "k=v", Flags: 1}}
	switch name {
	case "ClientHello":
		h := ref.ClientHello{Name: s("n"), Major: i("ma"), Minor: i("mi"), Revision: i("r"), Database: s("d"), User: s("u"), Pass: s("p")}
		ref.EncodeClientHello(e, h)
		e.B = e.B[1:] // Decode expects the body
		for j := range e.Fields {
			e.Fields[j].Off--
		}
		e.Fields = e.Fields[1:]
	case "ServerHello":
		ref.EncodeServerHello(e, ref.ServerHello{Name: s("n"), Major: i("ma"), Minor: i("mi"), Revision: i("r"), Timezone: s("tz"), DisplayName: s("dn"), Patch: i("p")}, rev)
		e.B = e.B[1:]
		for j := range e.Fields {
			e.Fields[j].Off--
		}
		e.Fields = e.Fields[1:]
	case "Query":
		q := ref.Query{ID: s("id"), Info: info, Secret: s("sec"), Stage: 2, Compression: uint64(rapid.IntRange(0, 1).Draw(rt, "comp")), Body: s("body"),
			Settings: []ref.Setting{{Key: "max_threads", Value: s("sv"), Flags: 1}}, Params: []ref.Setting{{Key: "p", Value: s("pv"), Flags: 2}}}
		if rev < ref.RevSettingsAsStrings {
			rev = ref.RevSettingsAsStrings
		}
		// the lists have no length on the wire: now and then a long one
		if rapid.IntRange(0, 5).Draw(rt, "long-list") == 0 {
			n := rapid.SampledFrom([]int{300, 999, 1000, 1001, 1500}).Draw(rt, "list-length")
			if rapid.Bool().Draw(rt, "of-parameters") {
				for i := 0; i < n; i++ {
					q.Params = append(q.Params, ref.Setting{Key: fmt.Sprintf("p%d", i), Value: "v", Flags: 2})
				}
			} else {
				for i := 0; i < n; i++ {
					q.Settings = append(q.Settings, ref.Setting{Key: fmt.Sprintf("s%d", i), Value: "1", Flags: uint64(i % 2)})
				}
			}
		}
		ref.EncodeQuery(e, q, rev)
		e.B = e.B[1:]
		for j := range e.Fields {
			e.Fields[j].Off--
		}
		e.Fields = e.Fields[1:]
	case "ClientInfo":
		ref.EncodeClientInfo(e, info, max(rev, ref.RevSettingsAsStrings))
	case "ClientData":
		if rev >= ref.RevTempTables {
			e.Str([]byte(s("t")), ref.RName)
		}
	case "BlockInfo":
		ref.EncodeBlockInfo(e, ref.BlockInfo{Overflows: rapid.Bool().Draw(rt, "ov"), BucketNum: rapid.Int32().Draw(rt, "bn")})
	case "Progress":
		ref.EncodeProgress(e, ref.Progress{Rows: protoU64.Draw(rt, "a"), Bytes: protoU64.Draw(rt, "b"), TotalRows: protoU64.Draw(rt, "c"), WroteRows: 1, WroteBytes: 2, ElapsedNs: 3}, rev)
	case "Profile":
		ref.EncodeProfile(e, ref.Profile{Rows: protoU64.Draw(rt, "a"), Blocks: protoU64.Draw(rt, "b"), Bytes: 7, AppliedLimit: true, RowsBeforeLimit: 9})
	case "Exception":
		ref.EncodeException(e, ref.Exception{Code: rapid.Int32().Draw(rt, "code"), Name: s("n"), Message: s("m"), Stack: s("st"), Nested: rapid.Bool().Draw(rt, "nested")})
	case "TableColumns":
		ref.EncodeTableColumns(e, ref.TableColumns{First: s("f"), Second: s("s")})
	case "Setting", "Parameter":
		e.Str([]byte("key"), ref.RPayload)
		e.UVarint(uint64(rapid.IntRange(0, 7).Draw(rt, "flags")), ref.RCount)
		e.Str([]byte(s("v")), ref.RPayload)
	}
	return e
}

func TestC06MessageMutations(t *testing.T) {
	st := stats.G()
	revs := quickRevisions()
	withCaps(func() {
		rapid.Check(t, func(rt *rapid.T) {
			name := rapid.SampledFrom(messageNames).Draw(rt, "message")
			rev := rapid.SampledFrom(revs).Draw(rt, "rev")
			e := encodeRefMessage(rt, name, rev)
			var data []byte
			var mut gen.Mutation
			if rapid.IntRange(0, 4).Draw(rt, "arbitrary") == 0 {
				data = rapid.SliceOfN(rapid.Byte(), 0, 64).Draw(rt, "bytes")
				mut = gen.Mutation{Desc: "arbitrary bytes"}
			} else {
				data, mut = gen.Mutate(rt, e.B, e.Fields, nil)
			}
			if name == "Query" && rev < ref.RevSettingsAsStrings {
				rev = ref.RevSettingsAsStrings
			}
			c := decodeCase{Mode: "message", Message: name, Rev: rev, Hex: hex.EncodeToString(data)}
			c06report(rt, c, runDecodeCase(c), mut)
			st.Case(stats.Hash("c06m", data, name, rev), mut.Struct || mut.Desc == "arbitrary bytes", func() any {
				return map[string]any{"kind": "message-mutation", "message": name, "rev": rev, "mutation": mut.Desc, "hex": c.Hex}
			})
			st.Label("msg:" + name)
		})
	})
}

func TestC06CompressedMutations(t *testing.T) {
	st := stats.G()
	withCaps(func() {
		rapid.Check(t, func(rt *rapid.T) {
			s, _ := drawStream(rt, 2, 200)
			stream := bytes.Join(s.frames, nil)
			data := append([]byte(nil), stream...)
			desc := ""
			// Mutate inside the first frame, then fix its checksum so that the mutation reaches the decompressor.
			flen := len(s.frames[0])
			switch rapid.IntRange(0, 3).Draw(rt, "cmut") {
			case 0: // header size fields
				off := rapid.SampledFrom([]int{17, 21}).Draw(rt, "field")
				v := rapid.OneOf(rapid.Uint32(), rapid.SampledFrom([]uint32{0, 8, 9, 10, 1 << 27, 1<<27 + 1, 1 << 31, 1<<32 - 1})).Draw(rt, "v")
				data[off], data[off+1], data[off+2], data[off+3] = byte(v), byte(v>>8), byte(v>>16), byte(v>>24)
				desc = fmt.Sprintf("size field at %d = %d", off, v)
			case 1: // body byte
				if flen > ref.FrameHeader {
					i := rapid.IntRange(ref.FrameHeader, flen-1).Draw(rt, "pos")
					data[i] ^= byte(rapid.IntRange(1, 255).Draw(rt, "mask"))
					desc = fmt.Sprintf("body byte %d altered", i)
				}
			case 2: // method byte
				data[16] = rapid.SampledFrom([]byte{0x02, 0x82, 0x90, 0x00, 0xff, 0x91}).Draw(rt, "method")
				desc = fmt.Sprintf("method byte = %#x", data[16])
			case 3: // hostile zstd frame header claiming a huge content size
				payload := []byte{0x28, 0xb5, 0x2f, 0xfd, 0xe0}
				if rapid.Bool().Draw(rt, "windowed") {
					// FCS flag 3 without single-segment: a small window descriptor, then the 8-byte content size.
					payload = []byte{0x28, 0xb5, 0x2f, 0xfd, 0xc0, byte(rapid.IntRange(0, 0x50).Draw(rt, "wd"))}
				}
				fcs := rapid.OneOf(rapid.Uint64(), rapid.SampledFrom([]uint64{1 << 27, 1<<27 + 1, 1 << 30, 1 << 32, 16 << 30, 60 << 30, 1 << 40}),
					rapid.Uint64Range(1<<27, 64<<30)).Draw(rt, "fcs")
				payload = binary.LittleEndian.AppendUint64(payload, fcs)
				payload = append(payload, rapid.SliceOfN(rapid.Byte(), 0, 24).Draw(rt, "zbody")...)
				f := ref.SealFrame(ref.MethodZSTD, payload, uint32(rapid.IntRange(0, 4096).Draw(rt, "datasize")))
				data = append(f, data...)
				flen = len(f)
				desc = "zstd frame with 8-byte frame content size field"
			}
			if rapid.IntRange(0, 9).Draw(rt, "fix-checksum") > 0 && len(data) >= flen && flen >= ref.FrameHeader {
				ref.FixChecksum(data[:flen])
				desc += " (checksum recomputed)"
			}
			c := decodeCase{Mode: "compressed", Hex: hex.EncodeToString(data)}
			c06report(rt, c, runDecodeCase(c), gen.Mutation{Desc: desc})
			st.Case(stats.Hash("c06z", data), true, func() any {
				return map[string]any{"kind": "compressed-mutation", "mutation": desc, "bytes": len(data)}
			})
		})
	})
}

// TestC06Replay re-runs one saved case (VERIF_REPLAY).
func TestC06Replay(t *testing.T) {
	p := replayPath()
	if p == "" {
		t.Skip("no VERIF_REPLAY")
	}
	raw, err := os.ReadFile(p)
	if err != nil {
		t.Fatal(err)
	}
	var c decodeCase
	if err := json.Unmarshal(raw, &c); err != nil {
		t.Skipf("not a C06 case file: %v", err)
	}
	withCaps(func() {
		if v := runDecodeCase(c); v != nil {
			stats.G().Violate("c06-"+v.key, v.msg, raw)
			t.Fatalf("C06 %s: %s", v.key, v.msg)
		}
	})
}

// TestC06SavedCases replays the committed reproductions of confirmed findings
// (/verif/replays/C06), so a regression of a fixed defect is reported even if
// the random search of this run misses it.
func TestC06SavedCases(t *testing.T) {
	files, _ := filepath.Glob(filepath.Join(verifRoot(), "replays", "C06", "*.json"))
	withCaps(func() {
		for _, f := range files {
			raw, err := os.ReadFile(f)
			if err != nil {
				continue
			}
			var c decodeCase
			if json.Unmarshal(raw, &c) != nil {
				continue
			}
			if v := runDecodeCase(c); v != nil {
				stats.G().Violate("c06-"+v.key, filepath.Base(f)+": "+v.msg, raw)
				t.Errorf("C06 saved case %s: %s: %s", filepath.Base(f), v.key, v.msg)
			}
			stats.G().Enumerated(1, 1)
		}
	})
}
