package codec

// C15 — the purego build and the default build of the codecs behave
// identically. The same test, compiled with and without -tags purego and
// driven by the same rapid seed, (1) checks every case against the reference
// codec in-process and (2) writes a transcript; the driver diffs the
// transcripts of the two builds line by line.

import (
	"bufio"
	"bytes"
	"crypto/sha256"
	"errors"
	"fmt"
	"io"
	"os"
	"path/filepath"
	"strings"
	"testing"

	"github.com/ClickHouse/ch-go/proto"
	"pgregory.net/rapid"

	"verif/harness/gen"
	"verif/harness/ref"
	"verif/harness/stats"
)

// dualScalars are the scalar families whose codecs exist in two variants.
var dualScalars = map[string]bool{
	"Int8": true, "Int16": true, "Int32": true, "Int64": true, "Int128": true, "Int256": true,
	"UInt8": true, "UInt16": true, "UInt32": true, "UInt64": true, "UInt128": true, "UInt256": true,
	"Float32": true, "Float64": true, "Enum8": true, "Enum16": true, "IPv4": true, "IPv6": true,
	"Decimal32": true, "Decimal64": true, "Decimal128": true, "Decimal256": true,
	"Date": true, "Date32": true, "DateTime": true, "DateTime64": true, "DateTime64Raw": true,
	"FixedStr8": true, "FixedStr16": true, "FixedStr64": true, "FixedStr512": true,
	"Bool": true, "UUID": true,
}

func dualKinds() []*gen.Kind {
	var out []*gen.Kind
	for _, k := range gen.Kinds {
		if k.Shape == "X" && dualScalars[k.Scalar] {
			out = append(out, k)
		}
	}
	return out
}

func errClass(err error) string {
	switch {
	case err == nil:
		return "nil"
	case isPanic(err):
		return "panic"
	case errors.Is(err, io.ErrUnexpectedEOF):
		return "unexpected-eof"
	case errors.Is(err, io.EOF):
		return "eof"
	case strings.Contains(err.Error(), "EOF"):
		return "eof-text"
	default:
		return "invalid"
	}
}

func sha(b []byte) string {
	h := sha256.Sum256(b)
	return fmt.Sprintf("%x", h[:8])
}

type transcript struct {
	w *bufio.Writer
	f *os.File
}

func openTranscript() *transcript {
	dir := os.Getenv("VERIF_WORK")
	if dir == "" {
		return &transcript{}
	}
	f, err := os.Create(filepath.Join(dir, "transcript.txt"))
	if err != nil {
		return &transcript{}
	}
	return &transcript{w: bufio.NewWriterSize(f, 1<<20), f: f}
}

func (t *transcript) line(f string, a ...any) {
	if t.w != nil {
		fmt.Fprintf(t.w, f+"\n", a...)
	}
}

func (t *transcript) close() {
	if t.w != nil {
		t.w.Flush()
		t.f.Close()
	}
}

func rowsDigest(col gen.Col) (string, int, error) {
	vals, err := readAll(col)
	if err != nil {
		return "", 0, err
	}
	h := sha256.New()
	for _, v := range vals {
		switch x := v.(type) {
		case []byte:
			h.Write(x)
		default:
			fmt.Fprintf(h, "%v", x)
		}
		h.Write([]byte{0xfe})
	}
	return fmt.Sprintf("%x", h.Sum(nil)[:8]), len(vals), nil
}

// c15case runs every operation for one (kind, values) pair.
func c15case(fail func(string, ...any), tr *transcript, k *gen.Kind, vals []ref.Val, junk []byte, arbitrary []byte, tag string) {
	w := k.T.Width
	want := &ref.Enc{NoMap: true}
	ref.EncodeColumn(want, k.T, vals)
	id := fmt.Sprintf("%s|%s|%s", k.Scalar, tag, sha(want.B))

	// EncodeColumn into an empty and a junk-prefixed buffer.
	col := fill(k, vals, false)
	var b0 proto.Buffer
	err := safely(func() error { col.Column().EncodeColumn(&b0); return nil })
	tr.line("%s|enc-empty|%s|%s", id, errClass(err), sha(b0.Buf))
	if err != nil || !bytes.Equal(b0.Buf, want.B) {
		fail("%s: EncodeColumn(empty buffer) of %d rows: err=%v, bytes differ from reference at %d", k.T.Name, len(vals), err, firstDiff(b0.Buf, want.B))
	}
	// The encoded bytes are a copy: reusing the column afterwards leaves them alone.
	if len(vals) > 0 {
		c3 := fill(k, vals, false)
		var bz proto.Buffer
		err := safely(func() error {
			c3.Column().EncodeColumn(&bz)
			c3.Column().Reset()
			for i := len(vals) - 1; i >= 0; i-- {
				c3.Append(vals[i])
			}
			c3.Append(vals[0])
			return nil
		})
		if err != nil || !bytes.Equal(bz.Buf, want.B) {
			fail("%s: bytes encoded into a zero-capacity buffer changed when the column was reset and refilled (err=%v, first difference at %d)", k.T.Name, err, firstDiff(bz.Buf, want.B))
		}
	}
	b1 := proto.Buffer{Buf: append([]byte(nil), junk...)}
	err = safely(func() error { fill(k, vals, true).Column().EncodeColumn(&b1); return nil })
	tr.line("%s|enc-junk%d|%s|%s", id, len(junk), errClass(err), sha(b1.Buf))
	if err != nil || !bytes.Equal(b1.Buf[:min(len(junk), len(b1.Buf))], junk) || !bytes.Equal(b1.Buf[min(len(junk), len(b1.Buf)):], want.B) {
		fail("%s: EncodeColumn into a buffer holding %d bytes: err=%v; prefix kept=%v", k.T.Name, len(junk), err, bytes.HasPrefix(b1.Buf, junk))
	}
	// WriteColumn + Flush.
	s := &sink{failAt: -1}
	wr := proto.NewWriter(s, new(proto.Buffer))
	err = safely(func() error { col.Column().WriteColumn(wr); _, e := wr.Flush(); return e })
	tr.line("%s|write|%s|%s", id, errClass(err), sha(s.got))
	if err != nil || !bytes.Equal(s.got, want.B) {
		fail("%s: WriteColumn+Flush of %d rows differs from reference (err=%v)", k.T.Name, len(vals), err)
	}
	// WriteColumn through a writer whose buffer already holds bytes (the starting state of the
	// output buffer, vectored flavour): they stay in front, the column follows.
	{
		s2 := &sink{failAt: -1}
		wr2 := proto.NewWriter(s2, &proto.Buffer{Buf: append([]byte(nil), junk...)})
		err = safely(func() error { fill(k, vals, false).Column().WriteColumn(wr2); _, e := wr2.Flush(); return e })
		tr.line("%s|write-junk%d|%s|%s", id, len(junk), errClass(err), sha(s2.got))
		if err != nil || !bytes.Equal(s2.got, append(append([]byte(nil), junk...), want.B...)) {
			fail("%s: WriteColumn+Flush of %d rows through a writer whose buffer held %d bytes: err=%v, got %d bytes, want the %d held bytes followed by the %d column bytes (first difference at %d)",
				k.T.Name, len(vals), len(junk), err, len(s2.got), len(junk), len(want.B), firstDiff(s2.got, append(append([]byte(nil), junk...), want.B...)))
		}
	}
	// Two columns written through one writer before a single flush (two columns of a block).
	{
		s3 := &sink{failAt: -1}
		wr3 := proto.NewWriter(s3, new(proto.Buffer))
		other := vals
		if len(vals) > 1 {
			other = vals[1:]
		}
		ow := &ref.Enc{NoMap: true}
		ref.EncodeColumn(ow, k.T, other)
		err = safely(func() error {
			fill(k, vals, false).Column().WriteColumn(wr3)
			fill(k, other, true).Column().WriteColumn(wr3)
			_, e := wr3.Flush()
			return e
		})
		tr.line("%s|write-two|%s|%s", id, errClass(err), sha(s3.got))
		if err != nil || !bytes.Equal(s3.got, append(append([]byte(nil), want.B...), ow.B...)) {
			fail("%s: two columns (%d and %d rows) written through one writer and flushed once: err=%v, first difference from the two encodings at %d",
				k.T.Name, len(vals), len(other), err, firstDiff(s3.got, append(append([]byte(nil), want.B...), ow.B...)))
		}
	}
	// DecodeColumn from a reader that has already served other reads (its scratch buffer is
	// not empty), also for zero rows.
	{
		r := readerOf(append(append([]byte(nil), junk...), want.B...))
		target := k.New()
		pre, perr := r.ReadRaw(len(junk))
		pre = append([]byte(nil), pre...) // ReadRaw hands out the reader's scratch buffer
		err := perr
		if err == nil {
			err = safely(func() error { return target.Column().DecodeColumn(r, len(vals)) })
		}
		dg, n, rerr := rowsDigest(target)
		tr.line("%s|dec-used-reader|%s|rows=%d|%s|%v", id, errClass(err), n, dg, rerr)
		if err != nil || !bytes.Equal(pre, junk) {
			fail("%s: DecodeColumn of %d rows from a reader that served a %d-byte read before: %v", k.T.Name, len(vals), len(junk), err)
		}
		got, _ := readAll(target)
		if j, ok := ref.EqualRows(k.T, got, vals); !ok {
			fail("%s: DecodeColumn of %d rows from a used reader: %d rows read, row %d differs", k.T.Name, len(vals), len(got), j)
		}
	}
	// DecodeColumn of valid bytes into a fresh and into a used-then-reset column.
	for _, mode := range []string{"fresh", "reset"} {
		target := k.New()
		if mode == "reset" {
			// Prime with DIFFERENT content (complemented wire bytes, one row more), then Reset:
			// anything that survives the reset shows up as a wrong value.
			inv := make([]byte, 0, len(want.B)+w)
			for _, b := range want.B {
				if k.Scalar == "Bool" {
					inv = append(inv, 1-b)
				} else {
					inv = append(inv, ^b)
				}
			}
			extra := make([]byte, w)
			if k.Scalar == "Bool" {
				extra[0] = 1
			}
			inv = append(inv, extra...)
			if err := libDecodeColumn(target.Column(), inv, len(vals)+1); err != nil {
				fail("%s: priming decode failed: %v", k.T.Name, err)
			}
			target.Column().Reset()
		}
		err := libDecodeColumn(target.Column(), want.B, len(vals))
		dg, n, rerr := rowsDigest(target)
		tr.line("%s|dec-%s|%s|rows=%d|%s|%v", id, mode, errClass(err), n, dg, rerr)
		if err != nil {
			fail("%s: DecodeColumn(%s column) of valid bytes: %v", k.T.Name, mode, err)
		}
		got, _ := readAll(target)
		if j, ok := ref.EqualRows(k.T, got, vals); !ok {
			fail("%s: DecodeColumn(%s column): row %d differs", k.T.Name, mode, j)
		}
	}
	// The same bytes behind the decompressor (the column of a Data packet on a compressed
	// connection), with another frame following: the column's rows, and the next frame is next.
	if len(vals) > 0 {
		method := []byte{ref.MethodLZ4, ref.MethodZSTD, ref.MethodNone}[len(vals)%3]
		// (something of the frame - think of the block header - is read before the column)
		f1, e1 := ref.BuildFrame(method, append([]byte("hdr"), want.B...))
		f2, e2 := ref.BuildFrame(ref.MethodLZ4, []byte("next-frame"))
		if e1 != nil || e2 != nil {
			fail("harness: frames: %v %v", e1, e2)
		}
		r := readerOf(append(append([]byte(nil), f1...), f2...))
		r.EnableCompression()
		hdr := make([]byte, 3)
		if err := r.ReadFull(hdr); err != nil || string(hdr) != "hdr" {
			fail("harness: reading the first bytes of the frame: %q %v", hdr, err)
		}
		target := k.New()
		err := safely(func() error { return target.Column().(proto.ColResult).DecodeColumn(r, len(vals)) })
		dg, n, rerr := rowsDigest(target)
		tr.line("%s|dec-compressed|%s|rows=%d|%s|%v", id, errClass(err), n, dg, rerr)
		if err != nil {
			fail("%s: DecodeColumn of %d rows through the decompressor (method %#x): %v", k.T.Name, len(vals), method, err)
		}
		got, _ := readAll(target)
		if j, ok := ref.EqualRows(k.T, got, vals); !ok {
			fail("%s: DecodeColumn of %d rows through the decompressor (method %#x): row %d differs", k.T.Name, len(vals), method, j)
		}
		rest := make([]byte, len("next-frame"))
		if err := r.ReadFull(rest); err != nil || string(rest) != "next-frame" {
			fail("%s: after a column of %d rows read through the decompressor the next frame reads %q (%v)", k.T.Name, len(vals), rest, err)
		}
	}
	// Arbitrary bytes of the right length: every bit pattern is a value for all
	// these codecs except Bool (only 0 and 1): decode then encode is the identity.
	if len(arbitrary) >= w && w > 0 {
		rows := len(arbitrary) / w
		in := arbitrary[:rows*w]
		target := k.New()
		err := libDecodeColumn(target.Column(), in, rows)
		dg, n, rerr := rowsDigest(target)
		if err != nil {
			dg, n = "-", 0
		}
		tr.line("%s|dec-arbitrary|%s|%s|rows=%d|%s|%v", id, sha(in), errClass(err), n, dg, rerr)
		validBool := true
		if k.Scalar == "Bool" {
			for _, x := range in {
				validBool = validBool && x <= 1
			}
		}
		if k.Scalar == "Bool" && !validBool {
			if err == nil {
				fail("Bool: DecodeColumn accepts bytes other than 0 and 1 (%x)", trunc(in))
			}
		} else {
			if err != nil {
				fail("%s: DecodeColumn of %d arbitrary rows: %v", k.T.Name, rows, err)
			}
			var back proto.Buffer
			target.Column().EncodeColumn(&back)
			if !bytes.Equal(back.Buf, in) {
				fail("%s: decode then encode of arbitrary bytes is not the identity (first difference at %d)", k.T.Name, firstDiff(back.Buf, in))
			}
		}
	}
	// Bool: exactly one byte that is neither 0 nor 1, at any position of an otherwise valid
	// column (whatever the row count, also multiples of the word size), is rejected.
	if k.Scalar == "Bool" && len(want.B) > 0 {
		pos := int(uint(len(arbitrary)*31+len(junk)) % uint(len(want.B)))
		bad := append([]byte(nil), want.B...)
		bad[pos] = []byte{2, 3, 0x80, 0xff}[(len(junk)+pos)%4]
		target := k.New()
		err := libDecodeColumn(target.Column(), bad, len(vals))
		tr.line("%s|dec-one-bad-bool@%d|%s", id, pos, errClass(err))
		if err == nil || isPanic(err) {
			fail("Bool: DecodeColumn of %d rows accepts the byte %#x at row %d (returned %v)", len(vals), bad[pos], pos, err)
		}
	}
	// Input that ends exactly after k complete rows (0 < k < rows) and after none: the two builds
	// must fail the same way (transcript), and must fail.
	if w > 0 && len(vals) >= 2 {
		for _, kRows := range []int{0, 1 + len(junk)%(len(vals)-1)} {
			target := k.New()
			err := libDecodeColumn(target.Column(), want.B[:kRows*w], len(vals))
			tr.line("%s|dec-rows%d-of-%d|%s", id, kRows, len(vals), errClass(err))
			if err == nil || isPanic(err) {
				fail("%s: DecodeColumn of %d complete rows where %d were announced returned %v", k.T.Name, kRows, len(vals), err)
			}
		}
	}
	// Short input.
	if len(want.B) > 0 {
		cut := len(want.B) - 1 - (len(arbitrary) % min(len(want.B), 5))
		if cut < 0 {
			cut = 0
		}
		target := k.New()
		err := libDecodeColumn(target.Column(), want.B[:cut], len(vals))
		tr.line("%s|dec-short%d|%s", id, cut, errClass(err))
		if err == nil || isPanic(err) {
			fail("%s: DecodeColumn of %d of %d bytes returned %v", k.T.Name, cut, len(want.B), err)
		}
	}
}

func TestC15Differential(t *testing.T) {
	st := stats.G()
	tr := openTranscript()
	defer tr.close()
	kinds := dualKinds()
	if len(kinds) < 30 {
		t.Fatalf("harness: only %d dual codec kinds", len(kinds))
	}
	// Exhaustive element values for 8- and 16-bit types (one column holding every value).
	for _, k := range kinds {
		if k.T.Width > 2 {
			continue
		}
		n := 1 << (8 * k.T.Width)
		var vals []ref.Val
		for v := 0; v < n; v++ {
			if k.Scalar == "Bool" && v > 1 {
				break
			}
			b := []byte{byte(v), byte(v >> 8)}
			vals = append(vals, b[:k.T.Width])
		}
		all := make([]byte, 0, n*k.T.Width)
		for v := 0; v < n; v++ {
			b := []byte{byte(v), byte(v >> 8)}
			all = append(all, b[:k.T.Width]...)
		}
		failed := ""
		c15case(func(f string, a ...any) { failed = fmt.Sprintf(f, a...) }, tr, k, vals, []byte{1, 2, 3}, all[:n*k.T.Width], "exhaustive")
		if failed != "" {
			p := st.Violate("purego-differential", failed, []byte(k.Key()))
			t.Fatalf("C15 %s (replay %s)", failed, p)
		}
		st.Enumerated(int64(len(vals)), int64(len(vals)))
	}
	// Every dual codec once with row counts beyond and off the chunk sizes codecs may work in.
	for ki, k := range kinds {
		for _, rows := range []int{4097, 8193, 10000} {
			var vals []ref.Val
			for i := 0; i < rows; i++ {
				vals = append(vals, k.Value.Example(1000*ki+i%991+1))
			}
			failed := ""
			c15case(func(f string, a ...any) {
				if failed == "" {
					failed = fmt.Sprintf(f, a...)
				}
			}, tr, k, vals, []byte{9, 8, 7, 6, 5}, nil, fmt.Sprintf("rows%d", rows))
			if failed != "" {
				p := st.Violate("purego-differential", failed, []byte(k.Key()))
				t.Fatalf("C15 %s (replay %s)", failed, p)
			}
			st.Enumerated(1, 1)
		}
	}
	st.Exhaustive("every element value of the 8- and 16-bit dual codecs; every dual codec at 4097, 8193 and 10000 rows")
	rapid.Check(t, func(rt *rapid.T) {
		k := kinds[rapid.IntRange(0, len(kinds)-1).Draw(rt, "kind")]
		rows := rapid.OneOf(rapid.IntRange(0, 5), rapid.IntRange(0, 40), rapid.IntRange(0, 40), rapid.IntRange(0, 40), rapid.SampledFrom([]int{8, 16, 24, 32, 40, 64, 128}),
			// rarely: row counts around the chunk sizes a codec may work in
			rapid.OneOf(rapid.IntRange(0, 40), rapid.IntRange(0, 40), rapid.IntRange(0, 40), rapid.SampledFrom([]int{1023, 1024, 1025, 4095, 4096, 4097, 5000, 8191, 8192, 8193}))).Draw(rt, "rows")
		var vals []ref.Val
		if rows > 200 {
			seed := rapid.IntRange(1, 1<<30).Draw(rt, "values-seed")
			for i := 0; i < rows; i++ {
				vals = append(vals, k.Value.Example(seed+i))
			}
		} else {
			vals = gen.DrawRows(rt, k, rows)
		}
		junk := rapid.SliceOfN(rapid.Byte(), 1, 23).Draw(rt, "junk")
		arb := rapid.SliceOfN(rapid.Byte(), 0, 96).Draw(rt, "arbitrary")
		c15case(func(f string, a ...any) { rt.Fatalf(f, a...) }, tr, k, vals, junk, arb, "random")
		st.Case(stats.Hash("c15", k.Key(), encodeRefColumn(k.T, vals), junk, arb), true, func() any {
			return map[string]any{"kind": "dual-codec-case", "type": k.T.Name, "rows": rows, "junk_prefix": len(junk), "arbitrary_bytes": len(arb), "ops": "enc-empty, enc-junk, write, write-junk, write-two, dec-used-reader, dec-rows-k-of-n, dec-fresh, dec-reset, dec-compressed, dec-arbitrary, dec-short"}
		})
		st.Label("codec:" + k.Scalar)
	})
	st.Label("variant:" + os.Getenv("VERIF_VARIANT"))
}
