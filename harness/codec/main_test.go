package codec

import (
	"testing"

	"verif/harness/stats"
)

func TestMain(m *testing.M) { stats.Main(m) }
