package codec

// C14 — the vectored writer emits exactly what was chained, once, in order.

import (
	"bytes"
	"errors"
	"fmt"
	"testing"

	"github.com/ClickHouse/ch-go/proto"
	"pgregory.net/rapid"

	"verif/harness/gen"
	"verif/harness/ref"
	"verif/harness/stats"
)

// sink is the io.Writer under the proto.Writer.
type sink struct {
	got      []byte
	failAt   int  // fail once total accepted bytes would exceed failAt (-1: never)
	short    bool // on failure accept the part that fits and report a short write with error
	accepted int
	calls    int
}

var errSink = errors.New("sink failure")

func (s *sink) Write(p []byte) (int, error) {
	s.calls++
	if s.failAt >= 0 && s.accepted+len(p) > s.failAt {
		n := 0
		if s.short {
			n = s.failAt - s.accepted
			if n < 0 {
				n = 0
			}
		}
		s.got = append(s.got, p[:n]...)
		s.accepted += n
		s.failAt = -1 // fail once; the next flush works again
		return n, errSink
	}
	s.got = append(s.got, p...)
	s.accepted += len(p)
	return len(p), nil
}

type wop struct {
	Kind string // buf | write | flush | flushfail | flushshort
	N    int
	Seed uint64
}

func (o wop) String() string {
	if o.Kind == "buf" || o.Kind == "write" {
		return fmt.Sprintf("%s(%d)", o.Kind, o.N)
	}
	if o.Kind == "flush" || o.Kind == "reset" {
		return o.Kind
	}
	if o.Kind == "nested" {
		return fmt.Sprintf("nested(%d,%d)", o.N, o.N+2)
	}
	return fmt.Sprintf("%s(after %d)", o.Kind, o.N)
}

// runWriterOps executes ops against proto.Writer and the model.
func runWriterOps(ops []wop, mutateAfterFlush bool) error {
	s := &sink{failAt: -1}
	w := proto.NewWriter(s, new(proto.Buffer))
	var pending []byte   // model: everything chained since the last flush
	var delivered []byte // model: everything the sink must have received so far
	var chained [][]byte // slices handed to ChainWrite since the last flush
	for i, op := range ops {
		switch op.Kind {
		case "buf":
			data := gen.Expand(op.Seed+uint64(i), op.N)
			w.ChainBuffer(func(b *proto.Buffer) { b.PutRaw(data) })
			pending = append(pending, data...)
		case "write":
			data := gen.Expand(op.Seed+uint64(i)*7, op.N)
			w.ChainWrite(data)
			chained = append(chained, data)
			pending = append(pending, data...)
		case "nested":
			// ChainWrite from inside a ChainBuffer callback, between two appends to the buffer:
			// call order is buffer bytes, chained slice, buffer bytes.
			d1 := gen.Expand(op.Seed+uint64(i)*11, op.N)
			d2 := gen.Expand(op.Seed+uint64(i)*13, op.N+2)
			d3 := gen.Expand(op.Seed+uint64(i)*17, 1)
			w.ChainBuffer(func(b *proto.Buffer) {
				b.PutRaw(d1)
				w.ChainWrite(d2)
				b.PutRaw(d3)
			})
			chained = append(chained, d2)
			pending = append(pending, d1...)
			pending = append(pending, d2...)
			pending = append(pending, d3...)
		case "reset":
			// Discards everything chained and not flushed; the caller owns its slices again.
			w.Reset()
			pending = pending[:0]
			if mutateAfterFlush {
				for _, c := range chained {
					for j := range c {
						c[j] ^= 0xff
					}
				}
			}
			chained = chained[:0]
		case "flush", "flushfail", "flushshort":
			before := len(s.got)
			if op.Kind != "flush" {
				s.failAt = s.accepted + min(op.N, len(pending))
				s.short = op.Kind == "flushshort"
				if len(pending) == 0 {
					s.failAt = -1
				}
			}
			wantFail := s.failAt >= 0 && len(pending) > 0 && s.failAt-s.accepted < len(pending)
			n, err := w.Flush()
			wrote := s.got[before:]
			if wantFail {
				if err == nil {
					return fmt.Errorf("op %d %s: flush to a failing sink returned nil", i, op)
				}
				if int(n) != len(wrote) {
					return fmt.Errorf("op %d %s: Flush reported %d bytes, sink accepted %d", i, op, n, len(wrote))
				}
				if !bytes.HasPrefix(pending, wrote) {
					return fmt.Errorf("op %d %s: failing flush delivered %x, not a prefix of the pending %x", i, op, trunc(wrote), trunc(pending))
				}
			} else {
				if err != nil {
					return fmt.Errorf("op %d %s: flush failed: %v", i, op, err)
				}
				if int(n) != len(pending) || !bytes.Equal(wrote, pending) {
					return fmt.Errorf("op %d %s: flush delivered %d bytes %x, want %d bytes %x (first difference at %d)", i, op, len(wrote), trunc(wrote), len(pending), trunc(pending), firstDiff(wrote, pending))
				}
			}
			s.failAt = -1
			delivered = append(delivered, wrote...)
			pending = pending[:0]
			if mutateAfterFlush {
				for _, c := range chained {
					for j := range c {
						c[j] ^= 0xff
					}
				}
			}
			chained = chained[:0]
		}
	}
	// Final flush: nothing from before the last flush may appear again.
	before := len(s.got)
	if _, err := w.Flush(); err != nil {
		return fmt.Errorf("final flush: %v", err)
	}
	if !bytes.Equal(s.got[before:], pending) {
		return fmt.Errorf("final flush delivered %x, want %x", trunc(s.got[before:]), trunc(pending))
	}
	delivered = append(delivered, pending...)
	if !bytes.Equal(s.got, delivered) {
		return fmt.Errorf("sink content differs from the model at byte %d", firstDiff(s.got, delivered))
	}
	before = len(s.got)
	if n, err := w.Flush(); err != nil || n != 0 || len(s.got) != before {
		return fmt.Errorf("flush of an empty writer wrote %d bytes (err %v)", len(s.got)-before, err)
	}
	return nil
}

func trunc(b []byte) []byte {
	if len(b) > 48 {
		return b[:48]
	}
	return b
}

var c14alphabet = []wop{
	{Kind: "buf", N: 3}, {Kind: "buf", N: 0}, {Kind: "write", N: 5}, {Kind: "write", N: 0}, {Kind: "flush"},
	{Kind: "flushfail", N: 4}, {Kind: "flushshort", N: 4}, {Kind: "reset"}, {Kind: "nested", N: 0}, {Kind: "nested", N: 2},
}

func TestC14ExhaustiveShort(t *testing.T) {
	st := stats.G()
	var n, nt int64
	var seq []wop
	var rec func(depth int)
	maxLen := 5
	if stats.Thorough() && stats.EnvInt("VERIF_SHARD", 0) == 0 {
		maxLen = 6 // the enumeration is the same in every shard: the long one runs in the first only
	}
	fail := false
	rec = func(depth int) {
		if fail {
			return
		}
		if depth > 0 {
			n++
			if nontrivialOps(seq) {
				nt++
			}
			if err := runWriterOps(seq, true); err != nil {
				fail = true
				p := st.Violate("writer-sequence", fmt.Sprintf("%v: %v", seq, err), []byte(fmt.Sprint(seq)))
				t.Errorf("C14 sequence %v: %v (replay %s)", seq, err, p)
				return
			}
		}
		if depth == maxLen {
			return
		}
		for _, op := range c14alphabet {
			seq = append(seq, op)
			rec(depth + 1)
			seq = seq[:len(seq)-1]
		}
	}
	rec(0)
	st.Enumerated(n, nt)
	st.Exhaustive(fmt.Sprintf("all operation sequences of length <= %d over a %d-letter alphabet", maxLen, len(c14alphabet)))
	st.Sample(map[string]any{"kind": "writer-exhaustive", "alphabet": fmt.Sprint(c14alphabet), "sequences": n})
}

func nontrivialOps(ops []wop) bool {
	flushes, mixed, failing := 0, false, false
	sawBuf := false
	for _, o := range ops {
		switch o.Kind {
		case "buf":
			sawBuf = sawBuf || o.N > 0
		case "write", "nested":
			if sawBuf || o.Kind == "nested" {
				mixed = true
			}
		case "reset":
			sawBuf = false
		case "flush":
			flushes++
		default:
			flushes++
			failing = true
		}
	}
	return (mixed && flushes >= 2) || failing
}

func TestC14RandomLong(t *testing.T) {
	st := stats.G()
	sizeGen := rapid.OneOf(rapid.IntRange(0, 16), rapid.IntRange(0, 300), rapid.SampledFrom([]int{4095, 4096, 4097, 65536, 262144}))
	rapid.Check(t, func(rt *rapid.T) {
		n := rapid.IntRange(1, 60).Draw(rt, "ops")
		var ops []wop
		for i := 0; i < n; i++ {
			k := rapid.SampledFrom([]string{"buf", "buf", "buf", "write", "write", "write", "flush", "flush", "flushfail", "flushshort", "reset", "nested"}).Draw(rt, "op")
			ops = append(ops, wop{Kind: k, N: sizeGen.Draw(rt, "size"), Seed: rapid.Uint64().Draw(rt, "seed")})
		}
		if err := runWriterOps(ops, rapid.Bool().Draw(rt, "mutate-after-flush")); err != nil {
			rt.Fatalf("sequence %v: %v", ops, err)
		}
		st.Case(stats.Hash("c14", fmt.Sprint(ops)), nontrivialOps(ops), func() any {
			return map[string]any{"kind": "writer-sequence", "ops": fmt.Sprint(ops)}
		})
	})
}

// Path equivalence: WriteColumn+Flush == EncodeColumn, WriteBlock == EncodeBlock,
// with other content queued before and after.
func TestC14ColumnPaths(t *testing.T) {
	rapid.Check(t, func(rt *rapid.T) {
		cols, rows := drawBlockWide(rt, 3)
		checkPaths(rt, cols, rows)
	})
}

// The same for String-based columns holding values of a mebibyte and more next to short ones
// (a vectored writer may chain such values from the column's own memory).
func TestC14HugeValuePaths(t *testing.T) {
	var strKinds []*gen.Kind
	for _, name := range []string{"String|X|String", "Array(String)|Array(X)|String", "Nullable(String)|Nullable(X)|String"} {
		if k := gen.ByName[name]; k != nil {
			strKinds = append(strKinds, k)
		}
	}
	if len(strKinds) == 0 {
		t.Fatal("harness: no String kinds")
	}
	rapid.Check(t, func(rt *rapid.T) {
		k := strKinds[rapid.IntRange(0, len(strKinds)-1).Draw(rt, "kind")]
		n := rapid.IntRange(1, 4).Draw(rt, "rows")
		rows := gen.DrawRows(rt, k, n)
		for h := rapid.IntRange(1, 2).Draw(rt, "huge-values"); h > 0; h-- {
			at := rapid.IntRange(0, n-1).Draw(rt, "huge-at")
			size := rapid.SampledFrom([]int{1<<20 - 1, 1 << 20, 1<<20 + 1, 1<<20 + 70_000, 3 << 20}).Draw(rt, "huge-bytes")
			v := gen.Expand(rapid.Uint64().Draw(rt, "huge-seed"), size)
			switch k.Shape {
			case "X":
				rows[at] = v
			case "Array(X)":
				rows[at] = []ref.Val{[]byte("before"), v, []byte("after")}
			case "Nullable(X)":
				rows[at] = ref.Null{V: v}
			}
		}
		cols := []colSpec{{Name: "s", Kind: k, Rows: rows}}
		if rapid.Bool().Draw(rt, "second-column") {
			k2 := gen.DrawKind(rt, "kind2")
			cols = append(cols, colSpec{Name: "other", Kind: k2, Rows: gen.DrawRows(rt, k2, n)})
		}
		checkPaths(rt, cols, n)
		stats.G().Label("huge-values")
	})
}

// The same for LowCardinality columns whose dictionary crosses a key-width boundary (the
// vectored path picks the key slice by width).
func TestC14LargeDictionaryPaths(t *testing.T) {
	sizes := []int{200, 254, 255, 256, 257, 300, 1000}
	if stats.Thorough() {
		sizes = append(sizes, 65535, 65536, 65537)
	}
	lcKinds := largeDictKinds()
	rapid.Check(t, func(rt *rapid.T) {
		k, rows, n := drawLargeDict(rt, lcKinds, sizes)
		cols := []colSpec{{Name: "lc", Kind: k, Rows: rows}}
		if rapid.Bool().Draw(rt, "second-column") {
			k2 := gen.DrawKind(rt, "kind2")
			cols = append(cols, colSpec{Name: "other", Kind: k2, Rows: gen.DrawRows(rt, k2, len(rows))})
		}
		checkPaths(rt, cols, len(rows))
		stats.G().Label(fmt.Sprintf("lc-dict:%d", n))
	})
}

func checkPaths(rt *rapid.T, cols []colSpec, rows int) {
	st := stats.G()
	{
		rev := rapid.SampledFrom(blockRevs).Draw(rt, "rev")
		pre := rapid.SliceOfN(rapid.Byte(), 0, 20).Draw(rt, "queued-before")
		post := rapid.SliceOfN(rapid.Byte(), 0, 20).Draw(rt, "queued-after")
		preChain := rapid.Bool().Draw(rt, "before-is-chainwrite")
		preInBuffer := rapid.IntRange(0, 2).Draw(rt, "before-is-in-the-writers-buffer") == 0
		// Block path.
		_, inA := libInput(cols, false)
		colsB, inB := libInput(cols, false)
		blk := proto.Block{Info: proto.BlockInfo{BucketNum: -1}, Columns: len(cols), Rows: rows}
		var want proto.Buffer
		want.PutRaw(pre)
		if err := safely(func() error { return blk.EncodeBlock(&want, rev, inA) }); err != nil {
			rt.Fatalf("EncodeBlock: %v", err)
		}
		want.PutRaw(post)
		s := &sink{failAt: -1}
		w := proto.NewWriter(s, new(proto.Buffer))
		switch {
		case preInBuffer:
			// the writer is created over a buffer that already holds the bytes
			w = proto.NewWriter(s, &proto.Buffer{Buf: append([]byte(nil), pre...)})
		case preChain:
			w.ChainWrite(pre)
		default:
			w.ChainBuffer(func(b *proto.Buffer) { b.PutRaw(pre) })
		}
		if err := safely(func() error { return blk.WriteBlock(w, rev, inB) }); err != nil {
			rt.Fatalf("WriteBlock: %v", err)
		}
		w.ChainBuffer(func(b *proto.Buffer) { b.PutRaw(post) })
		if _, err := w.Flush(); err != nil {
			rt.Fatalf("flush: %v", err)
		}
		if !bytes.Equal(s.got, want.Buf) {
			rt.Fatalf("WriteBlock+Flush differs from EncodeBlock for %v rows=%d rev=%d at byte %d:\nvectored %x\nbuffered %x", typeNames(cols), rows, rev, firstDiff(s.got, want.Buf), trunc(s.got), trunc(want.Buf))
		}
		// Writing must leave the columns as they were: same rows afterwards, and a second write
		// of the same column objects (a retry, the next block without reset) gives the same bytes.
		for i, cb := range colsB {
			vals, err := readAll(cb)
			if err != nil {
				rt.Fatalf("column %d (%s) unreadable after WriteBlock: %v", i, cols[i].Kind.T.Name, err)
			}
			if j, ok := ref.EqualRows(cols[i].Kind.T, vals, cols[i].Rows); !ok {
				rt.Fatalf("WriteBlock+Flush changed the column it wrote: %s (%d rows) row %d is now %s, was %s", cols[i].Kind.T.Name, rows, j,
					ref.Show(cols[i].Kind.T, vals[j]), ref.Show(cols[i].Kind.T, cols[i].Rows[j]))
			}
		}
		{
			s3 := &sink{failAt: -1}
			w3 := proto.NewWriter(s3, new(proto.Buffer))
			w3.ChainBuffer(func(b *proto.Buffer) { b.PutRaw(pre) })
			if err := safely(func() error { return blk.WriteBlock(w3, rev, inB) }); err != nil {
				rt.Fatalf("second WriteBlock of the same columns: %v", err)
			}
			w3.ChainBuffer(func(b *proto.Buffer) { b.PutRaw(post) })
			if _, err := w3.Flush(); err != nil {
				rt.Fatalf("flush: %v", err)
			}
			if !bytes.Equal(s3.got, want.Buf) {
				rt.Fatalf("writing the same columns a second time gives different bytes for %v rows=%d rev=%d (first difference at %d)", typeNames(cols), rows, rev, firstDiff(s3.got, want.Buf))
			}
		}
		// Column path, per column, with Prepare as the block encoder does.
		for _, c := range cols {
			a, b := fill(c.Kind, c.Rows, false), fill(c.Kind, c.Rows, true)
			for _, col := range []proto.Column{a.Column(), b.Column()} {
				if p, ok := col.(proto.Preparable); ok {
					if err := p.Prepare(); err != nil {
						rt.Fatalf("prepare: %v", err)
					}
				}
			}
			var eb proto.Buffer
			eb.PutRaw(pre)
			a.Column().EncodeColumn(&eb)
			s2 := &sink{failAt: -1}
			w2 := proto.NewWriter(s2, new(proto.Buffer))
			if preInBuffer {
				w2 = proto.NewWriter(s2, &proto.Buffer{Buf: append([]byte(nil), pre...)})
			} else {
				w2.ChainBuffer(func(bb *proto.Buffer) { bb.PutRaw(pre) })
			}
			b.Column().WriteColumn(w2)
			if _, err := w2.Flush(); err != nil {
				rt.Fatalf("flush: %v", err)
			}
			if !bytes.Equal(s2.got, eb.Buf) {
				rt.Fatalf("WriteColumn+Flush differs from EncodeColumn for %s (%d rows) at byte %d", c.Kind.T.Name, rows, firstDiff(s2.got, eb.Buf))
			}
		}
		zc := false
		for _, c := range cols {
			zc = zc || c.Kind.ZeroCopy
		}
		st.Case(hashCols(cols, rev, pre, post), rows > 0 && zc, func() any {
			return map[string]any{"kind": "path-equivalence", "types": typeNames(cols), "rows": rows, "rev": rev, "sink_writes": s.calls}
		})
	}
}

// TestEveryKindC14 (run with a small -rapid.checks; outside the ^TestC14 pattern): the
// vectored path against the buffered one for every kind of the catalog.
func TestEveryKindC14(t *testing.T) {
	rapid.Check(t, func(rt *rapid.T) {
		salt := rapid.IntRange(1, 1<<20).Draw(rt, "salt")
		for ki, k := range gen.Kinds {
			rows := []int{3, 1, 0, 5}[(ki+salt)%4]
			if k.Shape == "X" && (ki+salt)%3 == 0 {
				rows = []int{1023, 1024, 1100, 2048}[(ki+salt)%4] // past the sizes a codec may switch strategy at
			}
			var kv []ref.Val
			for i := 0; i < rows; i++ {
				kv = append(kv, k.Value.Example(salt+13*ki+i%251))
			}
			checkPaths(rt, []colSpec{{Name: "k", Kind: k, Rows: kv}}, rows)
		}
		stats.G().Exhaustive(fmt.Sprintf("every one of the %d catalog kinds through both write paths", len(gen.Kinds)))
	})
}
