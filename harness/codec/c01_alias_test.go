package codec

import (
	"bytes"
	"testing"

	"github.com/ClickHouse/ch-go/proto"
	"pgregory.net/rapid"

	"verif/harness/gen"
	"verif/harness/ref"
	"verif/harness/stats"
)

// TestC01AliasedColumns: a column announced under another type name through proto.Alias (the
// documented way to send or receive a domain or wrapper type such as
// SimpleAggregateFunction(any, T) with the column of T) is still that column: what it needs before
// encoding (Prepare), and the state prefix its encoding has, are those of the wrapped column. The
// block the library writes equals the reference encoding of the same rows under the alias name,
// and decodes - by the reference and by the library into an aliased target - to the same rows.
func TestC01AliasedColumns(t *testing.T) {
	st := stats.G()
	var kinds []*gen.Kind
	for _, k := range gen.Kinds {
		if k.Shape == "X" || k.Shape == "LowCardinality(X)" || k.Shape == "Array(X)" || k.Shape == "Nullable(X)" || k.Shape == "Array(LowCardinality(X))" {
			kinds = append(kinds, k)
		}
	}
	rapid.Check(t, func(rt *rapid.T) {
		k := kinds[rapid.IntRange(0, len(kinds)-1).Draw(rt, "kind")]
		if rapid.Bool().Draw(rt, "prefer-stateful") {
			for tries := 0; tries < 20 && !k.Prep && k.T.K != ref.KLowCard; tries++ {
				k = kinds[rapid.IntRange(0, len(kinds)-1).Draw(rt, "kind-again")]
			}
		}
		rev := rapid.SampledFrom(blockRevs).Draw(rt, "rev")
		rows := rapid.IntRange(0, 6).Draw(rt, "rows")
		vals := gen.DrawRows(rt, k, rows)
		alias := "SimpleAggregateFunction(any, " + k.T.Name + ")"
		at := *k.T
		at.Name = alias
		e := &ref.Enc{NoMap: true}
		ref.EncodeBlock(e, rev, &ref.Block{Info: ref.BlockInfo{BucketNum: -1}, Columns: []ref.Column{{Name: "v", T: &at, Rows: vals}}})
		// encode through the alias
		src := fill(k, vals, rapid.Bool().Draw(rt, "bulk"))
		in := proto.Input{{Name: "v", Data: proto.Alias(src.Column(), proto.ColumnType(alias))}}
		blk := proto.Block{Info: proto.BlockInfo{BucketNum: -1}, Columns: 1, Rows: rows}
		var b proto.Buffer
		if err := safely(func() error { return blk.EncodeBlock(&b, rev, in) }); err != nil {
			rt.Fatalf("EncodeBlock of %s announced as %q: %v", k.T.Name, alias, err)
		}
		if !bytes.Equal(b.Buf, e.B) {
			rt.Fatalf("%s announced as %q, %d rows: the block differs from the reference encoding at byte %d\nlib %x\nref %x", k.T.Name, alias, rows, firstDiff(b.Buf, e.B), trunc(b.Buf), trunc(e.B))
		}
		var sink sinkBuf
		w := proto.NewWriter(&sink, new(proto.Buffer))
		if err := safely(func() error {
			if err := blk.WriteBlock(w, rev, in); err != nil {
				return err
			}
			_, err := w.Flush()
			return err
		}); err != nil || !bytes.Equal(sink.b, e.B) {
			rt.Fatalf("%s announced as %q: WriteBlock differs from the reference at byte %d (err %v)", k.T.Name, alias, firstDiff(sink.b, e.B), err)
		}
		// decode into an aliased target
		dst := k.New()
		res := proto.Results{{Name: "v", Data: proto.Alias(dst.Column(), proto.ColumnType(alias))}}
		var got proto.Block
		r := readerOf(e.B)
		if err := safely(func() error { return got.DecodeBlock(r, rev, res) }); err != nil {
			rt.Fatalf("block of %q (%d rows) into a %s column aliased as that type: %v", alias, rows, k.T.Name, err)
		}
		if !atEOF(r) {
			rt.Fatalf("aliased decode left bytes unread")
		}
		out, err := readAll(dst)
		if err != nil {
			rt.Fatalf("reading the aliased target: %v", err)
		}
		if i, ok := ref.EqualRows(k.T, out, vals); !ok {
			rt.Fatalf("%s aliased as %q: row %d differs after the round trip", k.T.Name, alias, i)
		}
		st.Case(stats.Hash("c01alias", k.Key(), e.B, rev), rows > 0 && (k.Prep || k.T.K == ref.KLowCard), func() any {
			return map[string]any{"kind": "aliased-column", "type": k.T.Name, "alias": alias, "rows": rows, "rev": rev}
		})
	})
}
