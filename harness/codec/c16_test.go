package codec

// C16 — reused columns carry nothing over. Model-based state machine per
// column kind: the model is a plain list of values; after every step the
// column's accessors must agree with it, and after every encode step the
// bytes, decoded by the reference decoder, must agree with it.

import (
	"bytes"
	"fmt"
	"strings"
	"testing"
	"time"

	"github.com/ClickHouse/ch-go/proto"
	"pgregory.net/rapid"

	"verif/harness/gen"
	"verif/harness/ref"
	"verif/harness/stats"
)

type c16machine struct {
	rt          *rapid.T
	k           *gen.Kind
	col         gen.Col
	model       []ref.Val
	log         []string
	prepares    int  // Prepare calls since the last reset
	newSince    bool // distinct values appended since the last Prepare
	encAfter2   bool
	decodedInto bool
}

func (m *c16machine) note(f string, a ...any) { m.log = append(m.log, fmt.Sprintf(f, a...)) }

func (m *c16machine) fail(f string, a ...any) {
	m.rt.Fatalf("%s\nkind %s, history: %s", fmt.Sprintf(f, a...), m.k.T.Name, strings.Join(m.log, " → "))
}

func (m *c16machine) checkAccessors() {
	c := m.col.Column()
	var rows int
	if err := safely(func() error { rows = c.Rows(); return nil }); err != nil {
		m.fail("Rows(): %v", err)
	}
	if rows != len(m.model) {
		m.fail("Rows() = %d, model has %d", rows, len(m.model))
	}
	got, err := readAll(m.col)
	if err != nil {
		m.fail("Row: %v", err)
	}
	if j, ok := ref.EqualRows(m.k.T, got, m.model); !ok {
		m.fail("Row(%d) = %s, model has %s", j, ref.Show(m.k.T, got[max(j, 0)]), ref.Show(m.k.T, m.model[max(j, 0)]))
	}
}

func (m *c16machine) prepare() {
	if p, ok := m.col.Column().(proto.Preparable); ok {
		if err := safely(p.Prepare); err != nil {
			m.fail("Prepare: %v", err)
		}
		m.prepares++
		if m.prepares >= 2 && m.newSince {
			m.encAfter2 = true
		}
		m.newSince = false
	}
}

// checkWire decodes column bytes (state prefix + data) by reference.
func (m *c16machine) checkWire(what string, data []byte) {
	d := &ref.Dec{B: data}
	if len(m.model) > 0 {
		if err := ref.DecodeState(d, m.k.T); err != nil {
			m.fail("%s: reference decoder: state prefix: %v\nbytes %x", what, err, data)
		}
	}
	vals, err := ref.DecodeColumn(d, m.k.T, len(m.model))
	if err != nil {
		m.fail("%s: reference decoder rejects the bytes: %v\nbytes %x", what, err, data)
	}
	if d.Left() != 0 {
		m.fail("%s: %d surplus bytes after %d rows\nbytes %x", what, d.Left(), len(m.model), data)
	}
	if j, ok := ref.EqualRows(m.k.T, vals, m.model); !ok {
		m.fail("%s: on the wire row %d is %s, the column holds %s\nbytes %x", what, j, ref.Show(m.k.T, vals[max(j, 0)]), ref.Show(m.k.T, m.model[max(j, 0)]), data)
	}
}

func (m *c16machine) encodeColumn() {
	m.prepare()
	var b proto.Buffer
	c := m.col.Column()
	if err := safely(func() error {
		if len(m.model) > 0 {
			if s, ok := c.(proto.StateEncoder); ok {
				s.EncodeState(&b)
			}
			c.EncodeColumn(&b)
		}
		return nil
	}); err != nil {
		m.fail("EncodeColumn: %v", err)
	}
	m.note("encode")
	m.checkWire("EncodeColumn", b.Buf)
}

func (m *c16machine) writeColumn() {
	m.prepare()
	s := &sink{failAt: -1}
	w := proto.NewWriter(s, new(proto.Buffer))
	c := m.col.Column()
	if err := safely(func() error {
		if len(m.model) > 0 {
			if se, ok := c.(proto.StateEncoder); ok {
				w.ChainBuffer(se.EncodeState)
			}
			c.WriteColumn(w)
		}
		_, err := w.Flush()
		return err
	}); err != nil {
		m.fail("WriteColumn+Flush: %v", err)
	}
	m.note("write")
	m.checkWire("WriteColumn+Flush", s.got)
}

func (m *c16machine) encodeRawBlock(rev int) {
	var b proto.Buffer
	in := proto.Input{{Name: "c", Data: m.col.Column()}}
	blk := proto.Block{Columns: 1, Rows: len(m.model)}
	if err := safely(func() error { return blk.EncodeRawBlock(&b, rev, in) }); err != nil {
		m.fail("EncodeRawBlock: %v", err)
	}
	if _, ok := m.col.Column().(proto.Preparable); ok {
		m.prepares++
		if m.prepares >= 2 && m.newSince {
			m.encAfter2 = true
		}
		m.newSince = false
	}
	m.note("rawblock@%d", rev)
	d := &ref.Dec{B: b.Buf}
	var got ref.Block
	if err := ref.DecodeRawBlock(d, rev, &got); err != nil {
		m.fail("EncodeRawBlock: reference decoder: %v\nbytes %x", err, b.Buf)
	}
	if d.Left() != 0 || len(got.Columns) != 1 {
		m.fail("EncodeRawBlock: %d columns, %d surplus bytes", len(got.Columns), d.Left())
	}
	if got.Columns[0].T.Name != m.k.T.Name {
		m.fail("EncodeRawBlock: type on the wire %q, want %q", got.Columns[0].T.Name, m.k.T.Name)
	}
	if j, ok := ref.EqualRows(m.k.T, got.Columns[0].Rows, m.model); !ok {
		m.fail("EncodeRawBlock: on the wire row %d differs (%d rows on wire, %d in model)", j, len(got.Columns[0].Rows), len(m.model))
	}
}

func encodeRefColumn(t *ref.Type, vals []ref.Val) []byte { return encodeRefColumnBump(t, vals, 0) }

func encodeRefColumnBump(t *ref.Type, vals []ref.Val, bump int) []byte {
	e := &ref.Enc{NoMap: true, LCBump: bump}
	if len(vals) > 0 {
		ref.EncodeState(e, t)
	}
	ref.EncodeColumn(e, t, vals)
	return e.B
}

func libDecodeColumn(col proto.ColResult, data []byte, rows int) error {
	r := readerOf(data)
	return safely(func() error {
		if rows > 0 {
			if s, ok := col.(proto.StateDecoder); ok {
				if err := s.DecodeState(r); err != nil {
					return err
				}
			}
		}
		return col.DecodeColumn(r, rows)
	})
}

func (m *c16machine) decodeValid() {
	rows := gen.RowCount().Draw(m.rt, "decode-rows")
	vals := gen.DrawRows(m.rt, m.k, rows)
	bump := 0
	if m.k.T.HasLC() {
		bump = rapid.IntRange(0, 3).Draw(m.rt, "lc-key-width-bump")
	}
	data := encodeRefColumnBump(m.k.T, vals, bump)
	m.col.Column().Reset()
	if err := libDecodeColumn(m.col.Column(), data, rows); err != nil {
		m.fail("Reset + DecodeColumn of %d valid rows (LowCardinality keys widened by %d): %v", rows, bump, err)
	}
	if len(m.log) > 0 {
		m.decodedInto = true
	}
	m.note("reset+decode(%d)", rows)
	m.model = vals
	m.prepares = 0
	m.newSince = false
	// Same as decoding into a fresh column.
	fresh := m.k.New()
	if err := libDecodeColumn(fresh.Column(), data, rows); err != nil {
		m.fail("harness: fresh decode failed: %v", err)
	}
	fv, _ := readAll(fresh)
	uv, err := readAll(m.col)
	if err != nil {
		m.fail("Row after reset+decode: %v", err)
	}
	if j, ok := ref.EqualRows(m.k.T, fv, uv); !ok {
		m.fail("decode into the reused column differs from decode into a fresh one at row %d", j)
	}
}

// decodeBlock decodes a whole block (possibly with zero rows) into the used column through
// Results.DecodeResult, which is how columns are reused between result blocks.
func (m *c16machine) decodeBlock() {
	rows := gen.RowCount().Draw(m.rt, "block-rows")
	vals := gen.DrawRows(m.rt, m.k, rows)
	rev := rapid.SampledFrom(blockRevs).Draw(m.rt, "rev")
	e := &ref.Enc{NoMap: true}
	if m.k.T.HasLC() {
		e.LCBump = rapid.IntRange(0, 3).Draw(m.rt, "lc-key-width-bump")
	}
	ref.EncodeBlock(e, rev, &ref.Block{Info: ref.BlockInfo{BucketNum: -1}, Columns: []ref.Column{{Name: "c", T: m.k.T, Rows: vals}}})
	res := proto.Results{{Name: "c", Data: m.col.Column()}}
	var b proto.Block
	r := readerOf(e.B)
	if err := safely(func() error { return b.DecodeBlock(r, rev, res) }); err != nil {
		m.fail("DecodeBlock of %d rows into the used column: %v", rows, err)
	}
	if len(m.log) > 0 {
		m.decodedInto = true
	}
	m.note("blockdecode(%d)", rows)
	m.model = vals
	m.prepares = 0
	m.newSince = false
}

func (m *c16machine) decodeFailing() {
	rows := rapid.IntRange(1, 6).Draw(m.rt, "decode-rows")
	vals := gen.DrawRows(m.rt, m.k, rows)
	data := encodeRefColumn(m.k.T, vals)
	if len(data) == 0 {
		m.rt.Skip("empty encoding")
	}
	cut := rapid.IntRange(0, len(data)-1).Draw(m.rt, "cut")
	m.col.Column().Reset()
	err := libDecodeColumn(m.col.Column(), data[:cut], rows)
	if err == nil || isPanic(err) {
		m.fail("DecodeColumn of a truncated column (%d of %d bytes) returned %v", cut, len(data), err)
	}
	m.col.Column().Reset()
	m.note("failed-decode+reset")
	m.model = nil
	m.prepares = 0
	m.newSince = false
}

func TestC16ReuseStateMachine(t *testing.T) {
	st := stats.G()
	rapid.Check(t, func(rt *rapid.T) {
		k := gen.DrawKind(rt, "kind")
		if rapid.IntRange(0, 2).Draw(rt, "prefer-prep") == 0 {
			// Steer towards kinds with Preparable columns (LowCardinality, Enum).
			var preps []*gen.Kind
			for _, x := range gen.Kinds {
				if x.Prep {
					preps = append(preps, x)
				}
			}
			k = preps[rapid.IntRange(0, len(preps)-1).Draw(rt, "prep-kind")]
		}
		// One history in twenty-five is over a String column that now and then gets a value of a
		// mebibyte and more (size thresholds in the encode and vectored-write paths).
		hugeRun := rapid.IntRange(0, 24).Draw(rt, "huge-values") == 0
		if hugeRun {
			k = gen.ByName["String|X|String"]
		}
		m := &c16machine{rt: rt, k: k, col: k.New()}
		steps := 0
		rt.Repeat(map[string]func(*rapid.T){
			"append": func(rt *rapid.T) {
				v := k.Value.Draw(rt, "v")
				if hugeRun && rapid.IntRange(0, 3).Draw(rt, "huge-now") == 0 {
					v = gen.Expand(rapid.Uint64().Draw(rt, "huge-seed"), rapid.SampledFrom([]int{1<<20 - 1, 1 << 20, 1<<20 + 1, 1<<20 + 70_000}).Draw(rt, "huge-bytes"))
				}
				m.col.Append(v)
				m.model = append(m.model, v)
				m.newSince = true
				m.note("append")
			},
			"appendArr": func(rt *rapid.T) {
				n := rapid.IntRange(0, 4).Draw(rt, "n")
				vs := gen.DrawRows(rt, k, n)
				m.col.AppendBulk(vs)
				m.model = append(m.model, vs...)
				m.newSince = m.newSince || n > 0
				m.note("appendArr(%d)", n)
			},
			"reset": func(rt *rapid.T) {
				m.col.Column().Reset()
				m.model = nil
				m.prepares = 0
				m.newSince = false
				m.note("reset")
			},
			"overwriteInPlace": func(rt *rapid.T) {
				// a direct write into the column's memory (no Reset, no Append): caches get no signal
				ow, ok := m.col.(gen.Overwriter)
				if !ok || len(m.model) == 0 {
					return
				}
				i := rapid.IntRange(0, len(m.model)-1).Draw(rt, "row")
				v := k.Value.Draw(rt, "v")
				if !ow.Overwrite(i, v) {
					return
				}
				m.model[i] = v
				m.newSince = true
				m.note("overwrite[%d]", i)
			},
			"prepare": func(rt *rapid.T) {
				if _, ok := m.col.Column().(proto.Preparable); !ok {
					rt.Skip("not preparable")
				}
				m.prepare()
				m.note("prepare")
			},
			"encode":      func(rt *rapid.T) { m.encodeColumn() },
			"writeColumn": func(rt *rapid.T) { m.writeColumn() },
			"rawBlock":    func(rt *rapid.T) { m.encodeRawBlock(rapid.SampledFrom(blockRevs).Draw(rt, "rev")) },
			"decode":      func(rt *rapid.T) { m.decodeValid() },
			"decodeBlock": func(rt *rapid.T) { m.decodeBlock() },
			"failedDecode": func(rt *rapid.T) {
				m.decodeFailing()
			},
			"": func(rt *rapid.T) {
				steps++
				m.checkAccessors()
			},
		})
		st.Case(stats.Hash("c16", k.Key(), strings.Join(m.log, ",")), m.encAfter2 || m.decodedInto, func() any {
			return map[string]any{"kind": "reuse-history", "type": k.T.Name, "history": strings.Join(m.log, " → ")}
		})
		if m.encAfter2 {
			st.Label("encode-after-2-prepares-with-new-values")
		}
		if m.decodedInto {
			st.Label("decode-into-used-column")
		}
		if k.Prep {
			st.Label("preparable-kind")
		}
	})
}

// ---- enum / timestamp re-inference ---------------------------------------------

type enumDefn struct {
	typ   string
	names map[string]int64
	width int
}

var c16enumDefs = []enumDefn{
	{"Enum8('a' = 1, 'b' = 2)", map[string]int64{"a": 1, "b": 2}, 1},
	{"Enum8('b' = 1, 'c' = 3)", map[string]int64{"b": 1, "c": 3}, 1},
	{"Enum16('a' = 300, 'z' = -5)", map[string]int64{"a": 300, "z": -5}, 2},
	{"Enum8('q' = 2)", map[string]int64{"q": 2}, 1},
	// the same members under the other base (ALTER ... MODIFY COLUMN widens an enum this way)
	{"Enum16('a' = 1, 'b' = 2)", map[string]int64{"a": 1, "b": 2}, 2},
	{"Enum16('q' = 2)", map[string]int64{"q": 2}, 2},
	{"Enum8('a' = 44, 'z' = -5)", map[string]int64{"a": 44, "z": -5}, 1},
}

// A ColEnum that is inferred again with another definition must behave as a
// column of that definition: names of the previous one are no longer
// encodable, raw values of the previous one no longer decode.
func TestC16EnumReinfer(t *testing.T) {
	st := stats.G()
	rapid.Check(t, func(rt *rapid.T) {
		col := new(proto.ColEnum)
		var cur *enumDefn
		var model []string
		var log []string
		reinfers := 0
		infer := func(rt *rapid.T) {
			d := &c16enumDefs[rapid.IntRange(0, len(c16enumDefs)-1).Draw(rt, "def")]
			if err := col.Infer(proto.ColumnType(d.typ)); err != nil {
				rt.Fatalf("Infer(%q): %v", d.typ, err)
			}
			if cur != nil && cur != d {
				reinfers++
			}
			cur = d
			log = append(log, "infer "+d.typ)
		}
		infer(rt)
		rt.Repeat(map[string]func(*rapid.T){
			"infer": infer,
			"append": func(rt *rapid.T) {
				name := rapid.SampledFrom([]string{"a", "b", "c", "z", "q"}).Draw(rt, "name")
				col.Append(name)
				model = append(model, name)
				log = append(log, "append "+name)
			},
			"reset": func(rt *rapid.T) {
				col.Reset()
				model = nil
				log = append(log, "reset")
			},
			"encode": func(rt *rapid.T) {
				wantErr := false
				var want []byte
				for _, n := range model {
					v, ok := cur.names[n]
					if !ok {
						wantErr = true
						break
					}
					want = append(want, byte(v))
					if cur.width == 2 {
						want = append(want, byte(v>>8))
					}
				}
				err := safely(col.Prepare)
				log = append(log, "encode")
				if wantErr {
					if err == nil {
						var b proto.Buffer
						col.EncodeColumn(&b)
						rt.Fatalf("column of type %s holds a value that type does not define, yet Prepare succeeds and writes %x\nhistory: %s", cur.typ, b.Buf, strings.Join(log, " → "))
					}
					return
				}
				if err != nil {
					rt.Fatalf("Prepare: %v\nhistory: %s", err, strings.Join(log, " → "))
				}
				var b proto.Buffer
				col.EncodeColumn(&b)
				if !bytes.Equal(b.Buf, want) {
					rt.Fatalf("type %s values %v encode to %x, want %x\nhistory: %s", cur.typ, model, b.Buf, want, strings.Join(log, " → "))
				}
			},
			"decode": func(rt *rapid.T) {
				raw := int64(rapid.SampledFrom([]int{1, 2, 3, -5, 300, 7}).Draw(rt, "raw"))
				if cur.width == 1 && (raw > 127 || raw < -128) {
					raw = 1
				}
				data := []byte{byte(raw)}
				if cur.width == 2 {
					data = append(data, byte(raw>>8))
				}
				wantName, defined := "", false
				for n, v := range cur.names {
					if v == raw {
						wantName, defined = n, true
					}
				}
				col.Reset()
				err := libDecodeColumn(col, data, 1)
				log = append(log, fmt.Sprintf("reset+decode raw %d", raw))
				if !defined {
					if err == nil {
						rt.Fatalf("type %s does not define %d, yet it decodes to %q\nhistory: %s", cur.typ, raw, col.Row(0), strings.Join(log, " → "))
					}
					col.Reset()
					model = nil
					return
				}
				if err != nil {
					rt.Fatalf("decode of %d as %s: %v\nhistory: %s", raw, cur.typ, err, strings.Join(log, " → "))
				}
				if col.Rows() != 1 || col.Row(0) != wantName {
					rt.Fatalf("decode of %d as %s gives %q want %q\nhistory: %s", raw, cur.typ, col.Row(0), wantName, strings.Join(log, " → "))
				}
				model = []string{wantName}
			},
			"": func(rt *rapid.T) {
				if col.Rows() != len(model) {
					rt.Fatalf("Rows() = %d, model %d\nhistory: %s", col.Rows(), len(model), strings.Join(log, " → "))
				}
				if string(col.Type()) != cur.typ {
					rt.Fatalf("Type() = %q want %q", col.Type(), cur.typ)
				}
			},
		})
		st.Case(stats.Hash("c16e", strings.Join(log, ",")), reinfers > 0, func() any {
			return map[string]any{"kind": "enum-reinfer-history", "history": strings.Join(log, " → ")}
		})
	})
}

// A ColDateTime64 / ColDateTime reused across results whose precision or zone differ
// must behave as a column of the type it was last inferred with.
func TestC16DateTimeReinfer(t *testing.T) {
	st := stats.G()
	rapid.Check(t, func(rt *rapid.T) {
		col := new(proto.ColDateTime64)
		if rapid.Bool().Draw(rt, "created-with-precision") {
			col.WithPrecision(proto.Precision(rapid.IntRange(0, 9).Draw(rt, "initial-precision")))
		}
		cur := -1
		var log []string
		changes := 0
		infer := func(rt *rapid.T) {
			p := rapid.IntRange(0, 9).Draw(rt, "precision")
			tn := fmt.Sprintf("DateTime64(%d)", p)
			if rapid.Bool().Draw(rt, "with-zone") {
				tn = fmt.Sprintf("DateTime64(%d, 'UTC')", p)
			}
			if err := col.Infer(proto.ColumnType(tn)); err != nil {
				rt.Fatalf("Infer(%q): %v", tn, err)
			}
			if cur >= 0 && cur != p {
				changes++
			}
			cur = p
			log = append(log, "infer "+tn)
		}
		infer(rt)
		tps := func() int64 {
			v := int64(1)
			for i := 0; i < cur; i++ {
				v *= 10
			}
			return v
		}
		rt.Repeat(map[string]func(*rapid.T){
			"infer": infer,
			"decode": func(rt *rapid.T) {
				// the way Results.DecodeResult reuses a column: Infer was called, then Reset, then DecodeColumn
				raw := rapid.Int64Range(-2208988800*tps(), 9223372035*tps()).Draw(rt, "raw")
				col.Reset()
				var b [8]byte
				for i := range b {
					b[i] = byte(uint64(raw) >> (8 * i))
				}
				if err := libDecodeColumn(col, b[:], 1); err != nil {
					rt.Fatalf("decode: %v", err)
				}
				log = append(log, fmt.Sprintf("reset+decode %d", raw))
				got := col.Row(0)
				sec := raw / tps()
				rem := raw % tps()
				if rem < 0 {
					sec--
					rem += tps()
				}
				wantNs := rem * (1_000_000_000 / tps())
				if got.Unix() != sec || int64(got.Nanosecond()) != wantNs {
					rt.Fatalf("column last inferred as DateTime64(%d) decodes %d ticks as %d.%09d, want %d.%09d\nhistory: %s", cur, raw, got.Unix(), got.Nanosecond(), sec, wantNs, strings.Join(log, " → "))
				}
				if !strings.HasPrefix(string(col.Type()), fmt.Sprintf("DateTime64(%d", cur)) {
					rt.Fatalf("Type() = %q after Infer with precision %d", col.Type(), cur)
				}
			},
			"append-encode": func(rt *rapid.T) {
				sec := rapid.Int64Range(-2208988800, 9223372035).Draw(rt, "sec")
				col.Reset()
				col.Append(time.Unix(sec, 0))
				var buf proto.Buffer
				col.EncodeColumn(&buf)
				want := sec * tps()
				var got int64
				for i := 0; i < 8; i++ {
					got |= int64(buf.Buf[i]) << (8 * i)
				}
				log = append(log, fmt.Sprintf("reset+append+encode %d", sec))
				if got != want {
					rt.Fatalf("column last inferred as DateTime64(%d) encodes second %d as %d ticks, want %d\nhistory: %s", cur, sec, got, want, strings.Join(log, " → "))
				}
			},
		})
		st.Case(stats.Hash("c16dt", strings.Join(log, ",")), changes > 0, func() any {
			return map[string]any{"kind": "datetime64-reinfer-history", "history": strings.Join(log, " → ")}
		})
	})
}
