package codec

import (
	"fmt"
	"testing"

	"github.com/ClickHouse/ch-go/proto"
	"pgregory.net/rapid"

	"verif/harness/gen"
	"verif/harness/ref"
	"verif/harness/stats"
)

// TestC16RawInputReuse: a caller-built ColLowCardinalityRaw (dictionary column + AppendKey, the
// way the raw column is used as input) reused over several blocks with Reset in between. What it
// encodes is, every time, its current logical contents: row i is dictionary[key i]. Judged by the
// reference decoder on the bytes; the key width on the wire is the library's business, the rows
// are not.
func TestC16RawInputReuse(t *testing.T) {
	st := stats.G()
	var idxKinds []*gen.Kind
	for _, k := range gen.Kinds {
		if k.Shape == "LowCardinality(X)" && k.T.K == ref.KLowCard {
			el := k.T.Elem[0]
			if ik, ok := gen.ByName[el.Name+"|X|"+k.Scalar]; ok && (el.K == ref.KFixed || el.K == ref.KString) && !el.JSON {
				idxKinds = append(idxKinds, ik)
			}
		}
	}
	if len(idxKinds) == 0 {
		t.Fatal("harness: no dictionary kinds")
	}
	widths := []proto.CardinalityKey{proto.KeyUInt8, proto.KeyUInt16, proto.KeyUInt32, proto.KeyUInt64}
	capOf := []int{1 << 8, 1 << 16, 1 << 30, 1 << 30}
	rapid.Check(t, func(rt *rapid.T) {
		ik := idxKinds[rapid.IntRange(0, len(idxKinds)-1).Draw(rt, "dictionary-kind")]
		wi := rapid.IntRange(0, 3).Draw(rt, "key-width")
		ic := ik.New()
		col := &proto.ColLowCardinalityRaw{Index: ic.Column(), Key: widths[wi]}
		lt := ref.LowCard(ik.T)
		rounds := rapid.IntRange(2, 4).Draw(rt, "blocks")
		var hist []string
		for bi := 0; bi < rounds; bi++ {
			if bi > 0 {
				col.Reset()
			}
			dn := rapid.SampledFrom([]int{1, 2, 5, 255, 256, 257, 300, 1000}).Draw(rt, "dictionary-size")
			dn = min(dn, capOf[wi])
			dict := gen.DrawRows(rt, ik, dn)
			ic.AppendBulk(dict)
			rows := rapid.SampledFrom([]int{0, 1, 3, 17, 300}).Draw(rt, "rows")
			var want []ref.Val
			for i := 0; i < rows; i++ {
				k := rapid.IntRange(0, dn-1).Draw(rt, "key")
				if i == 0 {
					k = dn - 1 // the widest key of this dictionary is used
				}
				col.AppendKey(k)
				want = append(want, dict[k])
			}
			hist = append(hist, fmt.Sprintf("dict=%d rows=%d", dn, rows))
			if got := col.Rows(); got != rows {
				rt.Fatalf("block %d (%v): column built with %d-bit keys reports %d rows after %d AppendKey calls", bi+1, hist, 8<<wi, got, rows)
			}
			if rows == 0 {
				continue
			}
			for _, path := range []string{"encode", "write"} {
				var b proto.Buffer
				if err := safely(func() error {
					col.EncodeState(&b)
					if path == "encode" {
						col.EncodeColumn(&b)
						return nil
					}
					var sink sinkBuf
					w := proto.NewWriter(&sink, new(proto.Buffer))
					col.WriteColumn(w)
					_, err := w.Flush()
					b.Buf = append(b.Buf, sink.b...)
					return err
				}); err != nil {
					rt.Fatalf("block %d (%v) %s: %v", bi+1, hist, path, err)
				}
				d := &ref.Dec{B: b.Buf}
				if err := ref.DecodeState(d, lt); err != nil {
					rt.Fatalf("block %d (%v) %s: state does not parse: %v", bi+1, hist, path, err)
				}
				got, err := ref.DecodeColumn(d, lt, rows)
				if err != nil || d.Left() != 0 {
					rt.Fatalf("block %d (%v) %s: %s of %d rows over a dictionary of %d does not parse: %v (%d bytes left)", bi+1, hist, path, lt.Name, rows, dn, err, d.Left())
				}
				if i, ok := ref.EqualRows(lt, got, want); !ok {
					rt.Fatalf("block %d (%v) %s: column created with %d-bit keys, reset and refilled: row %d on the wire is %v, dictionary[key] is %v", bi+1, hist, path, 8<<wi, i, got[i], want[i])
				}
			}
		}
		st.Case(stats.Hash("c16raw", ik.Key(), wi, fmt.Sprint(hist)), true, func() any {
			return map[string]any{"kind": "raw-low-cardinality-input-reuse", "dictionary": ik.T.Name, "key_bits": 8 << wi, "blocks": hist}
		})
	})
}

type sinkBuf struct{ b []byte }

func (s *sinkBuf) Write(p []byte) (int, error) { s.b = append(s.b, p...); return len(p), nil }
