package codec

import (
	"fmt"
	"testing"

	"github.com/ClickHouse/ch-go/proto"
	"pgregory.net/rapid"

	"verif/harness/gen"
	"verif/harness/ref"
	"verif/harness/stats"
)

// TestC16RawInputReuse: a caller-built ColLowCardinalityRaw (dictionary column + AppendKey, the
// way the raw column is used as input) reused over several blocks with Reset in between. What it
// encodes is, every time, its current logical contents: row i is dictionary[key i]. Judged by the
// reference decoder on the bytes; the key width on the wire is the library's business, the rows
// are not.
func TestC16RawInputReuse(t *testing.T) {
	st := stats.G()
	var idxKinds []*gen.Kind
	for _, k := range gen.Kinds {
		if k.Shape == "LowCardinality(X)" && k.T.K == ref.KLowCard {
			el := k.T.Elem[0]
			if ik, ok := gen.ByName[el.Name+"|X|"+k.Scalar]; ok && (el.K == ref.KFixed || el.K == ref.KString) && !el.JSON {
				idxKinds = append(idxKinds, ik)
			}
		}
	}
	if len(idxKinds) == 0 {
		t.Fatal("harness: no dictionary kinds")
	}
	widths := []proto.CardinalityKey{proto.KeyUInt8, proto.KeyUInt16, proto.KeyUInt32, proto.KeyUInt64}
	capOf := []int{1 << 8, 1 << 16, 1 << 30, 1 << 30}
	rapid.Check(t, func(rt *rapid.T) {
		ik := idxKinds[rapid.IntRange(0, len(idxKinds)-1).Draw(rt, "dictionary-kind")]
		wi := rapid.IntRange(0, 3).Draw(rt, "key-width")
		ic := ik.New()
		col := &proto.ColLowCardinalityRaw{Index: ic.Column(), Key: widths[wi]}
		lt := ref.LowCard(ik.T)
		rounds := rapid.IntRange(2, 4).Draw(rt, "blocks")
		var hist []string
		for bi := 0; bi < rounds; bi++ {
			if rapid.IntRange(0, 2).Draw(rt, "decode-instead") == 0 {
				// The same object takes a block from the wire in between (reset, then decoded, as a result
				// target is): keys of whatever width the sender chose; afterwards it holds that block's rows.
				dn := rapid.SampledFrom([]int{1, 5, 255, 256, 257, 300}).Draw(rt, "wire-dictionary-size")
				rows := rapid.SampledFrom([]int{1, 3, 17, 303}).Draw(rt, "wire-rows")
				dict := gen.DrawRows(rt, ik, dn)
				var want []ref.Val
				for i := 0; i < rows; i++ {
					want = append(want, dict[(i*7+dn-1)%dn])
				}
				e := &ref.Enc{NoMap: true, LCBump: rapid.IntRange(0, 2).Draw(rt, "wire-key-bump")}
				ref.EncodeState(e, lt)
				ref.EncodeColumn(e, lt, want)
				r := readerOf(e.B)
				col.Reset()
				if err := safely(func() error {
					if err := col.DecodeState(r); err != nil {
						return err
					}
					return col.DecodeColumn(r, rows)
				}); err != nil {
					rt.Fatalf("block %d (%v): decoding %d rows over a dictionary of %d into the reused raw column: %v", bi+1, hist, rows, dn, err)
				}
				hist = append(hist, fmt.Sprintf("decoded dict=%d rows=%d", dn, rows))
				if !atEOF(r) || col.Rows() != rows {
					rt.Fatalf("block %d (%v): after decoding, the raw column reports %d rows (block has %d), stream consumed: %v", bi+1, hist, col.Rows(), rows, atEOF(r))
				}
				var b proto.Buffer
				col.EncodeState(&b)
				col.EncodeColumn(&b)
				d := &ref.Dec{B: b.Buf}
				_ = ref.DecodeState(d, lt)
				got, err := ref.DecodeColumn(d, lt, rows)
				if err != nil || d.Left() != 0 {
					rt.Fatalf("block %d (%v): re-encoding the decoded raw column does not parse: %v (%d bytes left)", bi+1, hist, err, d.Left())
				}
				if i, ok := ref.EqualRows(lt, got, want); !ok {
					rt.Fatalf("block %d (%v): decoded raw column re-encodes row %d as %v, the block had %v", bi+1, hist, i, got[i], want[i])
				}
				continue
			}
			// The caller may pick another key width for the next block, before or after the reset.
			if bi > 0 && rapid.Bool().Draw(rt, "other-key-width") {
				nw := rapid.IntRange(0, 3).Draw(rt, "new-key-width")
				if rapid.Bool().Draw(rt, "set-before-reset") {
					col.Key = widths[nw]
					col.Reset()
				} else {
					col.Reset()
					col.Key = widths[nw]
				}
				wi = nw
			} else {
				col.Reset()
				col.Key = widths[wi] // (a decode in between may have changed it)
			}
			dn := rapid.SampledFrom([]int{1, 2, 5, 255, 256, 257, 300, 1000}).Draw(rt, "dictionary-size")
			dn = min(dn, capOf[wi])
			dict := gen.DrawRows(rt, ik, dn)
			ic.AppendBulk(dict)
			rows := rapid.SampledFrom([]int{0, 1, 3, 17, 300}).Draw(rt, "rows")
			var want []ref.Val
			for i := 0; i < rows; i++ {
				k := rapid.IntRange(0, dn-1).Draw(rt, "key")
				if i == 0 {
					k = dn - 1 // the widest key of this dictionary is used
				}
				col.AppendKey(k)
				want = append(want, dict[k])
			}
			hist = append(hist, fmt.Sprintf("dict=%d rows=%d", dn, rows))
			if got := col.Rows(); got != rows {
				rt.Fatalf("block %d (%v): column built with %d-bit keys reports %d rows after %d AppendKey calls", bi+1, hist, 8<<wi, got, rows)
			}
			if rows == 0 {
				continue
			}
			for _, path := range []string{"encode", "write"} {
				var b proto.Buffer
				if err := safely(func() error {
					col.EncodeState(&b)
					if path == "encode" {
						col.EncodeColumn(&b)
						return nil
					}
					var sink sinkBuf
					w := proto.NewWriter(&sink, new(proto.Buffer))
					col.WriteColumn(w)
					_, err := w.Flush()
					b.Buf = append(b.Buf, sink.b...)
					return err
				}); err != nil {
					rt.Fatalf("block %d (%v) %s: %v", bi+1, hist, path, err)
				}
				d := &ref.Dec{B: b.Buf}
				if err := ref.DecodeState(d, lt); err != nil {
					rt.Fatalf("block %d (%v) %s: state does not parse: %v", bi+1, hist, path, err)
				}
				got, err := ref.DecodeColumn(d, lt, rows)
				if err != nil || d.Left() != 0 {
					rt.Fatalf("block %d (%v) %s: %s of %d rows over a dictionary of %d does not parse: %v (%d bytes left)", bi+1, hist, path, lt.Name, rows, dn, err, d.Left())
				}
				if i, ok := ref.EqualRows(lt, got, want); !ok {
					rt.Fatalf("block %d (%v) %s: column created with %d-bit keys, reset and refilled: row %d on the wire is %v, dictionary[key] is %v", bi+1, hist, path, 8<<wi, i, got[i], want[i])
				}
			}
		}
		st.Case(stats.Hash("c16raw", ik.Key(), wi, fmt.Sprint(hist)), true, func() any {
			return map[string]any{"kind": "raw-low-cardinality-input-reuse", "dictionary": ik.T.Name, "key_bits": 8 << wi, "blocks": hist}
		})
	})
}

type sinkBuf struct{ b []byte }

func (s *sinkBuf) Write(p []byte) (int, error) { s.b = append(s.b, p...); return len(p), nil }
