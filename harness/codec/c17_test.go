package codec

// C17 — protocol messages encode and decode symmetrically at every revision,
// byte-identical to the independent reference encoder (which carries its own
// revision-threshold table).

import (
	"bytes"
	"fmt"
	"math"
	"sort"
	"testing"

	"github.com/ClickHouse/ch-go/proto"
	"go.opentelemetry.io/otel/trace"
	"pgregory.net/rapid"

	"verif/harness/ref"
	"verif/harness/stats"
)

var thresholds = []int{50264, 51903, 54058, 54060, 54372, 54401, 54406, 54410, 54420, 54429, 54441, 54442, 54443, 54447,
	54448, 54449, 54451, 54453, 54454, 54458, 54459, 54460, 54475}

func quickRevisions() []int {
	set := map[int]bool{50000: true, 54500: true, 60000: true}
	for i, t := range thresholds {
		set[t-1], set[t], set[t+1] = true, true, true
		if i > 0 {
			set[(thresholds[i-1]+t)/2] = true
		}
	}
	var out []int
	for r := range set {
		out = append(out, r)
	}
	sort.Ints(out)
	return out
}

func c17Revisions() []int {
	if !stats.Thorough() {
		return quickRevisions()
	}
	var out []int
	for r := 50000; r <= 54500; r++ {
		out = append(out, r)
	}
	return append(out, 60000)
}

var protoStr = rapid.OneOf(
	rapid.Just(""),
	rapid.StringMatching(`[a-zA-Z0-9_ .:-]{1,12}`),
	rapid.Map(rapid.SliceOfN(rapid.Byte(), 1, 20), func(b []byte) string { return string(b) }),
	rapid.Map(rapid.IntRange(120, 300), func(n int) string { return string(bytes.Repeat([]byte("q"), n)) }),
	// lengths on the first boundary of the uvarint length prefix
	rapid.Map(rapid.SampledFrom([]int{126, 127, 128, 129, 255, 256}), func(n int) string { return string(bytes.Repeat([]byte("b"), n)) }),
)

// protoStrWide (C17 only: the other users enumerate every cut or segmentation of a message)
// adds the second length boundary and strings longer than the reader's 128 KiB buffer.
var protoStrWide = rapid.OneOf(protoStr, protoStr, protoStr, protoStr,
	rapid.Map(rapid.SampledFrom([]int{16383, 16384, 16385}), func(n int) string { return string(bytes.Repeat([]byte("B"), n)) }),
	rapid.Map(rapid.SampledFrom([]int{100_000, 131_071, 131_072, 131_073, 200_000}), func(n int) string {
		c17Heavy = true // such a message is tried at the representative revisions only, also in the thorough tier
		return string(bytes.Repeat([]byte("L"), n))
	}),
)

// c17Heavy is set while a case is drawn if it carries a string of 100 KB or more.
var c17Heavy bool

var protoInt = rapid.OneOf(
	rapid.IntRange(0, 100),
	rapid.SampledFrom([]int{0, 1, 127, 128, math.MaxInt32, math.MaxInt64, -1, math.MinInt64}),
	rapid.Int(),
)

var protoU64 = rapid.OneOf(
	rapid.Uint64Range(0, 300),
	rapid.SampledFrom([]uint64{0, 1, 127, 128, 16383, 16384, math.MaxUint32, math.MaxUint64}),
	rapid.Uint64(),
)

const sentinel = "\xAB\xCD\xEF\x01sentinel"

// decodeExact runs dec on enc+sentinel and checks the sentinel is what remains.
func decodeExact(enc []byte, skipCode bool, dec func(r *proto.Reader) error) error {
	r := readerOf(append(append([]byte(nil), enc...), sentinel...))
	if skipCode {
		if _, err := r.UVarInt(); err != nil {
			return fmt.Errorf("packet code: %v", err)
		}
	}
	if err := safely(func() error { return dec(r) }); err != nil {
		return err
	}
	rest := make([]byte, len(sentinel))
	if err := r.ReadFull(rest); err != nil || string(rest) != sentinel {
		return fmt.Errorf("decoder did not consume exactly the encoded bytes (rest %x, err %v)", rest, err)
	}
	if !atEOF(r) {
		return fmt.Errorf("decoder consumed fewer bytes than encoded")
	}
	return nil
}

type c17ctx struct {
	info proto.ColInfoInput // reused over the schema blocks of a run
	rt   *rapid.T
	revs []int
	st   *stats.Collector
}

func adjacent(rev int, ts ...int) bool {
	for _, t := range ts {
		if rev >= t-1 && rev <= t+1 {
			return true
		}
	}
	return false
}

func (c *c17ctx) forRevs(name string, sample func() any, gates []int, f func(rev int) error) {
	var n, nt int64
	revs := c.revs
	if c17Heavy && len(revs) > 200 {
		revs = quickRevisions()
	}
	for _, rev := range revs {
		n++
		if adjacent(rev, gates...) {
			nt++
		}
		if err := f(rev); err != nil {
			c.rt.Fatalf("%s at revision %d: %v", name, rev, err)
		}
	}
	c.st.LabelN("msg:"+name, n)
	c.st.LabelN("adjacent-to-threshold", nt)
}

func TestC17Messages(t *testing.T) {
	revs := c17Revisions()
	st := stats.G()
	if stats.Thorough() {
		st.Exhaustive("every revision 50000..54500 for every generated message")
	} else {
		st.Exhaustive("T-1, T, T+1 of all 23 feature thresholds plus interval midpoints for every generated message")
	}
	rapid.Check(t, func(rt *rapid.T) {
		c := &c17ctx{rt: rt, revs: revs, st: st}
		c17Heavy = false
		which := rapid.IntRange(0, 10).Draw(rt, "message")
		switch which {
		case 0:
			c.clientHello()
		case 1:
			c.serverHello()
		case 2, 3:
			c.query()
		case 4:
			c.clientData()
		case 5:
			c.blockHeader()
		case 6:
			c.progress()
		case 7:
			c.profile()
		case 8:
			c.exception()
		case 9:
			c.tableColumns()
		case 10:
			c.schemaBlock()
		}
	})
}

func (c *c17ctx) clientHello() {
	rt := c.rt
	h := proto.ClientHello{Name: protoStrWide.Draw(rt, "name"), Major: protoInt.Draw(rt, "major"), Minor: protoInt.Draw(rt, "minor"),
		ProtocolVersion: protoInt.Draw(rt, "rev"), Database: protoStrWide.Draw(rt, "db"), User: protoStrWide.Draw(rt, "user"), Password: protoStrWide.Draw(rt, "pass")}
	var b proto.Buffer
	h.Encode(&b)
	e := &ref.Enc{}
	ref.EncodeClientHello(e, ref.ClientHello{Name: h.Name, Major: int64(h.Major), Minor: int64(h.Minor), Revision: int64(h.ProtocolVersion), Database: h.Database, User: h.User, Pass: h.Password})
	if !bytes.Equal(b.Buf, e.B) {
		rt.Fatalf("ClientHello bytes differ from reference:\nlib %x\nref %x", b.Buf, e.B)
	}
	var got proto.ClientHello
	if err := decodeExact(b.Buf, true, got.Decode); err != nil {
		rt.Fatalf("ClientHello decode: %v", err)
	}
	if got != h {
		rt.Fatalf("ClientHello round trip: %+v -> %+v", h, got)
	}
	c.st.Case(stats.Hash("chello", b.Buf), true, func() any { return map[string]any{"kind": "ClientHello", "msg": fmt.Sprintf("%+v", h)} })
}

func (c *c17ctx) serverHello() {
	rt := c.rt
	h := proto.ServerHello{Name: protoStrWide.Draw(rt, "name"), Major: protoInt.Draw(rt, "major"), Minor: protoInt.Draw(rt, "minor"),
		Revision: protoInt.Draw(rt, "rev"), Timezone: protoStrWide.Draw(rt, "tz"), DisplayName: protoStrWide.Draw(rt, "display"), Patch: protoInt.Draw(rt, "patch")}
	c.forRevs("ServerHello", nil, []int{ref.RevTimezone, ref.RevDisplayName, ref.RevVersionPatch}, func(rev int) error {
		var b proto.Buffer
		h.EncodeAware(&b, rev)
		e := &ref.Enc{}
		ref.EncodeServerHello(e, ref.ServerHello{Name: h.Name, Major: int64(h.Major), Minor: int64(h.Minor), Revision: int64(h.Revision), Timezone: h.Timezone, DisplayName: h.DisplayName, Patch: int64(h.Patch)}, rev)
		if !bytes.Equal(b.Buf, e.B) {
			return fmt.Errorf("bytes differ from reference:\nlib %x\nref %x", b.Buf, e.B)
		}
		want := h
		if rev < ref.RevTimezone {
			want.Timezone = ""
		}
		if rev < ref.RevDisplayName {
			want.DisplayName = ""
		}
		if rev < ref.RevVersionPatch {
			want.Patch = 0
		}
		var got proto.ServerHello
		if err := decodeExact(b.Buf, true, func(r *proto.Reader) error { return got.DecodeAware(r, rev) }); err != nil {
			return err
		}
		if got != want {
			return fmt.Errorf("round trip %+v -> %+v (want %+v)", h, got, want)
		}
		return nil
	})
	c.st.Case(stats.Hash("shello", fmt.Sprintf("%+v", h)), true, func() any { return map[string]any{"kind": "ServerHello", "msg": fmt.Sprintf("%+v", h)} })
}

var traceStates = []string{"", "k=v", "a=1,b=2", "vendor@sys=opaque-value"}

func drawSpan(rt *rapid.T) trace.SpanContext {
	if !rapid.Bool().Draw(rt, "span") {
		return trace.SpanContext{}
	}
	var cfg trace.SpanContextConfig
	copy(cfg.TraceID[:], rapid.SliceOfN(rapid.Byte(), 16, 16).Draw(rt, "traceid"))
	copy(cfg.SpanID[:], rapid.SliceOfN(rapid.Byte(), 8, 8).Draw(rt, "spanid"))
	cfg.TraceID[3] |= 1
	cfg.SpanID[3] |= 1
	ts, err := trace.ParseTraceState(rapid.SampledFrom(traceStates).Draw(rt, "tracestate"))
	if err != nil {
		rt.Fatalf("harness: %v", err)
	}
	cfg.TraceState = ts
	cfg.TraceFlags = trace.TraceFlags(rapid.Byte().Draw(rt, "traceflags"))
	return trace.NewSpanContext(cfg)
}

func refSpan(s trace.SpanContext) ref.Span {
	if !s.IsValid() {
		return ref.Span{}
	}
	return ref.Span{Valid: true, TraceID: s.TraceID(), SpanID: s.SpanID(), State: s.TraceState().String(), Flags: byte(s.TraceFlags())}
}

var settingKey = rapid.OneOf(rapid.StringMatching(`[a-z_]{1,16}`), rapid.Map(rapid.SliceOfN(rapid.Byte(), 1, 8), func(b []byte) string { return string(b) }))

func drawSettings(rt *rapid.T, label string) []proto.Setting {
	n := rapid.IntRange(0, 4).Draw(rt, label+"-n")
	var out []proto.Setting
	for i := 0; i < n; i++ {
		out = append(out, proto.Setting{Key: settingKey.Draw(rt, label+"-key"), Value: protoStrWide.Draw(rt, label+"-val"),
			Important: rapid.Bool().Draw(rt, "important"), Custom: rapid.Bool().Draw(rt, "custom"), Obsolete: rapid.Bool().Draw(rt, "obsolete")})
	}
	return out
}

func refSettings(ss []proto.Setting) []ref.Setting {
	var out []ref.Setting
	for _, s := range ss {
		var f uint64
		if s.Important {
			f |= 1
		}
		if s.Custom {
			f |= 2
		}
		if s.Obsolete {
			f |= 4
		}
		out = append(out, ref.Setting{Key: s.Key, Value: s.Value, Flags: f})
	}
	return out
}

func refClientInfo(i proto.ClientInfo) ref.ClientInfo {
	r := ref.ClientInfo{QueryKind: byte(i.Query), InitialUser: i.InitialUser, InitialQueryID: i.InitialQueryID, InitialAddress: i.InitialAddress,
		InitialTime: i.InitialTime, Interface: byte(i.Interface), OSUser: i.OSUser, Hostname: i.ClientHostname, ClientName: i.ClientName,
		Major: int64(i.Major), Minor: int64(i.Minor), Revision: int64(i.ProtocolVersion), QuotaKey: i.QuotaKey, DistributedDepth: int64(i.DistributedDepth),
		Patch: int64(i.Patch), Span: refSpan(i.Span), CountReplicas: int64(i.CountParticipatingReplicas), ReplicaNumber: int64(i.NumberOfCurrentReplica)}
	if i.CollaborateWithInitiator {
		r.Collaborate = 1
	}
	return r
}

func projectInfo(i proto.ClientInfo, rev int) proto.ClientInfo {
	if rev < ref.RevQueryStartTime {
		i.InitialTime = 0
	}
	if rev < ref.RevQuotaKeyInClientInfo {
		i.QuotaKey = ""
	}
	if rev < ref.RevDistributedDepth {
		i.DistributedDepth = 0
	}
	if rev < ref.RevVersionPatch {
		i.Patch = 0
	}
	if rev < ref.RevOpenTelemetry {
		i.Span = trace.SpanContext{}
	}
	if rev < ref.RevParallelReplicas {
		i.CollaborateWithInitiator, i.CountParticipatingReplicas, i.NumberOfCurrentReplica = false, 0, 0
	}
	return i
}

func infoEqual(a, b proto.ClientInfo) bool {
	sa, sb := a.Span, b.Span
	a.Span, b.Span = trace.SpanContext{}, trace.SpanContext{}
	return fmt.Sprintf("%+v", a) == fmt.Sprintf("%+v", b) && sa.Equal(sb)
}

func (c *c17ctx) query() {
	rt := c.rt
	q := proto.Query{
		ID: protoStrWide.Draw(rt, "id"), Body: protoStrWide.Draw(rt, "body"), Secret: protoStrWide.Draw(rt, "secret"),
		Stage:       proto.Stage(rapid.SampledFrom([]int{2, 2, 0, 1}).Draw(rt, "stage")),
		Compression: proto.Compression(rapid.IntRange(0, 1).Draw(rt, "compression")),
		Settings:    drawSettings(rt, "setting"),
		Info: proto.ClientInfo{
			ProtocolVersion: protoInt.Draw(rt, "inforev"), Major: protoInt.Draw(rt, "major"), Minor: protoInt.Draw(rt, "minor"), Patch: protoInt.Draw(rt, "patch"),
			Interface: proto.InterfaceTCP, Query: proto.ClientQueryKind(rapid.SampledFrom([]int{1, 1, 2, 0}).Draw(rt, "querykind")),
			InitialUser: protoStrWide.Draw(rt, "iuser"), InitialQueryID: protoStrWide.Draw(rt, "iqid"), InitialAddress: protoStrWide.Draw(rt, "iaddr"),
			InitialTime: rapid.Int64().Draw(rt, "itime"), OSUser: protoStrWide.Draw(rt, "osuser"), ClientHostname: protoStrWide.Draw(rt, "host"),
			ClientName: protoStrWide.Draw(rt, "cname"), Span: drawSpan(rt), QuotaKey: protoStrWide.Draw(rt, "quota"),
			DistributedDepth: protoInt.Draw(rt, "depth"), CollaborateWithInitiator: rapid.Bool().Draw(rt, "collab"),
			CountParticipatingReplicas: protoInt.Draw(rt, "replicas"), NumberOfCurrentReplica: protoInt.Draw(rt, "replica"),
		},
	}
	np := rapid.IntRange(0, 3).Draw(rt, "params")
	for i := 0; i < np; i++ {
		q.Parameters = append(q.Parameters, proto.Parameter{Key: settingKey.Draw(rt, "pkey"), Value: protoStrWide.Draw(rt, "pval")})
	}
	// The lists have no length on the wire and no documented bound: long ones too (tried at the
	// representative revisions only).
	switch rapid.IntRange(0, 39).Draw(rt, "long-lists") {
	case 0:
		c17Heavy = true
		for i, n := 0, rapid.SampledFrom([]int{255, 999, 1000, 1001, 1024, 4097}).Draw(rt, "many-params"); i < n; i++ {
			q.Parameters = append(q.Parameters, proto.Parameter{Key: fmt.Sprintf("p%d", i), Value: fmt.Sprintf("'%d'", i*7)})
		}
	case 1:
		c17Heavy = true
		for i, n := 0, rapid.SampledFrom([]int{255, 1000, 9999, 10000, 10001, 16385}).Draw(rt, "many-settings"); i < n; i++ {
			q.Settings = append(q.Settings, proto.Setting{Key: fmt.Sprintf("s%d", i), Value: fmt.Sprint(i), Important: i%3 == 0})
		}
	}
	gates := []int{ref.RevSettingsAsStrings, ref.RevInterServerSecret, ref.RevOpenTelemetry, ref.RevDistributedDepth, ref.RevQueryStartTime,
		ref.RevParallelReplicas, ref.RevParameters}
	rq := ref.Query{ID: q.ID, Info: refClientInfo(q.Info), Settings: refSettings(q.Settings), Secret: q.Secret, Stage: uint64(q.Stage), Compression: uint64(q.Compression), Body: q.Body}
	for _, p := range q.Parameters {
		rq.Params = append(rq.Params, ref.Setting{Key: p.Key, Value: p.Value, Flags: 2})
	}
	c.forRevs("Query", nil, gates, func(rev int) error {
		if rev < ref.RevSettingsAsStrings {
			// Documented refusal: decoding below 54429 answers "unsupported version".
			var b proto.Buffer
			q.EncodeAware(&b, rev)
			var got proto.Query
			r := readerOf(b.Buf)
			_, _ = r.UVarInt()
			if err := safely(func() error { return got.DecodeAware(r, rev) }); err == nil || isPanic(err) {
				return fmt.Errorf("DecodeAware below 54429 returned %v, want the documented refusal", err)
			}
			// What is written below 54429 (the client has no lower bound on the negotiated revision):
			// id, client info from 54420 on, NO settings but their terminator, stage, compression, body.
			e := &ref.Enc{}
			e.UVarint(ref.ClientQueryCode, ref.RCount)
			e.Str([]byte(rq.ID), ref.RPayload)
			if rev >= 54420 {
				ref.EncodeClientInfo(e, rq.Info, rev)
			}
			e.Str(nil, ref.RPayload)
			e.UVarint(2, ref.RCount)
			e.UVarint(rq.Compression, ref.RCount)
			e.Str([]byte(rq.Body), ref.RPayload)
			if !bytes.Equal(b.Buf, e.B) {
				return fmt.Errorf("Query below 54429: bytes differ from the layout of that revision (first difference at %d of %d/%d bytes)", firstDiff(b.Buf, e.B), len(b.Buf), len(e.B))
			}
			return nil
		}
		var b proto.Buffer
		q.EncodeAware(&b, rev)
		e := &ref.Enc{}
		ref.EncodeQuery(e, rq, rev)
		stageKnown := false
		if !bytes.Equal(b.Buf, e.B) {
			alt := rq
			alt.Stage = 2
			e2 := &ref.Enc{}
			ref.EncodeQuery(e2, alt, rev)
			if q.Stage != proto.StageComplete && bytes.Equal(b.Buf, e2.B) && stats.IsKnown("C17", "query-stage-encoded-as-complete") {
				stageKnown = true
				c.st.Known("query-stage-encoded-as-complete", fmt.Sprintf("Query{Stage: %d}.EncodeAware writes stage 2", q.Stage))
			} else {
				return fmt.Errorf("bytes differ from reference:\nlib %x\nref %x", b.Buf, e.B)
			}
		}
		var got proto.Query
		if err := decodeExact(b.Buf, true, func(r *proto.Reader) error { return got.DecodeAware(r, rev) }); err != nil {
			return err
		}
		want := q
		want.Info = projectInfo(q.Info, rev)
		if rev < ref.RevInterServerSecret {
			want.Secret = ""
		}
		if rev < ref.RevParameters {
			want.Parameters = nil
		}
		if stageKnown {
			want.Stage = proto.StageComplete
		}
		if got.ID != want.ID || got.Body != want.Body || got.Secret != want.Secret || got.Stage != want.Stage || got.Compression != want.Compression ||
			!infoEqual(got.Info, want.Info) || fmt.Sprint(got.Settings) != fmt.Sprint(want.Settings) || fmt.Sprint(got.Parameters) != fmt.Sprint(want.Parameters) {
			return fmt.Errorf("round trip:\n have %+v\n want %+v", got, want)
		}
		// The library decodes the reference encoding too.
		var got2 proto.Query
		encRef := e.B
		if stageKnown {
			encRef = b.Buf
		}
		if err := decodeExact(encRef, true, func(r *proto.Reader) error { return got2.DecodeAware(r, rev) }); err != nil {
			return fmt.Errorf("decoding reference encoding: %v", err)
		}
		return nil
	})
	c.st.Case(stats.Hash("query", fmt.Sprintf("%+v", q)), true, func() any {
		return map[string]any{"kind": "Query", "id": q.ID, "settings": len(q.Settings), "params": len(q.Parameters), "span": q.Info.Span.IsValid(), "stage": int(q.Stage)}
	})
}

func (c *c17ctx) clientData() {
	rt := c.rt
	d := proto.ClientData{TableName: protoStrWide.Draw(rt, "table")}
	c.forRevs("ClientData", nil, []int{ref.RevTempTables}, func(rev int) error {
		var b proto.Buffer
		d.EncodeAware(&b, rev)
		e := &ref.Enc{}
		if rev >= ref.RevTempTables {
			e.Str([]byte(d.TableName), ref.RName)
		}
		if !bytes.Equal(b.Buf, e.B) {
			return fmt.Errorf("bytes differ from reference: lib %x ref %x", b.Buf, e.B)
		}
		var got proto.ClientData
		if err := decodeExact(b.Buf, false, func(r *proto.Reader) error { return got.DecodeAware(r, rev) }); err != nil {
			return err
		}
		want := d
		if rev < ref.RevTempTables {
			want.TableName = ""
		}
		if got != want {
			return fmt.Errorf("round trip %+v -> %+v", d, got)
		}
		return nil
	})
	c.st.Case(stats.Hash("cdata", d.TableName), true, func() any { return map[string]any{"kind": "ClientData", "table": d.TableName} })
}

func (c *c17ctx) blockHeader() {
	rt := c.rt
	blk := proto.Block{Info: proto.BlockInfo{Overflows: rapid.Bool().Draw(rt, "overflows"), BucketNum: int(rapid.Int32().Draw(rt, "bucket"))},
		Columns: rapid.IntRange(0, 1000).Draw(rt, "columns"), Rows: rapid.IntRange(0, 100_000).Draw(rt, "rows")}
	empty := rapid.Bool().Draw(rt, "end-marker")
	if empty {
		blk.Columns, blk.Rows = 0, 0
	}
	c.forRevs("BlockHeader", nil, []int{ref.RevBlockInfo}, func(rev int) error {
		var b proto.Buffer
		blk.EncodeAware(&b, rev)
		e := &ref.Enc{}
		if rev >= ref.RevBlockInfo {
			ref.EncodeBlockInfo(e, ref.BlockInfo{Overflows: blk.Info.Overflows, BucketNum: int32(blk.Info.BucketNum)})
		}
		e.UVarint(uint64(blk.Columns), ref.RCount)
		e.UVarint(uint64(blk.Rows), ref.RCount)
		if !bytes.Equal(b.Buf, e.B) {
			return fmt.Errorf("bytes differ from reference: lib %x ref %x", b.Buf, e.B)
		}
		var got proto.Block
		err := decodeExact(b.Buf, false, func(r *proto.Reader) error {
			if empty {
				return got.DecodeBlock(r, rev, nil)
			}
			if rev >= ref.RevBlockInfo {
				if err := got.Info.Decode(r); err != nil {
					return err
				}
			}
			var err error
			if got.Columns, err = r.Int(); err != nil {
				return err
			}
			got.Rows, err = r.Int()
			return err
		})
		if err != nil {
			return err
		}
		want := blk
		if rev < ref.RevBlockInfo {
			want.Info = proto.BlockInfo{}
		}
		if got != want {
			return fmt.Errorf("round trip %+v -> %+v", want, got)
		}
		return nil
	})
	c.st.Case(stats.Hash("blk", fmt.Sprintf("%+v", blk)), true, func() any { return map[string]any{"kind": "BlockHeader", "msg": fmt.Sprintf("%+v", blk)} })
}

// schemaBlock: the block header followed by column descriptors only - the zero-row block
// that announces a schema (INSERT column info, result header). Its encoding is header, then
// per column name, type and (from 54454) the custom-serialization flag.
func (c *c17ctx) schemaBlock() {
	rt := c.rt
	cols, _ := drawBlockRows(rt, 5, rapid.Just(0))
	info := ref.BlockInfo{Overflows: rapid.Bool().Draw(rt, "overflows"), BucketNum: rapid.Int32().Draw(rt, "bucket")}
	model := refBlock(cols, info)
	c.forRevs("SchemaBlock", nil, []int{ref.RevBlockInfo, ref.RevCustomSerialization}, func(rev int) error {
		_, in := libInput(cols, false)
		blk := proto.Block{Info: protoInfo(info), Columns: len(in), Rows: 0}
		var b proto.Buffer
		if err := blk.EncodeBlock(&b, rev, in); err != nil {
			return err
		}
		e := &ref.Enc{NoMap: true}
		ref.EncodeBlock(e, rev, model)
		if !bytes.Equal(b.Buf, e.B) {
			return fmt.Errorf("zero-row block %v: bytes differ from reference: lib %x ref %x", typeNames(cols), b.Buf, e.B)
		}
		// typed targets, raw decode without targets, and - with a sentinel appended - exact consumption
		tcols, res := typedTargets(cols)
		var got proto.Block
		if err := decodeExact(b.Buf, false, func(r *proto.Reader) error { return got.DecodeBlock(r, rev, res) }); err != nil {
			return fmt.Errorf("zero-row block %v into typed targets: %w", typeNames(cols), err)
		}
		if got.Columns != len(cols) || got.Rows != 0 {
			return fmt.Errorf("zero-row block decoded as %d columns x %d rows", got.Columns, got.Rows)
		}
		for i, tc := range tcols {
			if tc.Column().Rows() != 0 {
				return fmt.Errorf("column %d has %d rows after a zero-row block", i, tc.Column().Rows())
			}
		}
		// The column-description target of an INSERT (used again for every header, as the client does):
		// the descriptors in order, whatever it held before.
		if err := decodeExact(b.Buf, false, func(r *proto.Reader) error { var g proto.Block; return g.DecodeBlock(r, rev, &c.info) }); err != nil {
			return fmt.Errorf("zero-row block %v into ColInfoInput: %w", typeNames(cols), err)
		}
		if len(c.info) != len(cols) {
			return fmt.Errorf("ColInfoInput holds %d descriptors after a header of %d columns %v", len(c.info), len(cols), typeNames(cols))
		}
		for i, col := range cols {
			if c.info[i].Name != col.Name || string(c.info[i].Type) != col.Kind.T.Name {
				return fmt.Errorf("ColInfoInput[%d] = %q %s, header says %q %s", i, c.info[i].Name, c.info[i].Type, col.Name, col.Kind.T.Name)
			}
		}
		// Read without targets (empty Results, nil): the header is skipped exactly, flag bytes included.
		for _, tgt := range []proto.Result{&proto.Results{}, nil} {
			var g0 proto.Block
			if err := decodeExact(b.Buf, false, func(r *proto.Reader) error { return g0.DecodeBlock(r, rev, tgt) }); err != nil {
				return fmt.Errorf("zero-row block %v read without targets (%T): %w", typeNames(cols), tgt, err)
			}
			if g0.Columns != len(cols) || g0.Rows != 0 {
				return fmt.Errorf("zero-row block read without targets decoded as %d columns x %d rows", g0.Columns, g0.Rows)
			}
		}
		// The same header inside a compressed frame, read the way the client reads the block
		// of a Data packet on a compressed connection (every field through the decompressor).
		{
			method := []byte{ref.MethodNone, ref.MethodLZ4, ref.MethodZSTD}[(rev+len(cols))%3]
			frame, ferr := ref.BuildFrame(method, b.Buf)
			if ferr != nil {
				return ferr
			}
			_, res2 := typedTargets(cols)
			r := readerOf(append(append([]byte(nil), frame...), sentinel...))
			r.EnableCompression()
			var g3 proto.Block
			if err := safely(func() error { return g3.DecodeBlock(r, rev, res2) }); err != nil {
				return fmt.Errorf("zero-row block %v inside a compressed frame (method %#x): %w", typeNames(cols), method, err)
			}
			r.DisableCompression()
			rest := make([]byte, len(sentinel))
			if err := r.ReadFull(rest); err != nil || string(rest) != sentinel || g3.Columns != len(cols) || g3.Rows != 0 || g3.Info != blk.Info && rev >= ref.RevBlockInfo {
				return fmt.Errorf("zero-row block %v inside a compressed frame (method %#x): decoded %+v, rest %x (err %v)", typeNames(cols), method, g3, rest, err)
			}
		}
		allInfer := true
		for _, col := range cols {
			allInfer = allInfer && autoInferable(col.Kind.T.Name)
		}
		if allInfer {
			var auto proto.Results
			var g2 proto.Block
			if err := decodeExact(b.Buf, false, func(r *proto.Reader) error { return g2.DecodeBlock(r, rev, auto.Auto()) }); err != nil {
				return fmt.Errorf("zero-row block %v into inferred targets: %w", typeNames(cols), err)
			}
			if len(auto) != len(cols) {
				return fmt.Errorf("inferred %d columns from a zero-row block of %d", len(auto), len(cols))
			}
			for i, rc := range auto {
				if rc.Name != cols[i].Name || rc.Data.Type().Conflicts(proto.ColumnType(cols[i].Kind.T.Name)) {
					return fmt.Errorf("inferred column %d is %q %s, sent %q %s", i, rc.Name, rc.Data.Type(), cols[i].Name, cols[i].Kind.T.Name)
				}
			}
		}
		return nil
	})
	c.st.Case(hashCols(cols, "schema", info.BucketNum, info.Overflows), true, func() any {
		return map[string]any{"kind": "SchemaBlock", "columns": typeNames(cols)}
	})
}

func (c *c17ctx) progress() {
	rt := c.rt
	p := proto.Progress{Rows: protoU64.Draw(rt, "rows"), Bytes: protoU64.Draw(rt, "bytes"), TotalRows: protoU64.Draw(rt, "total"),
		WroteRows: protoU64.Draw(rt, "wrows"), WroteBytes: protoU64.Draw(rt, "wbytes"), ElapsedNs: protoU64.Draw(rt, "elapsed")}
	c.forRevs("Progress", nil, []int{ref.RevClientWriteInfo, ref.RevServerQueryTimeInProg}, func(rev int) error {
		var b proto.Buffer
		p.EncodeAware(&b, rev)
		e := &ref.Enc{}
		ref.EncodeProgress(e, ref.Progress{Rows: p.Rows, Bytes: p.Bytes, TotalRows: p.TotalRows, WroteRows: p.WroteRows, WroteBytes: p.WroteBytes, ElapsedNs: p.ElapsedNs}, rev)
		if !bytes.Equal(b.Buf, e.B) {
			return fmt.Errorf("bytes differ from reference: lib %x ref %x", b.Buf, e.B)
		}
		var got proto.Progress
		if err := decodeExact(b.Buf, false, func(r *proto.Reader) error { return got.DecodeAware(r, rev) }); err != nil {
			return err
		}
		want := p
		if rev < ref.RevClientWriteInfo {
			want.WroteRows, want.WroteBytes = 0, 0
		}
		if rev < ref.RevServerQueryTimeInProg {
			want.ElapsedNs = 0
		}
		if got != want {
			return fmt.Errorf("round trip %+v -> %+v", want, got)
		}
		return nil
	})
	c.st.Case(stats.Hash("progress", fmt.Sprintf("%+v", p)), true, func() any { return map[string]any{"kind": "Progress", "msg": fmt.Sprintf("%+v", p)} })
}

func (c *c17ctx) profile() {
	rt := c.rt
	p := proto.Profile{Rows: protoU64.Draw(rt, "rows"), Blocks: protoU64.Draw(rt, "blocks"), Bytes: protoU64.Draw(rt, "bytes"),
		AppliedLimit: rapid.Bool().Draw(rt, "limit"), RowsBeforeLimit: protoU64.Draw(rt, "before"), CalculatedRowsBeforeLimit: rapid.Bool().Draw(rt, "calc")}
	c.forRevs("Profile", nil, nil, func(rev int) error {
		var b proto.Buffer
		p.EncodeAware(&b, rev)
		e := &ref.Enc{}
		e.UVarint(ref.ServerProfileCode, ref.RCount)
		ref.EncodeProfile(e, ref.Profile{Rows: p.Rows, Blocks: p.Blocks, Bytes: p.Bytes, AppliedLimit: p.AppliedLimit, RowsBeforeLimit: p.RowsBeforeLimit, Calculated: p.CalculatedRowsBeforeLimit})
		if !bytes.Equal(b.Buf, e.B) {
			return fmt.Errorf("bytes differ from reference: lib %x ref %x", b.Buf, e.B)
		}
		var got proto.Profile
		if err := decodeExact(b.Buf, true, func(r *proto.Reader) error { return got.DecodeAware(r, rev) }); err != nil {
			return err
		}
		if got != p {
			return fmt.Errorf("round trip %+v -> %+v", p, got)
		}
		return nil
	})
	c.st.Case(stats.Hash("profile", fmt.Sprintf("%+v", p)), true, func() any { return map[string]any{"kind": "Profile", "msg": fmt.Sprintf("%+v", p)} })
}

func (c *c17ctx) exception() {
	rt := c.rt
	x := proto.Exception{Code: proto.Error(rapid.Int32().Draw(rt, "code")), Name: protoStrWide.Draw(rt, "name"), Message: protoStrWide.Draw(rt, "message"),
		Stack: protoStrWide.Draw(rt, "stack"), Nested: rapid.Bool().Draw(rt, "nested")}
	c.forRevs("Exception", nil, nil, func(rev int) error {
		var b proto.Buffer
		x.EncodeAware(&b, rev)
		e := &ref.Enc{}
		ref.EncodeException(e, ref.Exception{Code: int32(x.Code), Name: x.Name, Message: x.Message, Stack: x.Stack, Nested: x.Nested})
		if !bytes.Equal(b.Buf, e.B) {
			return fmt.Errorf("bytes differ from reference: lib %x ref %x", b.Buf, e.B)
		}
		var got proto.Exception
		if err := decodeExact(b.Buf, false, func(r *proto.Reader) error { return got.DecodeAware(r, rev) }); err != nil {
			return err
		}
		if got != x {
			return fmt.Errorf("round trip %+v -> %+v", x, got)
		}
		return nil
	})
	c.st.Case(stats.Hash("exc", fmt.Sprintf("%+v", x)), true, func() any { return map[string]any{"kind": "Exception", "code": int32(x.Code), "nested": x.Nested} })
}

func (c *c17ctx) tableColumns() {
	rt := c.rt
	tc := proto.TableColumns{First: protoStrWide.Draw(rt, "first"), Second: protoStrWide.Draw(rt, "second")}
	c.forRevs("TableColumns", nil, nil, func(rev int) error {
		var b proto.Buffer
		tc.EncodeAware(&b, rev)
		e := &ref.Enc{}
		e.UVarint(ref.ServerTableColumnsCode, ref.RCount)
		ref.EncodeTableColumns(e, ref.TableColumns{First: tc.First, Second: tc.Second})
		if !bytes.Equal(b.Buf, e.B) {
			return fmt.Errorf("bytes differ from reference: lib %x ref %x", b.Buf, e.B)
		}
		var got proto.TableColumns
		if err := decodeExact(b.Buf, true, func(r *proto.Reader) error { return got.DecodeAware(r, rev) }); err != nil {
			return err
		}
		if got != tc {
			return fmt.Errorf("round trip %+v -> %+v", tc, got)
		}
		return nil
	})
	c.st.Case(stats.Hash("tc", tc.First, tc.Second), true, func() any { return map[string]any{"kind": "TableColumns", "first": tc.First} })
}
