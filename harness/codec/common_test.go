package codec

import (
	"bytes"
	"fmt"
	"io"
	"os"

	"github.com/ClickHouse/ch-go/proto"
	"pgregory.net/rapid"

	"verif/harness/gen"
	"verif/harness/ref"
)

var blockRevs = []int{51902, 51903, 54453, 54454, 54460, 54474, 54475, 60000}

type colSpec struct {
	Name string
	Kind *gen.Kind
	Rows []ref.Val
}

func (c colSpec) refCol() ref.Column { return ref.Column{Name: c.Name, T: c.Kind.T, Rows: c.Rows} }

func refBlock(cols []colSpec, info ref.BlockInfo) *ref.Block {
	b := &ref.Block{Info: info}
	for _, c := range cols {
		b.Columns = append(b.Columns, c.refCol())
	}
	return b
}

var colNameGen = rapid.OneOf(
	rapid.StringMatching(`[a-z_][a-z0-9_]{0,6}`),
	rapid.StringMatching(`[a-z_][a-z0-9_]{0,6}`),
	rapid.SampledFrom([]string{"a b", "ключ", "x.y", "`q`", "'", "1"}),
)

// drawBlock draws 1..maxCols columns sharing a row count.
func drawBlock(rt *rapid.T, maxCols int) ([]colSpec, int) {
	return drawBlockRows(rt, maxCols, gen.RowCount())
}

// drawBlockWide also produces row counts around powers of two (up to 1025).
func drawBlockWide(rt *rapid.T, maxCols int) ([]colSpec, int) {
	return drawBlockRows(rt, maxCols, gen.RowCountWide())
}

func drawBlockRows(rt *rapid.T, maxCols int, rowGen *rapid.Generator[int]) ([]colSpec, int) {
	n := rapid.IntRange(1, maxCols).Draw(rt, "ncols")
	rows := rowGen.Draw(rt, "rows")
	var cols []colSpec
	used := map[string]bool{}
	for i := 0; i < n; i++ {
		k := gen.DrawKind(rt, "kind")
		name := colNameGen.Draw(rt, "colname")
		for used[name] {
			name += "_"
		}
		used[name] = true
		cols = append(cols, colSpec{Name: name, Kind: k, Rows: gen.DrawRows(rt, k, rows)})
	}
	return cols, rows
}

// fill creates a library column of kind k holding rows, appended one by one
// or in bulk (AppendArr).
func fill(k *gen.Kind, rows []ref.Val, bulk bool) gen.Col {
	c := k.New()
	if bulk {
		c.AppendBulk(rows)
	} else {
		for _, v := range rows {
			c.Append(v)
		}
	}
	return c
}

func libInput(cols []colSpec, bulk bool) ([]gen.Col, proto.Input) {
	var lc []gen.Col
	var in proto.Input
	for _, c := range cols {
		col := fill(c.Kind, c.Rows, bulk)
		lc = append(lc, col)
		in = append(in, proto.InputColumn{Name: c.Name, Data: col.Column()})
	}
	return lc, in
}

func protoInfo(i ref.BlockInfo) proto.BlockInfo {
	return proto.BlockInfo{Overflows: i.Overflows, BucketNum: int(i.BucketNum)}
}

// safely runs f and converts a panic into an error.
func safely(f func() error) (err error) {
	defer func() {
		if r := recover(); r != nil {
			err = fmt.Errorf("PANIC: %v", r)
		}
	}()
	return f()
}

func isPanic(err error) bool {
	return err != nil && len(err.Error()) >= 6 && err.Error()[:6] == "PANIC:"
}

func readerOf(b []byte) *proto.Reader { return proto.NewReader(bytes.NewReader(b)) }

func atEOF(r *proto.Reader) bool {
	_, err := r.ReadByte()
	return err != nil && (err == io.EOF || bytes.Contains([]byte(err.Error()), []byte("EOF")))
}

// typedTargets returns fresh typed result columns for the given kinds.
func typedTargets(cols []colSpec) ([]gen.Col, proto.Results) {
	var lc []gen.Col
	var res proto.Results
	for _, c := range cols {
		col := c.Kind.New()
		lc = append(lc, col)
		res = append(res, proto.ResultColumn{Name: c.Name, Data: col.Column()})
	}
	return lc, res
}

func readAll(col gen.Col) (out []ref.Val, err error) {
	err = safely(func() error {
		n := col.Column().Rows()
		for i := 0; i < n; i++ {
			out = append(out, col.Row(i))
		}
		return nil
	})
	return out, err
}

func typeNames(cols []colSpec) []string {
	var s []string
	for _, c := range cols {
		s = append(s, c.Kind.T.Name)
	}
	return s
}

func replayPath() string { return os.Getenv("VERIF_REPLAY") }

// autoInferable reports whether the library promises inference for type name.
func autoInferable(name string) bool {
	var a proto.ColAuto
	err := safely(func() error { return a.Infer(proto.ColumnType(name)) })
	return err == nil
}

func verifRoot() string {
	if r := os.Getenv("VERIF_ROOT"); r != "" {
		return r
	}
	return "/verif"
}
