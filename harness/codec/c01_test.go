package codec

// C01 — block encode→decode identity, buffer independence, agreement with the
// independent reference codec in both directions.

import (
	"bytes"
	"fmt"
	"strings"
	"testing"

	"github.com/ClickHouse/ch-go/proto"
	"pgregory.net/rapid"

	"verif/harness/gen"
	"verif/harness/ref"
	"verif/harness/stats"
)

type c01case struct {
	cols   []colSpec
	rows   int
	rev    int
	info   ref.BlockInfo
	prefix []byte
	bulk   bool
	lcBump int // reference encoding uses LowCardinality keys wider than necessary by this many steps
}

func (c c01case) sample() any {
	var cs []string
	for _, col := range c.cols {
		cs = append(cs, fmt.Sprintf("%q %s = %s", col.Name, col.Kind.T.Name, ref.ShowRows(col.Kind.T, col.Rows)))
	}
	return map[string]any{"kind": "block", "rev": c.rev, "rows": c.rows, "prefix_len": len(c.prefix), "columns": cs}
}

func nontrivialCols(cols []colSpec, rows int) bool {
	if rows == 0 {
		return false
	}
	for _, c := range cols {
		if c.Kind.Shape != "X" {
			return true
		}
		for _, v := range c.Rows {
			if b, ok := v.([]byte); ok && boundaryBytes(b) {
				return true
			}
		}
	}
	return false
}

func boundaryBytes(b []byte) bool {
	if len(b) == 0 || len(b) >= 127 {
		return true
	}
	allFF, allZero := true, true
	for _, x := range b {
		allFF = allFF && x == 0xff
		allZero = allZero && x == 0
	}
	if allFF || allZero {
		return true
	}
	top := b[len(b)-1]
	return top == 0x80 || top == 0x7f
}

func hashCols(cols []colSpec, extra ...any) uint64 {
	parts := append([]any{}, extra...)
	for _, c := range cols {
		e := &ref.Enc{NoMap: true}
		ref.EncodeColumn(e, c.Kind.T, c.Rows)
		parts = append(parts, c.Name, c.Kind.T.Name, e.B)
	}
	return stats.Hash(parts...)
}

// knownTypedInferDefect classifies the two known typed-target inference
// defects (F20/F21) by the error text and the shape that triggers them.
func knownTypedInferDefect(cols []colSpec, err error) (string, bool) {
	if err == nil {
		return "", false
	}
	msg := err.Error()
	for _, c := range cols {
		n := c.Kind.T.Name
		if strings.Contains(n, "Tuple(") && strings.Contains(msg, "infer") {
			return "tuple-infer-member-gets-tuple-type", true
		}
		if strings.Contains(n, "Map(") && strings.Contains(msg, "invalid map type") {
			return "map-infer-value-type-with-comma", true
		}
	}
	return "", false
}

func checkC01(rt *rapid.T, c c01case) {
	st := stats.G()
	model := refBlock(c.cols, c.info)

	// --- encode through the library -------------------------------------
	_, in := libInput(c.cols, c.bulk)
	blk := proto.Block{Info: protoInfo(c.info), Columns: len(in), Rows: c.rows}
	var clean proto.Buffer
	if err := safely(func() error { return blk.EncodeBlock(&clean, c.rev, in) }); err != nil {
		rt.Fatalf("EncodeBlock(empty buffer): %v", err)
	}
	// (1a) history independence: encoding the very same column objects again gives the same bytes.
	{
		var again proto.Buffer
		if err := safely(func() error { return blk.EncodeBlock(&again, c.rev, in) }); err != nil {
			rt.Fatalf("second EncodeBlock of the same columns: %v", err)
		}
		if !bytes.Equal(again.Buf, clean.Buf) {
			rt.Fatalf("encoding the same columns twice gives different bytes (%d then %d bytes, first difference at %d): the bytes depend on the column's history, not only on its contents; types %v",
				len(clean.Buf), len(again.Buf), firstDiff(clean.Buf, again.Buf), typeNames(c.cols))
		}
	}
	// (1) buffer independence: same columns (fresh objects) into a pre-filled buffer.
	if len(c.prefix) > 0 {
		_, in2 := libInput(c.cols, c.bulk)
		dirty := proto.Buffer{Buf: append(make([]byte, 0, len(c.prefix)+3), c.prefix...)}
		if err := safely(func() error { return blk.EncodeBlock(&dirty, c.rev, in2) }); err != nil {
			rt.Fatalf("EncodeBlock(pre-filled buffer, %d junk bytes): %v", len(c.prefix), err)
		}
		if !bytes.Equal(dirty.Buf[:len(c.prefix)], c.prefix) {
			rt.Fatalf("EncodeBlock altered the %d bytes already in the buffer: %x -> %x", len(c.prefix), c.prefix, dirty.Buf[:len(c.prefix)])
		}
		if !bytes.Equal(dirty.Buf[len(c.prefix):], clean.Buf) {
			rt.Fatalf("bytes depend on buffer contents: after %d junk bytes got\n%x\ninto an empty buffer\n%x", len(c.prefix), dirty.Buf[len(c.prefix):], clean.Buf)
		}
	}
	// (1b) the same into a *reused* buffer: spare capacity full of what an earlier, longer
	// packet left there (the client resets and reuses one buffer), behind the junk prefix if any.
	{
		_, in2 := libInput(c.cols, c.bulk)
		backing := bytes.Repeat([]byte{0xAB, 0xCD, 0xEF}, (len(clean.Buf)+len(c.prefix))/3+40)
		copy(backing, c.prefix)
		reused := proto.Buffer{Buf: backing[:len(c.prefix)]}
		if err := safely(func() error { return blk.EncodeBlock(&reused, c.rev, in2) }); err != nil {
			rt.Fatalf("EncodeBlock(reused buffer): %v", err)
		}
		if !bytes.Equal(reused.Buf[:len(c.prefix)], c.prefix) || !bytes.Equal(reused.Buf[len(c.prefix):], clean.Buf) {
			rt.Fatalf("bytes depend on what the reused buffer held in its spare capacity: types %v, %d rows, first difference at %d\nreused %x\nfresh  %x",
				typeNames(c.cols), c.rows, firstDiff(reused.Buf[len(c.prefix):], clean.Buf), reused.Buf[len(c.prefix):], clean.Buf)
		}
	}
	data := clean.Buf

	// (2) reference decoder on the library's bytes; canonical kinds byte-equal.
	d := &ref.Dec{B: data}
	got, err := ref.DecodeBlock(d, c.rev)
	if err != nil {
		rt.Fatalf("reference decoder rejects library encoding: %v\nbytes %x", err, data)
	}
	if d.Left() != 0 {
		rt.Fatalf("reference decoder left %d bytes unread of %d", d.Left(), len(data))
	}
	if c.rev >= ref.RevBlockInfo && got.Info != c.info {
		rt.Fatalf("block info %+v decoded by reference as %+v", c.info, got.Info)
	}
	if err := ref.BlockEqual(model, got); err != nil {
		rt.Fatalf("library encoding decodes (by reference) to different block: %v", err)
	}
	hasLC := false
	for _, col := range c.cols {
		hasLC = hasLC || col.Kind.T.HasLC()
	}
	re := &ref.Enc{NoMap: true, LCBump: c.lcBump}
	ref.EncodeBlock(re, c.rev, model)
	if !hasLC && !bytes.Equal(re.B, data) {
		rt.Fatalf("library bytes differ from reference encoding:\nlib %x\nref %x", data, re.B)
	}

	// (3) library decode into fresh typed targets, of both encodings.
	for which, enc := range [][]byte{data, re.B} {
		src := [2]string{"library", "reference"}[which]
		tcols, res := typedTargets(c.cols)
		var b proto.Block
		r := readerOf(enc)
		err := safely(func() error { return b.DecodeBlock(r, c.rev, res) })
		if key, ok := knownTypedInferDefect(c.cols, err); ok && stats.IsKnown("C01", key) {
			st.Known(key, fmt.Sprintf("typed targets %v: %v", typeNames(c.cols), err))
			continue
		}
		if err != nil {
			rt.Fatalf("DecodeBlock(%s encoding) into typed targets %v: %v", src, typeNames(c.cols), err)
		}
		if b.Rows != c.rows || b.Columns != len(c.cols) {
			rt.Fatalf("decoded block header %d cols x %d rows, want %d x %d", b.Columns, b.Rows, len(c.cols), c.rows)
		}
		if c.rev >= ref.RevBlockInfo && (b.Info.Overflows != c.info.Overflows || b.Info.BucketNum != int(c.info.BucketNum)) {
			rt.Fatalf("decoded block info %+v want %+v", b.Info, c.info)
		}
		if !atEOF(r) {
			rt.Fatalf("DecodeBlock(%s encoding) did not consume all bytes", src)
		}
		for i, tc := range tcols {
			if n := tc.Column().Rows(); n != c.rows {
				rt.Fatalf("column %d (%s): Rows()=%d want %d", i, c.cols[i].Kind.T.Name, n, c.rows)
			}
			vals, err := readAll(tc)
			if err != nil {
				rt.Fatalf("column %d (%s): Row: %v", i, c.cols[i].Kind.T.Name, err)
			}
			if j, ok := ref.EqualRows(c.cols[i].Kind.T, vals, c.cols[i].Rows); !ok {
				rt.Fatalf("column %d (%s) from %s encoding: row %d = %s want %s", i, c.cols[i].Kind.T.Name, src, j,
					ref.Show(c.cols[i].Kind.T, vals[j]), ref.Show(c.cols[i].Kind.T, c.cols[i].Rows[j]))
			}
			if res[i].Data.Type().Conflicts(proto.ColumnType(c.cols[i].Kind.T.Name)) {
				rt.Fatalf("column %d type after decode %q conflicts with %q", i, res[i].Data.Type(), c.cols[i].Kind.T.Name)
			}
		}
	}

	// (4) automatic inference wherever every column type is inferable.
	inferable := true
	for _, col := range c.cols {
		inferable = inferable && autoInferable(col.Kind.T.Name)
	}
	if inferable {
		st.Label("auto-inferable")
		var res proto.Results
		var b proto.Block
		r := readerOf(data)
		if err := safely(func() error { return b.DecodeBlock(r, c.rev, res.Auto()) }); err != nil {
			rt.Fatalf("DecodeBlock into Results.Auto() for %v: %v", typeNames(c.cols), err)
		}
		if len(res) != len(c.cols) {
			rt.Fatalf("Auto produced %d columns want %d", len(res), len(c.cols))
		}
		if !atEOF(r) {
			rt.Fatalf("Auto decode did not consume all bytes")
		}
		for i, rc := range res {
			if rc.Name != c.cols[i].Name {
				rt.Fatalf("Auto column %d name %q want %q", i, rc.Name, c.cols[i].Name)
			}
			if rc.Data.Rows() != c.rows {
				rt.Fatalf("Auto column %d rows %d want %d", i, rc.Data.Rows(), c.rows)
			}
			if rc.Data.Type().Conflicts(proto.ColumnType(c.cols[i].Kind.T.Name)) {
				rt.Fatalf("Auto column %d type %q conflicts with %q", i, rc.Data.Type(), c.cols[i].Kind.T.Name)
			}
			vals, err := gen.ReflectRows(c.cols[i].Kind.T, rc.Data)
			if err != nil {
				rt.Fatalf("Auto column %d (%s): %v", i, c.cols[i].Kind.T.Name, err)
			}
			if j, ok := ref.EqualRows(c.cols[i].Kind.T, vals, c.cols[i].Rows); !ok {
				if j < 0 {
					rt.Fatalf("Auto column %d (%s): %d rows read want %d", i, c.cols[i].Kind.T.Name, len(vals), c.rows)
				}
				rt.Fatalf("Auto column %d (%s): row %d = %s want %s", i, c.cols[i].Kind.T.Name, j,
					ref.Show(c.cols[i].Kind.T, vals[j]), ref.Show(c.cols[i].Kind.T, c.cols[i].Rows[j]))
			}
		}
	}

	// (4b) the same through proto.AutoResult targets (a ColAuto per column inside typed Results).
	if inferable {
		var res proto.Results
		for _, col := range c.cols {
			res = append(res, proto.AutoResult(col.Name))
		}
		var b proto.Block
		r := readerOf(data)
		if err := safely(func() error { return b.DecodeBlock(r, c.rev, res) }); err != nil {
			rt.Fatalf("DecodeBlock into proto.AutoResult targets for %v: %v", typeNames(c.cols), err)
		}
		if !atEOF(r) {
			rt.Fatalf("AutoResult decode did not consume all bytes")
		}
		for i, rc := range res {
			vals, err := gen.ReflectRows(c.cols[i].Kind.T, rc.Data)
			if err != nil {
				rt.Fatalf("AutoResult column %d (%s): %v", i, c.cols[i].Kind.T.Name, err)
			}
			if j, ok := ref.EqualRows(c.cols[i].Kind.T, vals, c.cols[i].Rows); !ok {
				rt.Fatalf("AutoResult column %d (%s): row %d differs (%d rows read, want %d)", i, c.cols[i].Kind.T.Name, j, len(vals), c.rows)
			}
		}

		// (4c) copy-through: what was decoded into inferred columns (ColAuto wrappers, which
		// forward state, Prepare and both encode paths) encodes again to the same block.
		var in proto.Input
		for _, rc := range res {
			ci, ok := rc.Data.(proto.ColInput)
			if !ok {
				in = nil
				break
			}
			in = append(in, proto.InputColumn{Name: rc.Name, Data: ci})
		}
		if in != nil {
			for _, vectored := range []bool{false, true} {
				var out []byte
				err := safely(func() error {
					if vectored {
						var sink bytes.Buffer
						w := proto.NewWriter(&sink, new(proto.Buffer))
						if err := blk.WriteBlock(w, c.rev, in); err != nil {
							return err
						}
						_, err := w.Flush()
						out = sink.Bytes()
						return err
					}
					var buf proto.Buffer
					err := blk.EncodeBlock(&buf, c.rev, in)
					out = buf.Buf
					return err
				})
				if err != nil {
					rt.Fatalf("re-encoding inferred columns %v (vectored=%v): %v", typeNames(c.cols), vectored, err)
				}
				d2 := &ref.Dec{B: out}
				again, err := ref.DecodeBlock(d2, c.rev)
				if err != nil || d2.Left() != 0 {
					rt.Fatalf("re-encoded inferred columns %v (vectored=%v) do not decode by reference: %v, %d bytes left", typeNames(c.cols), vectored, err, d2.Left())
				}
				if err := ref.BlockEqual(model, again); err != nil {
					rt.Fatalf("decode into inferred columns, then encode them again (vectored=%v): block differs: %v", vectored, err)
				}
			}
			st.Label("auto-copy-through")
		}
	}

	// (5) raw block (no block info) round trip.
	{
		_, in3 := libInput(c.cols, c.bulk)
		var raw proto.Buffer
		if err := safely(func() error { return blk.EncodeRawBlock(&raw, c.rev, in3) }); err != nil {
			rt.Fatalf("EncodeRawBlock: %v", err)
		}
		rr := &ref.Enc{NoMap: true}
		ref.EncodeRawBlock(rr, c.rev, model)
		if !hasLC && !bytes.Equal(rr.B, raw.Buf) {
			rt.Fatalf("EncodeRawBlock bytes differ from reference")
		}
		tcols, res := typedTargets(c.cols)
		var b proto.Block
		r := readerOf(raw.Buf)
		err := safely(func() error { return b.DecodeRawBlock(r, c.rev, res) })
		if key, ok := knownTypedInferDefect(c.cols, err); ok && stats.IsKnown("C01", key) {
			st.Known(key, err.Error())
		} else {
			if err != nil {
				rt.Fatalf("DecodeRawBlock: %v", err)
			}
			for i, tc := range tcols {
				vals, err := readAll(tc)
				if err != nil {
					rt.Fatalf("raw column %d: %v", i, err)
				}
				if j, ok := ref.EqualRows(c.cols[i].Kind.T, vals, c.cols[i].Rows); !ok {
					rt.Fatalf("raw block column %d (%s) row %d differs", i, c.cols[i].Kind.T.Name, j)
				}
			}
		}
	}

	nt := nontrivialCols(c.cols, c.rows)
	st.Case(hashCols(c.cols, c.rev, c.prefix), nt, c.sample)
	if c.rows == 0 {
		st.Label("rows=0")
	}
	if hasLC {
		st.Label("has-LC")
	}
	if len(c.prefix) > 0 {
		st.Label("prefixed-buffer")
	}
	for _, col := range c.cols {
		st.Label("shape:" + col.Kind.Shape)
	}
}

func TestC01Block(t *testing.T) {
	rapid.Check(t, func(rt *rapid.T) {
		cols, rows := drawBlockWide(rt, 4)
		c := c01case{
			cols: cols, rows: rows,
			rev:  rapid.SampledFrom(blockRevs).Draw(rt, "rev"),
			info: ref.BlockInfo{Overflows: rapid.Bool().Draw(rt, "overflows"), BucketNum: rapid.OneOf(rapid.Just(int32(-1)), rapid.Int32()).Draw(rt, "bucket")},
			bulk: rapid.Bool().Draw(rt, "bulk"), lcBump: rapid.IntRange(0, 3).Draw(rt, "lc-key-width-bump"),
		}
		if rapid.Bool().Draw(rt, "prefixed") {
			c.prefix = rapid.SliceOfN(rapid.Byte(), 1, 40).Draw(rt, "prefix")
		}
		checkC01(rt, c)
	})
}

// TestC01LargeDictionaries steers LowCardinality dictionaries to the key-width
// boundaries and strings to the varint boundaries.
// largeDictKinds: LowCardinality kinds whose element type has more than 256 values.
func largeDictKinds() []*gen.Kind {
	lcKinds := []*gen.Kind{}
	for _, k := range gen.Kinds {
		if (k.Shape == "LowCardinality(X)" || k.Shape == "Array(LowCardinality(X))") && (k.T.Elem[0].Width >= 2 || k.T.Elem[0].K == ref.KString || k.T.Elem[0].K == ref.KLowCard) {
			lcKinds = append(lcKinds, k)
		}
	}
	return lcKinds
}

// drawLargeDict draws a LowCardinality column whose dictionary has one of the given sizes
// (the key width changes at 256 and 65536 entries).
func drawLargeDict(rt *rapid.T, lcKinds []*gen.Kind, sizes []int) (k *gen.Kind, rows []ref.Val, n int) {
	k = lcKinds[rapid.IntRange(0, len(lcKinds)-1).Draw(rt, "kind")]
	n = rapid.SampledFrom(sizes).Draw(rt, "distinct")
	seed := rapid.Uint64().Draw(rt, "seed")
	extra := rapid.IntRange(0, 20).Draw(rt, "repeats")
	inner := k.T
	for inner.K != ref.KLowCard {
		inner = inner.Elem[0]
	}
	el := inner.Elem[0]
	if el.K == ref.KFixed && el.Width == 2 && n > 65536 {
		n = 65536
	}
	mk := func(i int) ref.Val {
		if el.K == ref.KString {
			return []byte(fmt.Sprintf("v%x-%d", seed&0xffff, i))
		}
		b := make([]byte, el.Width)
		x := uint64(i)
		if el.Name == "Date32" {
			x = uint64(i - 20000) // stay inside the documented range
		}
		if strings.HasPrefix(el.Name, "Float") {
			x = uint64(i) << 3 // distinct non-NaN bit patterns
		}
		for j := 0; j < el.Width && j < 8; j++ {
			b[j] = byte(x >> (8 * j))
		}
		return b
	}
	flat := make([]ref.Val, 0, n+extra)
	for i := 0; i < n; i++ {
		flat = append(flat, mk(i))
	}
	for i := 0; i < extra; i++ {
		flat = append(flat, mk(int(seed>>8)%n))
	}
	if k.T.K == ref.KArray {
		// split flat into a few array rows
		cut := len(flat) / 3
		rows = []ref.Val{append([]ref.Val{}, flat[:cut]...), []ref.Val{}, append([]ref.Val{}, flat[cut:]...)}
	} else {
		rows = flat
	}
	return k, rows, n
}

func TestC01LargeDictionaries(t *testing.T) {
	sizes := []int{254, 255, 256, 257}
	if stats.Thorough() {
		sizes = append(sizes, 65534, 65535, 65536, 65537)
	}
	lcKinds := largeDictKinds()
	rapid.Check(t, func(rt *rapid.T) {
		k, rows, n := drawLargeDict(rt, lcKinds, sizes)
		c := c01case{cols: []colSpec{{Name: "lc", Kind: k, Rows: rows}}, rows: len(rows),
			rev: rapid.SampledFrom(blockRevs).Draw(rt, "rev"), info: ref.BlockInfo{BucketNum: -1}, bulk: rapid.Bool().Draw(rt, "bulk")}
		checkC01(rt, c)
		stats.G().Label(fmt.Sprintf("lc-dict:%d", n))
	})
}

func TestC01BigStrings(t *testing.T) {
	var strKinds []*gen.Kind
	for _, k := range gen.Kinds {
		if (k.Scalar == "String" || k.Scalar == "Bytes" || k.Scalar == "JSON") && (k.Shape == "X" || k.Shape == "Array(X)" || k.Shape == "Nullable(X)" || k.Shape == "LowCardinality(X)" || k.Shape == "Map(String,X)") {
			strKinds = append(strKinds, k)
		}
	}
	rapid.Check(t, func(rt *rapid.T) {
		k := strKinds[rapid.IntRange(0, len(strKinds)-1).Draw(rt, "kind")]
		nrows := rapid.IntRange(1, 3).Draw(rt, "rows")
		var rows []ref.Val
		for i := 0; i < nrows; i++ {
			big := gen.BigStr().Draw(rt, "big")
			switch k.T.K {
			case ref.KString, ref.KLowCard:
				rows = append(rows, big)
			case ref.KArray:
				rows = append(rows, []ref.Val{big, []byte("x")})
			case ref.KNullable:
				rows = append(rows, ref.Null{IsNull: rapid.Bool().Draw(rt, "null"), V: big})
			case ref.KMap:
				rows = append(rows, []ref.KV{{K: []byte("k"), V: big}})
			}
		}
		c := c01case{cols: []colSpec{{Name: "s", Kind: k, Rows: rows}}, rows: nrows,
			rev: rapid.SampledFrom(blockRevs).Draw(rt, "rev"), info: ref.BlockInfo{BucketNum: -1}}
		checkC01(rt, c)
		stats.G().Label("big-string")
	})
}

// Raw copy ("useful for copying from one source to another"): a block decoded into the
// non-interpreting column types - ColRaw for fixed-width types, ColLowCardinalityRaw for
// LowCardinality - and encoded again is byte-identical to what was read, whatever key width
// the source used, through the buffered and the vectored path, also when the raw columns are
// reused for a second block.
func TestC01RawCopy(t *testing.T) {
	st := stats.G()
	var kinds []*gen.Kind
	index := map[*gen.Kind]*gen.Kind{} // LowCardinality kind -> kind of its dictionary column
	for _, k := range gen.Kinds {
		switch {
		case k.Shape == "X" && k.T.K == ref.KFixed && k.T.Width > 0:
			kinds = append(kinds, k)
		case k.Shape == "LowCardinality(X)" && k.T.K == ref.KLowCard:
			el := k.T.Elem[0]
			if ik, ok := gen.ByName[el.Name+"|X|"+k.Scalar]; ok && (el.K == ref.KFixed || el.K == ref.KString) && !el.JSON {
				index[k] = ik
				kinds = append(kinds, k)
			}
		}
	}
	if len(index) == 0 {
		t.Fatal("harness: no LowCardinality kind with a catalogued dictionary type")
	}
	mkTargets := func(cols []colSpec) proto.Results {
		var res proto.Results
		for _, c := range cols {
			if ik, ok := index[c.Kind]; ok {
				res = append(res, proto.ResultColumn{Name: c.Name, Data: &proto.ColLowCardinalityRaw{Index: ik.New().Column()}})
			} else {
				res = append(res, proto.ResultColumn{Name: c.Name, Data: &proto.ColRaw{T: proto.ColumnType(c.Kind.T.Name), Size: c.Kind.T.Width}})
			}
		}
		return res
	}
	rapid.Check(t, func(rt *rapid.T) {
		rev := rapid.SampledFrom(blockRevs).Draw(rt, "rev")
		ncols := rapid.IntRange(1, 3).Draw(rt, "ncols")
		var ks []*gen.Kind
		for i := 0; i < ncols; i++ {
			ks = append(ks, kinds[rapid.IntRange(0, len(kinds)-1).Draw(rt, "kind")])
		}
		var res proto.Results
		nblocks := rapid.IntRange(1, 3).Draw(rt, "blocks")
		for bi := 0; bi < nblocks; bi++ {
			rows := gen.RowCountWide().Draw(rt, "rows")
			var cols []colSpec
			for i, k := range ks {
				cols = append(cols, colSpec{Name: fmt.Sprintf("c%d", i), Kind: k, Rows: gen.DrawRows(rt, k, rows)})
			}
			if res == nil {
				res = mkTargets(cols)
			}
			bump := rapid.IntRange(0, 3).Draw(rt, "lc-key-bump")
			e := &ref.Enc{NoMap: true, LCBump: bump}
			ref.EncodeBlock(e, rev, refBlock(cols, ref.BlockInfo{BucketNum: -1}))
			src := e.B
			var b proto.Block
			r := readerOf(src)
			if err := safely(func() error { return b.DecodeBlock(r, rev, res) }); err != nil {
				rt.Fatalf("block %d: DecodeBlock of %v into raw columns: %v", bi, typeNames(cols), err)
			}
			if !atEOF(r) {
				rt.Fatalf("block %d: raw decode left bytes unread", bi)
			}
			var in proto.Input
			allInput := true
			for i, rc := range res {
				if rc.Data.Rows() != rows {
					rt.Fatalf("block %d: raw column %d (%s) reports %d rows, block has %d", bi, i, cols[i].Kind.T.Name, rc.Data.Rows(), rows)
				}
				if rc.Data.Type().Conflicts(proto.ColumnType(cols[i].Kind.T.Name)) {
					rt.Fatalf("block %d: raw column %d reports type %q for %q", bi, i, rc.Data.Type(), cols[i].Kind.T.Name)
				}
				// Column level: the encoding of the raw column is the column's bytes in the source.
				ce := &ref.Enc{NoMap: true, LCBump: bump}
				if rows > 0 {
					ref.EncodeState(ce, cols[i].Kind.T)
					ref.EncodeColumn(ce, cols[i].Kind.T, cols[i].Rows)
				}
				var cb proto.Buffer
				cb.PutRaw([]byte("junk"))
				if se, ok := rc.Data.(proto.StateEncoder); ok && rows > 0 {
					se.EncodeState(&cb)
				}
				if rows > 0 {
					rc.Data.(interface{ EncodeColumn(*proto.Buffer) }).EncodeColumn(&cb)
				}
				if !bytes.Equal(cb.Buf[4:], ce.B) || string(cb.Buf[:4]) != "junk" {
					rt.Fatalf("block %d: raw column %d (%s, %d rows, keys widened by %d) encodes to %x, source column is %x", bi, i, cols[i].Kind.T.Name, rows, bump, cb.Buf[4:], ce.B)
				}
				if ci, ok := rc.Data.(proto.ColInput); ok {
					in = append(in, proto.InputColumn{Name: rc.Name, Data: ci})
				} else {
					allInput = false // ColRaw has no vectored path and cannot be block input
				}
			}
			if !allInput {
				st.Case(stats.Hash("rawcopy", src, rev, bi), rows > 0, nil)
				continue
			}
			blk := proto.Block{Info: proto.BlockInfo{BucketNum: -1}, Columns: len(in), Rows: rows}
			var buf proto.Buffer
			if err := safely(func() error { return blk.EncodeBlock(&buf, rev, in) }); err != nil {
				rt.Fatalf("block %d: EncodeBlock of raw columns: %v", bi, err)
			}
			if !bytes.Equal(buf.Buf, src) {
				rt.Fatalf("block %d of %d (%v, %d rows, LowCardinality keys widened by %d): the raw copy differs from the source at byte %d\nsource %x\ncopy   %x",
					bi+1, nblocks, typeNames(cols), rows, bump, firstDiff(buf.Buf, src), src, buf.Buf)
			}
			var sink bytes.Buffer
			w := proto.NewWriter(&sink, new(proto.Buffer))
			if err := safely(func() error {
				if err := blk.WriteBlock(w, rev, in); err != nil {
					return err
				}
				_, err := w.Flush()
				return err
			}); err != nil {
				rt.Fatalf("block %d: WriteBlock of raw columns: %v", bi, err)
			}
			if !bytes.Equal(sink.Bytes(), src) {
				rt.Fatalf("block %d of %d (%v, %d rows): the vectored raw copy differs from the source at byte %d", bi+1, nblocks, typeNames(cols), rows, firstDiff(sink.Bytes(), src))
			}
			st.Case(stats.Hash("rawcopy", src, rev, bi), rows > 0, func() any {
				return map[string]any{"kind": "raw-copy", "types": typeNames(cols), "rows": rows, "rev": rev, "block_no": bi + 1, "lc_key_bump": bump}
			})
		}
	})
}

// TestEveryKindC01 (run with -rapid.checks=1; outside the ^TestC01 pattern on purpose): every
// kind of the catalog, once alone and once behind a plain column, through the whole C01
// oracle, so that no type/shape combination depends on being drawn.
func TestEveryKindC01(t *testing.T) {
	first := gen.ByName["Int8|X|Int8"]
	rapid.Check(t, func(rt *rapid.T) {
		salt := rapid.IntRange(1, 1<<20).Draw(rt, "salt")
		for ki, k := range gen.Kinds {
			rows := []int{3, 1, 0, 5}[(ki+salt)%4]
			var fv, kv []ref.Val
			for i := 0; i < rows; i++ {
				fv = append(fv, first.Value.Example(salt+i))
				kv = append(kv, k.Value.Example(salt+13*ki+i))
			}
			cols := []colSpec{{Name: "k", Kind: k, Rows: kv}}
			if (ki+salt)%2 == 0 {
				cols = []colSpec{{Name: "a", Kind: first, Rows: fv}, {Name: "k", Kind: k, Rows: kv}}
			}
			c := c01case{cols: cols, rows: rows, rev: blockRevs[(ki+salt)%len(blockRevs)], info: ref.BlockInfo{BucketNum: -1}, bulk: ki%2 == 0, lcBump: ki % 4}
			if ki%3 == 0 {
				c.prefix = []byte{0xde, 0xad, 0xbe, 0xef, 0x01}
			}
			checkC01(rt, c)
		}
		stats.G().Exhaustive(fmt.Sprintf("every one of the %d catalog kinds through the whole oracle", len(gen.Kinds)))
	})
}
