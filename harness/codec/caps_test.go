//go:build verif

package codec

import "github.com/ClickHouse/ch-go/proto"

// setCaps lowers (or, with zeros, removes) the verification caps of the
// library (hook behind build tag verif).
func setCaps(rows, str int) { proto.VerifSetCaps(rows, str) }
