package codec

// C18 — result blocks bind only to compatible targets; mismatches are errors
// naming the mismatch; no target receives another column's data; blank names
// are filled then enforced; inferable targets adopt the server's parameters.
// Expected outcomes follow from the class of the generated pair, never from
// calling Conflicts.

import (
	"encoding/binary"
	"bytes"
	"fmt"
	"strings"
	"testing"
	"time"

	"github.com/ClickHouse/ch-go/proto"
	"pgregory.net/rapid"

	"verif/harness/gen"
	"verif/harness/ref"
	"verif/harness/stats"
)

type c18target struct {
	name string
	col  gen.Col // typed catalog target (nil when custom)
	data proto.ColResult
	kind *gen.Kind
	prev []ref.Val // content before this block (for "untouched")
}

var inferableKindsCache []*gen.Kind

// inferableKinds: the kinds whose type Results.Auto() can infer a column for.
func inferableKinds() []*gen.Kind {
	if inferableKindsCache == nil {
		for _, k := range gen.Kinds {
			if autoInferable(k.T.Name) {
				inferableKindsCache = append(inferableKindsCache, k)
			}
		}
	}
	return inferableKindsCache
}

func distinctKinds(rt *rapid.T, n int) []*gen.Kind {
	return distinctKindsFrom(rt, n, gen.Kinds)
}

func distinctKindsFrom(rt *rapid.T, n int, pool []*gen.Kind) []*gen.Kind {
	// Kinds with pairwise different base type names so that swaps are real mismatches.
	var out []*gen.Kind
	seen := map[string]bool{}
	for len(out) < n {
		k := pool[rapid.IntRange(0, len(pool)-1).Draw(rt, "kind")]
		b := refBase(k.T.Name)
		fam := b
		switch {
		case strings.HasPrefix(b, "Enum"), b == "Int8", b == "Int16":
			fam = "enum-int"
		case strings.HasPrefix(b, "Decimal"):
			fam = "decimal"
		case strings.HasPrefix(b, "Interval"):
			// ColInterval is an inferable target: it adopts the scale of the server's type
			fam = "interval"
		}
		if seen[fam] {
			continue
		}
		seen[fam] = true
		out = append(out, k)
	}
	return out
}

func encodeRefBlock(rev int, cols []ref.Column, customFlagAt int) []byte {
	e := &ref.Enc{}
	ref.EncodeBlock(e, rev, &ref.Block{Info: ref.BlockInfo{BucketNum: -1}, Columns: cols})
	if customFlagAt >= 0 && rev >= ref.RevCustomSerialization {
		n := 0
		for _, f := range e.Fields {
			if f.Role == ref.RFlag {
				if n == customFlagAt {
					e.B[f.Off] = 1
				}
				n++
			}
		}
	}
	return e.B
}

func c18decode(data []byte, rev int, res proto.Result) error {
	var b proto.Block
	r := readerOf(data)
	err := safely(func() error { return b.DecodeBlock(r, rev, res) })
	if err == nil && !atEOF(r) {
		// accepted, but part of the block was left unread: it would be taken for the next packet
		return fmt.Errorf("PANIC: harness: decode succeeded without consuming the whole block")
	}
	return err
}

func TestC18Binding(t *testing.T) {
	st := stats.G()
	classes := []string{"identical", "permuted", "renamed", "extra-column", "missing-column", "blank-names", "type-swapped",
		"fixedstring-size", "zero-rows-no-targets", "zero-rows-with-targets", "custom-serialization", "schema-change-sequence", "auto-targets-enforced", "autoresult-reinferred", "rows-without-columns", "names-differ-by-case", "single-result-column"}
	rapid.Check(t, func(rt *rapid.T) {
		class := rapid.SampledFrom(classes).Draw(rt, "class")
		rev := rapid.SampledFrom(blockRevs).Draw(rt, "rev")
		n := rapid.IntRange(2, 4).Draw(rt, "ncols")
		kinds := distinctKinds(rt, n)
		if class == "auto-targets-enforced" || class == "autoresult-reinferred" {
			kinds = distinctKindsFrom(rt, n, inferableKinds())
		}
		rows := rapid.IntRange(1, 6).Draw(rt, "rows")
		var cols []colSpec
		for i, k := range kinds {
			cols = append(cols, colSpec{Name: fmt.Sprintf("c%d", i), Kind: k, Rows: gen.DrawRows(rt, k, rows)})
		}
		mkTargets := func(blank bool) ([]gen.Col, proto.Results) {
			tc, res := typedTargets(cols)
			if blank {
				for i := range res {
					res[i].Name = ""
				}
			}
			return tc, res
		}
		blockCols := func(cs []colSpec) []ref.Column {
			var out []ref.Column
			for _, c := range cs {
				out = append(out, c.refCol())
			}
			return out
		}
		expectOK := func(tc []gen.Col, res proto.Results, cs []colSpec, err error, what string) {
			if err != nil {
				rt.Fatalf("[%s] %s: decode failed: %v (types %v)", class, what, err, typeNames(cs))
			}
			for i := range cs {
				vals, rerr := readAll(tc[i])
				if rerr != nil {
					rt.Fatalf("[%s] %s: target %d: %v", class, what, i, rerr)
				}
				if j, ok := ref.EqualRows(cs[i].Kind.T, vals, cs[i].Rows); !ok {
					rt.Fatalf("[%s] %s: target %d (%s) does not hold its own column (row %d)", class, what, i, cs[i].Kind.T.Name, j)
				}
				if res[i].Name != cs[i].Name {
					rt.Fatalf("[%s] %s: target %d name %q want %q", class, what, i, res[i].Name, cs[i].Name)
				}
			}
		}
		// expectErr: error must name the mismatch; targets hold nothing foreign.
		expectErr := func(tc []gen.Col, own []colSpec, prev [][]ref.Val, err error, mentions []string, what string) {
			if err == nil || isPanic(err) {
				rt.Fatalf("[%s] %s: decode returned %v, want an error (block %v)", class, what, err, typeNames(cols))
			}
			ok := len(mentions) == 0
			for _, m := range mentions {
				if strings.Contains(err.Error(), m) {
					ok = true
				}
			}
			if !ok {
				rt.Fatalf("[%s] %s: error %q does not name the mismatch (expected one of %q)", class, what, err, mentions)
			}
			for i := range tc {
				vals, rerr := readAll(tc[i])
				if rerr != nil {
					rt.Fatalf("[%s] %s: target %d unreadable after failed decode: %v", class, what, i, rerr)
				}
				if len(vals) == 0 {
					continue
				}
				if i < len(own) && own[i].Kind == kindOf(tc, i, cols) {
					if _, same := ref.EqualRows(own[i].Kind.T, vals, own[i].Rows); same {
						continue
					}
				}
				if prev != nil && i < len(prev) {
					if _, same := ref.EqualRows(cols[i].Kind.T, vals, prev[i]); same {
						continue
					}
				}
				rt.Fatalf("[%s] %s: after the failed decode target %d (%s) holds %d rows that are neither its own column nor its previous content", class, what, i, cols[i].Kind.T.Name, len(vals))
			}
		}
		switch class {
		case "identical":
			tc, res := mkTargets(false)
			expectOK(tc, res, cols, c18decode(encodeRefBlock(rev, blockCols(cols), -1), rev, res), "block of the targets' own schema")
		case "permuted":
			perm := append([]colSpec(nil), cols...)
			i := rapid.IntRange(0, n-2).Draw(rt, "swap")
			perm[i], perm[i+1] = perm[i+1], perm[i]
			tc, res := mkTargets(false)
			err := c18decode(encodeRefBlock(rev, blockCols(perm), -1), rev, res)
			expectErr(tc, perm, nil, err, []string{perm[i].Name}, "columns permuted")
		case "renamed":
			i := rapid.IntRange(0, n-1).Draw(rt, "which")
			ren := append([]colSpec(nil), cols...)
			ren[i].Name = "other_" + ren[i].Name
			tc, res := mkTargets(false)
			err := c18decode(encodeRefBlock(rev, blockCols(ren), -1), rev, res)
			expectErr(tc, cols, nil, err, []string{ren[i].Name}, "one column renamed")
		case "single-result-column":
			// A ResultColumn used by itself as the Result ("single result" helper): with its name given it
			// binds that column only; with a blank name the first block's name is taken and enforced
			// afterwards, as for a list of targets.
			k := cols[0].Kind
			named := proto.ResultColumn{Name: "a", Data: k.New().Column()}
			if err := c18decode(encodeRefBlock(rev, []ref.Column{{Name: "a", T: k.T, Rows: cols[0].Rows}}, -1), rev, named); err != nil {
				rt.Fatalf("[%s] block a into the single target a: %v", class, err)
			}
			if err := c18decode(encodeRefBlock(rev, []ref.Column{{Name: "b", T: k.T, Rows: cols[0].Rows}}, -1), rev, named); err == nil || isPanic(err) {
				rt.Fatalf("[%s] block with column b was bound to the single target named a (%v)", class, err)
			}
			blank := proto.ResultColumn{Data: k.New().Column()}
			if err := c18decode(encodeRefBlock(rev, []ref.Column{{Name: "a", T: k.T, Rows: cols[0].Rows}}, -1), rev, blank); err != nil {
				rt.Fatalf("[%s] first block into the single target with a blank name: %v", class, err)
			}
			second := gen.DrawRows(rt, k, rows)
			if err := c18decode(encodeRefBlock(rev, []ref.Column{{Name: "b", T: k.T, Rows: second}}, -1), rev, blank); err == nil || isPanic(err) {
				if err == nil && stats.IsKnown("C18", "single-resultcolumn-blank-name-not-enforced") {
					st.Known("single-resultcolumn-blank-name-not-enforced", fmt.Sprintf("ResultColumn{Data: %s} as Result: first block names the column a, a second block with column b is bound to it", k.T.Name))
				} else {
					rt.Fatalf("[%s] a single ResultColumn with a blank name took the name a from the first block, yet a block with column b was bound to it (%v)", class, err)
				}
			}
		case "names-differ-by-case":
			// Column names are case-sensitive (SELECT x AS ID, y AS id is legal): two targets of one type
			// whose names differ by case only. The block in target order binds; the same two columns in
			// the other order, or a column whose name differs from its target's by case only, do not.
			base := rapid.SampledFrom([]string{"id", "Name", "userId", "x"}).Draw(rt, "base-name")
			up, lo := strings.ToUpper(base), strings.ToLower(base)
			if up == base {
				base = lo
			}
			k := cols[0].Kind
			pair := []colSpec{{Name: base, Kind: k, Rows: cols[0].Rows}, {Name: up, Kind: k, Rows: gen.DrawRows(rt, k, rows)}}
			mk := func() ([]gen.Col, proto.Results) { return typedTargets(pair) }
			tc, res := mk()
			if err := c18decode(encodeRefBlock(rev, blockCols(pair), -1), rev, res); err != nil {
				rt.Fatalf("[%s] block %q, %q into targets of the same names: %v", class, base, up, err)
			}
			for i := range tc {
				got, _ := readAll(tc[i])
				if j, ok := ref.EqualRows(k.T, got, pair[i].Rows); !ok {
					rt.Fatalf("[%s] target %q: row %d differs after the matching block", class, pair[i].Name, j)
				}
			}
			swapped := []colSpec{pair[1], pair[0]}
			tc, res = mk()
			err := c18decode(encodeRefBlock(rev, blockCols(swapped), -1), rev, res)
			if err == nil || isPanic(err) {
				got0, _ := readAll(tc[0])
				_, same := ref.EqualRows(k.T, got0, pair[1].Rows)
				rt.Fatalf("[%s] block with columns %q, %q decoded into targets %q, %q without an error (%v); target %q now holds the rows of column %q: %v", class, up, base, base, up, err, base, up, same)
			}
			recased := []colSpec{{Name: base, Kind: k, Rows: pair[0].Rows}, {Name: strings.ToUpper(base[:1]) + strings.ToLower(base[1:]) + "_", Kind: k, Rows: pair[1].Rows}}
			recased[1].Name = strings.TrimSuffix(recased[1].Name, "_")
			if recased[1].Name != up && recased[1].Name != base {
				tc, res = mk()
				if err := c18decode(encodeRefBlock(rev, blockCols(recased), -1), rev, res); err == nil || isPanic(err) {
					rt.Fatalf("[%s] column %q was bound to the target named %q (%v)", class, recased[1].Name, up, err)
				}
			}
			// a blank target name takes the block's spelling and holds later blocks to it
			tc, res = mk()
			res[1].Name = ""
			if err := c18decode(encodeRefBlock(rev, blockCols(pair), -1), rev, res); err != nil {
				rt.Fatalf("[%s] blank second target name: %v", class, err)
			}
			lower := []colSpec{pair[0], {Name: lo + "", Kind: k, Rows: pair[1].Rows}}
			if lower[1].Name != up {
				// (the second block calls the column by the first target's spelling or another casing)
				if err := c18decode(encodeRefBlock(rev, blockCols([]colSpec{pair[0], {Name: strings.ToLower(up[:1]) + up[1:], Kind: k, Rows: pair[1].Rows}}), -1), rev, res); strings.ToLower(up[:1])+up[1:] != up && (err == nil || isPanic(err)) {
					rt.Fatalf("[%s] name %q inferred from the first block, a later block calling the column %q was accepted (%v)", class, up, strings.ToLower(up[:1])+up[1:], err)
				}
			}
			_ = tc
		case "extra-column":
			extra := append(append([]colSpec(nil), cols...), colSpec{Name: "extra", Kind: cols[0].Kind, Rows: cols[0].Rows})
			tc, res := mkTargets(false)
			err := c18decode(encodeRefBlock(rev, blockCols(extra), -1), rev, res)
			expectErr(tc, nil, nil, err, []string{"columns", "target"}, "block has one more column than targets")
		case "missing-column":
			tc, res := mkTargets(false)
			err := c18decode(encodeRefBlock(rev, blockCols(cols[:n-1]), -1), rev, res)
			expectErr(tc, nil, nil, err, []string{"columns", "target"}, "block has one column fewer than targets")
		case "blank-names":
			tc, res := mkTargets(true)
			expectOK(tc, res, cols, c18decode(encodeRefBlock(rev, blockCols(cols), -1), rev, res), "blank target names")
			// Enforced afterwards: a second block with another name fails, the same names succeed.
			second := append([]colSpec(nil), cols...)
			for i := range second {
				second[i].Rows = gen.DrawRows(rt, second[i].Kind, rows)
			}
			expectOK(tc, res, second, c18decode(encodeRefBlock(rev, blockCols(second), -1), rev, res), "second block, same names")
			var prev [][]ref.Val
			for _, c := range second {
				prev = append(prev, c.Rows)
			}
			i := rapid.IntRange(0, n-1).Draw(rt, "which")
			third := append([]colSpec(nil), second...)
			third[i].Name = "renamed"
			err := c18decode(encodeRefBlock(rev, blockCols(third), -1), rev, res)
			expectErr(tc, third, prev, err, []string{"renamed"}, "third block with a different name after names were inferred")
		case "type-swapped":
			i := rapid.IntRange(0, n-1).Draw(rt, "which")
			j := (i + 1) % n
			sw := append([]colSpec(nil), cols...)
			sw[i] = colSpec{Name: cols[i].Name, Kind: cols[j].Kind, Rows: cols[j].Rows} // column i carries column j's type and data
			tc, res := mkTargets(false)
			err := c18decode(encodeRefBlock(rev, blockCols(sw), -1), rev, res)
			expectErr(tc, cols, nil, err, []string{cols[j].Kind.T.Name, cols[i].Kind.T.Name, cols[i].Name, "infer"}, "column type replaced by a type of a different base")
		case "fixedstring-size":
			a, b := rapid.SampledFrom([]int{1, 3, 20}).Draw(rt, "n"), rapid.SampledFrom([]int{2, 4, 19, 21}).Draw(rt, "m")
			target := &proto.ColFixedStr{Size: a}
			bt := ref.Fixed(fmt.Sprintf("FixedString(%d)", b), b)
			var vals []ref.Val
			for i := 0; i < rows; i++ {
				vals = append(vals, gen.Expand(uint64(i+1), b))
			}
			res := proto.Results{{Name: "f", Data: target}}
			err := c18decode(encodeRefBlock(rev, []ref.Column{{Name: "f", T: bt, Rows: vals}}, -1), rev, res)
			if err == nil || isPanic(err) {
				rt.Fatalf("[%s] FixedString(%d) block decoded into FixedString(%d) target: %v", class, b, a, err)
			}
			if target.Rows() != 0 {
				rt.Fatalf("[%s] target holds %d rows after the rejected block", class, target.Rows())
			}
		case "rows-without-columns":
			// A header announcing rows but no columns has nothing the targets could be bound to:
			// an error with targets and without a target; only 0 x 0 is the end marker.
			nrows := rapid.SampledFrom([]int{1, 2, rows, 1000, 1 << 20}).Draw(rt, "announced-rows")
			hdr := func(c, r int) []byte {
				e := &ref.Enc{}
				ref.EncodeBlock(e, rev, &ref.Block{Info: ref.BlockInfo{BucketNum: -1}})
				// the empty block ends with its two counts, one byte each: columns, rows
				out := append([]byte(nil), e.B[:len(e.B)-2]...)
				out = binary.AppendUvarint(out, uint64(c))
				return binary.AppendUvarint(out, uint64(r))
			}
			tc, res := mkTargets(false)
			for i := range tc {
				tc[i].AppendBulk(cols[i].Rows)
			}
			err := c18decode(hdr(0, nrows), rev, res)
			if err == nil || isPanic(err) {
				rt.Fatalf("[%s] block announcing %d rows and 0 columns was accepted by %d typed targets (%v)", class, nrows, n, err)
			}
			// (An empty, non-nil target list has the same column count as this block, zero, and binds nothing:
			// the statement does not make that an error. A nil target is "no target".)
			if err := c18decode(hdr(0, nrows), rev, nil); err == nil || isPanic(err) {
				rt.Fatalf("[%s] block announcing %d rows and 0 columns was accepted without a target (%v)", class, nrows, err)
			}
			for i := range tc {
				if got := tc[i].Column().Rows(); got != rows {
					rt.Fatalf("[%s] target %d holds %d rows after the rejected header, had %d", class, i, got, rows)
				}
			}
			if err := c18decode(hdr(0, 0), rev, res); err != nil {
				rt.Fatalf("[%s] the 0 x 0 end marker was rejected: %v", class, err)
			}
		case "zero-rows-no-targets":
			var hdr []ref.Column
			for _, c := range cols {
				hdr = append(hdr, ref.Column{Name: c.Name, T: c.Kind.T})
			}
			if err := c18decode(encodeRefBlock(rev, hdr, -1), rev, proto.Results{}); err != nil {
				rt.Fatalf("[%s] zero-row header block without targets: %v", class, err)
			}
			// ... but rows without targets are an error.
			if err := c18decode(encodeRefBlock(rev, blockCols(cols), -1), rev, proto.Results{}); err == nil || isPanic(err) {
				rt.Fatalf("[%s] block with rows and no targets returned %v", class, err)
			}
		case "zero-rows-with-targets":
			var hdr []ref.Column
			for _, c := range cols {
				hdr = append(hdr, ref.Column{Name: c.Name, T: c.Kind.T})
			}
			tc, res := mkTargets(false)
			for i := range tc {
				tc[i].AppendBulk(cols[i].Rows) // stale content must be gone afterwards
			}
			if err := c18decode(encodeRefBlock(rev, hdr, -1), rev, res); err != nil {
				rt.Fatalf("[%s] zero-row header block: %v", class, err)
			}
			for i := range tc {
				if tc[i].Column().Rows() != 0 {
					rt.Fatalf("[%s] target %d still holds %d rows after a zero-row block", class, i, tc[i].Column().Rows())
				}
			}
			// Header with a wrong name is still a mismatch.
			hdr[0].Name = "zzz"
			if err := c18decode(encodeRefBlock(rev, hdr, -1), rev, res); err == nil || !strings.Contains(err.Error(), "zzz") {
				rt.Fatalf("[%s] zero-row header with a wrong name returned %v", class, err)
			}
			// ... and so is a header whose column type conflicts with the target (types are checked without rows too).
			hdr[0].Name = cols[0].Name
			hdr[0].T = cols[1].Kind.T
			if err := c18decode(encodeRefBlock(rev, hdr, -1), rev, res); err == nil || isPanic(err) {
				rt.Fatalf("[%s] zero-row header block announcing %s for a %s target was accepted (%v)", class, cols[1].Kind.T.Name, cols[0].Kind.T.Name, err)
			}
		case "custom-serialization":
			if rev < ref.RevCustomSerialization {
				rt.Skip("flag does not exist at this revision")
			}
			i := rapid.IntRange(0, n-1).Draw(rt, "which")
			tc, res := mkTargets(false)
			err := c18decode(encodeRefBlock(rev, blockCols(cols), i), rev, res)
			if err == nil || isPanic(err) {
				// errors.Wrapf(nil, ...) returns nil: make the defect visible
				rt.Fatalf("[%s] block with the custom-serialization flag set on column %d was accepted (err=%v)", class, i, err)
			}
			_ = tc
			// The column-description target the client binds to the header of an INSERT (proto/column.go):
			// the descriptors of an unflagged header in order, also when the target is used again for a
			// header with fewer columns; the flagged header is an error there too.
			var hdr []ref.Column
			for _, c := range cols {
				hdr = append(hdr, ref.Column{Name: c.Name, T: c.Kind.T})
			}
			var info proto.ColInfoInput
			for _, h := range [][]ref.Column{hdr, hdr[:n-1], hdr} {
				if err := c18decode(encodeRefBlock(rev, h, -1), rev, &info); err != nil {
					rt.Fatalf("[%s] zero-row header of %d columns into ColInfoInput: %v", class, len(h), err)
				}
				if len(info) != len(h) {
					rt.Fatalf("[%s] ColInfoInput holds %d descriptors after a header of %d columns", class, len(info), len(h))
				}
				for j := range h {
					if info[j].Name != h[j].Name || string(info[j].Type) != h[j].T.Name {
						rt.Fatalf("[%s] ColInfoInput[%d] = %q %s, header says %q %s", class, j, info[j].Name, info[j].Type, h[j].Name, h[j].T.Name)
					}
				}
			}
			if err := c18decode(encodeRefBlock(rev, hdr, i), rev, &info); err == nil || isPanic(err) {
				rt.Fatalf("[%s] zero-row header with the custom-serialization flag set on column %d was accepted by ColInfoInput (err=%v)", class, i, err)
			}
		case "auto-targets-enforced":
			// Targets created by Results.Auto() from the first block are the bound targets from
			// then on: a later block is held to their count, names and types.
			for _, c := range cols {
				if !autoInferable(c.Kind.T.Name) {
					rt.Skip("a type without automatic inference")
				}
			}
			var res proto.Results
			auto := res.Auto()
			decodeAutoBlock := func(data []byte) error {
				var b proto.Block
				r := readerOf(data)
				return safely(func() error { return b.DecodeBlock(r, rev, auto) })
			}
			if err := decodeAutoBlock(encodeRefBlock(rev, blockCols(cols), -1)); err != nil {
				rt.Fatalf("[%s] first block %v into Results.Auto(): %v", class, typeNames(cols), err)
			}
			if len(res) != n {
				rt.Fatalf("[%s] %d targets inferred from a block of %d columns", class, len(res), n)
			}
			second := append([]colSpec(nil), cols...)
			for i := range second {
				second[i].Rows = gen.DrawRows(rt, second[i].Kind, rows)
			}
			how := rapid.SampledFrom([]string{"same", "extra", "missing", "renamed", "type-swapped"}).Draw(rt, "second-block")
			i := rapid.IntRange(0, n-1).Draw(rt, "which")
			switch how {
			case "extra":
				second = append(second, colSpec{Name: "extra", Kind: cols[0].Kind, Rows: second[0].Rows})
			case "missing":
				second = second[:n-1]
			case "renamed":
				second[i].Name = "renamed"
			case "type-swapped":
				j := (i + 1) % n
				second[i] = colSpec{Name: cols[i].Name, Kind: cols[j].Kind, Rows: second[j].Rows}
			}
			err := decodeAutoBlock(encodeRefBlock(rev, blockCols(second), -1))
			st.Label("auto-second-block:" + how)
			if how == "same" {
				if err != nil {
					rt.Fatalf("[%s] second block of the same schema: %v", class, err)
				}
			} else if err == nil || isPanic(err) {
				rt.Fatalf("[%s] second block (%s: %v) after targets were inferred from %v: decode returned %v, want an error", class, how, typeNames(second), typeNames(cols), err)
			}
			if len(res) != n {
				rt.Fatalf("[%s] second block (%s) changed the number of bound targets from %d to %d", class, how, n, len(res))
			}
			for k := range res {
				if res[k].Name != cols[k].Name || res[k].Data.Type().Conflicts(proto.ColumnType(cols[k].Kind.T.Name)) {
					rt.Fatalf("[%s] second block (%s): target %d is now %q %s, was inferred as %q %s", class, how, k, res[k].Name, res[k].Data.Type(), cols[k].Name, cols[k].Kind.T.Name)
				}
				vals, rerr := gen.ReflectRows(cols[k].Kind.T, res[k].Data)
				if rerr != nil {
					rt.Fatalf("[%s] second block (%s): target %d unreadable: %v", class, how, k, rerr)
				}
				if how == "same" {
					if j, ok := ref.EqualRows(cols[k].Kind.T, vals, second[k].Rows); !ok {
						rt.Fatalf("[%s] second block: target %d row %d differs", class, k, j)
					}
					continue
				}
				// Rejected: the target must not have received ANOTHER column's data. (It may be empty,
				// keep the first block's rows or hold its own column; the rejected block may also have
				// changed a parameter of an inferable target before the mismatch was noticed, so that
				// kept rows read differently - the statement does not forbid that, hence the positive
				// test for foreign data on the encoded bytes rather than "one of the allowed contents".)
				if len(vals) == 0 {
					continue
				}
				var raw proto.Buffer
				if perr := safely(func() error {
					if p, ok := res[k].Data.(proto.Preparable); ok {
						if err := p.Prepare(); err != nil {
							return err
						}
					}
					res[k].Data.(interface{ EncodeColumn(*proto.Buffer) }).EncodeColumn(&raw)
					return nil
				}); perr != nil {
					continue
				}
				for j := range second {
					if j == k || len(second[j].Rows) == 0 {
						continue
					}
					fe := &ref.Enc{NoMap: true}
					ref.EncodeColumn(fe, second[j].Kind.T, second[j].Rows)
					oe := &ref.Enc{NoMap: true}
					if k < len(second) {
						ref.EncodeColumn(oe, second[k].Kind.T, second[k].Rows)
					}
					f1 := &ref.Enc{NoMap: true}
					ref.EncodeColumn(f1, cols[k].Kind.T, cols[k].Rows)
					if bytes.Equal(raw.Buf, fe.B) && !bytes.Equal(raw.Buf, oe.B) && !bytes.Equal(raw.Buf, f1.B) && !cols[k].Kind.T.HasLC() {
						rt.Fatalf("[%s] second block (%s) rejected, but target %d (%s) holds the data of column %d (%s)", class, how, k, cols[k].Kind.T.Name, j, second[j].Kind.T.Name)
					}
				}
			}
		case "autoresult-reinferred":
			// Caller-placed inferring targets (proto.AutoResult) reused for several blocks whose
			// column types change under unchanged names: every block is decoded with its own
			// types (same width, other width, composite instead of scalar).
			var res proto.Results
			for _, c := range cols {
				res = append(res, proto.AutoResult(c.Name))
			}
			cur := cols
			for b, nb := 0, rapid.IntRange(2, 4).Draw(rt, "blocks"); b < nb; b++ {
				if b > 0 {
					next := distinctKindsFrom(rt, n, inferableKinds())
					cur = nil
					for i, k := range next {
						switch rapid.IntRange(0, 3).Draw(rt, "keep-type") {
						case 0:
							k = cols[i].Kind
						case 1, 2:
							// the same shape over the same scalar family with other parameters
							// (DateTime64 precision / zone, Enum definition), at any nesting depth
							var sib []*gen.Kind
							for _, x := range inferableKinds() {
								if x.Shape == cols[i].Kind.Shape && x.Scalar == cols[i].Kind.Scalar && x != cols[i].Kind {
									sib = append(sib, x)
								}
							}
							if len(sib) > 0 {
								k = sib[rapid.IntRange(0, len(sib)-1).Draw(rt, "sibling")]
								st.Label("autoresult-reinferred:same-shape-other-parameters")
							}
						}
						cur = append(cur, colSpec{Name: cols[i].Name, Kind: k})
					}
					r2 := rapid.IntRange(0, 5).Draw(rt, "rows")
					for i := range cur {
						cur[i].Rows = gen.DrawRows(rt, cur[i].Kind, r2)
					}
				}
				if err := c18decode(encodeRefBlock(rev, blockCols(cur), -1), rev, res); err != nil {
					rt.Fatalf("[%s] block %d (%v) into reused AutoResult targets: %v", class, b, typeNames(cur), err)
				}
				for i, c := range cur {
					if res[i].Data.Type().Conflicts(proto.ColumnType(c.Kind.T.Name)) {
						rt.Fatalf("[%s] block %d: target %d reports %q for a column of type %q", class, b, i, res[i].Data.Type(), c.Kind.T.Name)
					}
					vals, rerr := gen.ReflectRows(c.Kind.T, res[i].Data)
					if rerr != nil {
						rt.Fatalf("[%s] block %d: target %d (%s): %v", class, b, i, c.Kind.T.Name, rerr)
					}
					if j, ok := ref.EqualRows(c.Kind.T, vals, c.Rows); !ok {
						rt.Fatalf("[%s] block %d: target %d (%s, previously %s) row %d differs: the target was not re-inferred for the block's type", class, b, i, c.Kind.T.Name, cols[i].Kind.T.Name, j)
					}
				}
			}
		case "schema-change-sequence":
			tc, res := mkTargets(false)
			var prev [][]ref.Val
			steps := rapid.IntRange(2, 4).Draw(rt, "blocks")
			for s := 0; s < steps; s++ {
				cur := append([]colSpec(nil), cols...)
				for i := range cur {
					cur[i].Rows = gen.DrawRows(rt, cur[i].Kind, rapid.IntRange(1, 4).Draw(rt, "r"))
				}
				n0 := len(cur[0].Rows)
				for i := range cur {
					for len(cur[i].Rows) < n0 {
						cur[i].Rows = append(cur[i].Rows, cur[i].Kind.Value.Draw(rt, "pad"))
					}
					cur[i].Rows = cur[i].Rows[:n0]
				}
				if rapid.Bool().Draw(rt, "break-schema") {
					i := rapid.IntRange(0, n-1).Draw(rt, "which")
					bad := append([]colSpec(nil), cur...)
					bad[i].Name = "changed"
					err := c18decode(encodeRefBlock(rev, blockCols(bad), -1), rev, res)
					expectErr(tc, bad, prev, err, []string{"changed"}, fmt.Sprintf("block %d with changed schema", s))
					// after a failed block, prefix targets may hold the failed block's own data
					prev = nil
					for i := range tc {
						v, _ := readAll(tc[i])
						prev = append(prev, v)
					}
					continue
				}
				expectOK(tc, res, cur, c18decode(encodeRefBlock(rev, blockCols(cur), -1), rev, res), fmt.Sprintf("block %d", s))
				prev = nil
				for _, c := range cur {
					prev = append(prev, c.Rows)
				}
			}
		}
		st.Case(hashCols(cols, class, rev), class != "identical", func() any {
			return map[string]any{"kind": "binding", "class": class, "types": typeNames(cols), "rows": rows, "rev": rev}
		})
		st.Label("class:" + class)
	})
}

func kindOf(tc []gen.Col, i int, cols []colSpec) *gen.Kind {
	if i < len(cols) {
		return cols[i].Kind
	}
	return nil
}

// Inferable targets adopt the server's parameters; documented equivalences bind.
func TestC18InferAndEquivalences(t *testing.T) {
	st := stats.G()
	rapid.Check(t, func(rt *rapid.T) {
		rev := rapid.SampledFrom(blockRevs).Draw(rt, "rev")
		rows := rapid.IntRange(1, 5).Draw(rt, "rows")
		class := rapid.SampledFrom([]string{"enum-adopts-definition", "array-of-enum", "map-of-enum", "map-of-two-inferables", "datetime-adopts-zone", "datetime64-adopts-precision",
			"array-datetime64", "enum-vs-int", "decimal-alias", "nullable-datetime64", "array-datetime-zone"}).Draw(rt, "class")
		le := func(w int, v int64) []byte {
			b := make([]byte, w)
			for i := range b {
				b[i] = byte(v >> (8 * i))
			}
			return b
		}
		decode := func(cols []ref.Column, res proto.Results) {
			if err := c18decode(encodeRefBlock(rev, cols, -1), rev, res); err != nil {
				rt.Fatalf("[%s] decode of %s into %T: %v", class, cols[0].T.Name, res[0].Data, err)
			}
		}
		switch class {
		case "enum-adopts-definition", "array-of-enum", "map-of-enum":
			// The definition the server announces: 2-4 members whose names may carry leading,
			// trailing or inner blanks, commas, equals signs or parentheses, be empty or non-ASCII
			// (no quote or backslash: the library keeps names in their escaped spelling, and which
			// spelling a caller gets is not part of the statement).
			pool := []string{"x", "y", " a", "a", "b ", "x y", "", "ключ", "a.b", "-", "  ", " lead and trail ", "a,b", "x=1,y", "=", ", ", "k = 5", "(", "f(x)"}
			names := map[int64]string{5: "x", -7: "y"}
			if rapid.Bool().Draw(rt, "generated-definition") {
				perm := rapid.Permutation(pool).Draw(rt, "member-names")
				names = map[int64]string{5: perm[0], -7: perm[1]}
				for i, extra := 2, rapid.IntRange(0, 2).Draw(rt, "more-members"); i < 2+extra; i++ {
					names[int64(10*i)] = perm[i]
				}
			}
			var defParts []string
			for _, raw := range []int64{5, -7, 20, 30} {
				if nm, ok := names[raw]; ok {
					defParts = append(defParts, fmt.Sprintf("'%s' = %d", nm, raw))
				}
			}
			def := "Enum8(" + strings.Join(defParts, ", ") + ")"
			et := ref.Fixed(def, 1)
			target := new(proto.ColEnum)
			if rapid.Bool().Draw(rt, "pre-inferred-with-other-definition") {
				_ = target.Infer("Enum8('old' = 5)")
			}
			var raws []int64
			for i := 0; i < rows; i++ {
				raws = append(raws, rapid.SampledFrom([]int64{5, -7}).Draw(rt, "raw"))
			}
			switch class {
			case "enum-adopts-definition":
				var vals []ref.Val
				for _, r := range raws {
					vals = append(vals, le(1, r))
				}
				decode([]ref.Column{{Name: "e", T: et, Rows: vals}}, proto.Results{{Name: "e", Data: target}})
				if string(target.Type()) != def {
					rt.Fatalf("[%s] target reports %q after decode, want the server's %q", class, target.Type(), def)
				}
				for i, r := range raws {
					if target.Row(i) != names[r] {
						rt.Fatalf("[%s] row %d = %q want %q", class, i, target.Row(i), names[r])
					}
				}
				// The next block announces the same members under the other base (an enum widened by
				// ALTER): the same target adopts that too - two bytes per value from now on.
				def16 := "Enum16(" + strings.Join(defParts, ", ") + ")"
				var vals16 []ref.Val
				var raws16 []int64
				for i, n2 := 0, rapid.IntRange(1, 5).Draw(rt, "rows-2"); i < n2; i++ {
					r := rapid.SampledFrom([]int64{5, -7}).Draw(rt, "raw-2")
					raws16 = append(raws16, r)
					vals16 = append(vals16, le(2, r))
				}
				decode([]ref.Column{{Name: "e", T: ref.Fixed(def16, 2), Rows: vals16}}, proto.Results{{Name: "e", Data: target}})
				if string(target.Type()) != def16 || target.Rows() != len(raws16) {
					rt.Fatalf("[%s] after a block of %q the target used for %q before reports %q and %d rows (want %d)", class, def16, def, target.Type(), target.Rows(), len(raws16))
				}
				for i, r := range raws16 {
					if target.Row(i) != names[r] {
						rt.Fatalf("[%s] second block (%s after %s): row %d = %q want %q", class, def16, def, i, target.Row(i), names[r])
					}
				}
			case "array-of-enum":
				arr := proto.NewArray[string](target)
				var vals []ref.Val
				for _, r := range raws {
					vals = append(vals, []ref.Val{le(1, r), le(1, 5)})
				}
				decode([]ref.Column{{Name: "e", T: ref.Array(et), Rows: vals}}, proto.Results{{Name: "e", Data: arr}})
				for i, r := range raws {
					if got := arr.Row(i); len(got) != 2 || got[0] != names[r] || got[1] != names[5] {
						rt.Fatalf("[%s] row %d = %v", class, i, got)
					}
				}
			case "map-of-enum":
				m := proto.NewMap[string, string](new(proto.ColStr), target)
				var vals []ref.Val
				for _, r := range raws {
					vals = append(vals, []ref.KV{{K: []byte("k"), V: le(1, r)}})
				}
				decode([]ref.Column{{Name: "e", T: ref.Map(ref.String("String"), et), Rows: vals}}, proto.Results{{Name: "e", Data: m}})
				for i, r := range raws {
					if got := m.RowKV(i); len(got) != 1 || got[0].Key != "k" || got[0].Value != names[r] {
						rt.Fatalf("[%s] row %d = %v", class, i, got)
					}
				}
			}
		case "map-of-two-inferables":
			// A map whose key and value columns both take parameters from the server's type.
			p := rapid.IntRange(0, 9).Draw(rt, "server-precision")
			keyDef := "Enum8('k one' = 1, 'k2' = 2)"
			vt := fmt.Sprintf("DateTime64(%d, 'UTC')", p)
			keys := new(proto.ColEnum)
			valsCol := new(proto.ColDateTime64).WithPrecision(proto.Precision(rapid.IntRange(0, 9).Draw(rt, "target-precision")))
			m := proto.NewMap[string, time.Time](keys, valsCol)
			mt := ref.Map(ref.Fixed(keyDef, 1), ref.Fixed(vt, 8))
			tps := int64(1)
			for i := 0; i < p; i++ {
				tps *= 10
			}
			var vals []ref.Val
			var raws []int64
			for i := 0; i < rows; i++ {
				r := rapid.Int64Range(-4_000_000_000, 4_000_000_000).Draw(rt, "ticks")
				raws = append(raws, r)
				vals = append(vals, []ref.KV{{K: le(1, int64(1+i%2)), V: le(8, r)}})
			}
			decode([]ref.Column{{Name: "m", T: mt, Rows: vals}}, proto.Results{{Name: "m", Data: m}})
			if m.Type().Conflicts(proto.ColumnType(mt.Name)) || !strings.Contains(string(m.Type()), fmt.Sprintf("DateTime64(%d", p)) || !strings.Contains(string(m.Type()), "'k one' = 1") {
				rt.Fatalf("[%s] target reports %q after decoding %q: key and value parameters must both be the server's", class, m.Type(), mt.Name)
			}
			for i, r := range raws {
				kv := m.RowKV(i)
				wantKey := []string{"k one", "k2"}[i%2]
				sec, frac := r/tps, r%tps
				if frac < 0 {
					sec, frac = sec-1, frac+tps
				}
				want := time.Unix(sec, frac*(1_000_000_000/tps))
				if len(kv) != 1 || kv[0].Key != wantKey || !kv[0].Value.Equal(want) {
					rt.Fatalf("[%s] row %d = %v, want %q -> %v (server precision %d)", class, i, kv, wantKey, want.UTC(), p)
				}
			}
		case "datetime-adopts-zone":
			zone := rapid.SampledFrom([]string{"UTC", "Europe/Berlin", "Asia/Tokyo"}).Draw(rt, "zone")
			loc, err := time.LoadLocation(zone)
			if err != nil {
				rt.Skip("no tzdata")
			}
			target := new(proto.ColDateTime)
			if rapid.Bool().Draw(rt, "pre-set-other-zone") {
				target.Location = time.FixedZone("X", 3600)
			}
			var vals []ref.Val
			var secs []int64
			for i := 0; i < rows; i++ {
				s := int64(rapid.Uint32().Draw(rt, "sec"))
				secs = append(secs, s)
				vals = append(vals, le(4, s))
			}
			tn := fmt.Sprintf("DateTime('%s')", zone)
			decode([]ref.Column{{Name: "t", T: ref.Fixed(tn, 4), Rows: vals}}, proto.Results{{Name: "t", Data: target}})
			if string(target.Type()) != tn {
				rt.Fatalf("[%s] target reports %q want %q", class, target.Type(), tn)
			}
			for i, s := range secs {
				if r := target.Row(i); r.Unix() != s || r.Location().String() != loc.String() {
					rt.Fatalf("[%s] row %d = %v want unix %d in %s", class, i, r, s, zone)
				}
			}
		case "array-datetime-zone":
			zone := rapid.SampledFrom([]string{"UTC", "Europe/Berlin", "Asia/Tokyo", "America/St_Johns"}).Draw(rt, "zone")
			loc, err := time.LoadLocation(zone)
			if err != nil {
				rt.Skip("no tzdata")
			}
			tn := fmt.Sprintf("DateTime('%s')", zone)
			var vals []ref.Val
			var secs [][]int64
			for i := 0; i < rows; i++ {
				var row []ref.Val
				var rs []int64
				for j := rapid.IntRange(0, 3).Draw(rt, "len"); j > 0; j-- {
					s := int64(rapid.Uint32().Draw(rt, "sec"))
					rs = append(rs, s)
					row = append(row, le(4, s))
				}
				vals = append(vals, row)
				secs = append(secs, rs)
			}
			flavour := rapid.SampledFrom([]string{"auto", "helper", "helper-other-zone", "new-array"}).Draw(rt, "target")
			var res proto.Results
			var arr *proto.ColArr[time.Time]
			switch flavour {
			case "auto":
				res = proto.Results{}
			case "helper":
				arr = new(proto.ColDateTime).Array()
			case "helper-other-zone":
				arr = (&proto.ColDateTime{Location: time.FixedZone("X", 3600)}).Array()
			case "new-array":
				arr = proto.NewArray[time.Time](new(proto.ColDateTime))
			}
			if arr != nil {
				res = proto.Results{{Name: "t", Data: arr}}
				decode([]ref.Column{{Name: "t", T: ref.Array(ref.Fixed(tn, 4)), Rows: vals}}, res)
			} else {
				if err := c18decode(encodeRefBlock(rev, []ref.Column{{Name: "t", T: ref.Array(ref.Fixed(tn, 4)), Rows: vals}}, -1), rev, res.Auto()); err != nil {
					rt.Fatalf("[%s] automatic target: %v", class, err)
				}
				var inferred any = res[0].Data
				if a, ok := inferred.(*proto.ColAuto); ok {
					inferred = a.Data
				}
				var ok bool
				arr, ok = inferred.(*proto.ColArr[time.Time])
				if !ok {
					rt.Fatalf("[%s] inferred column is %T, want an array of times", class, inferred)
				}
			}
			if got, want := string(arr.Type()), "Array("+tn+")"; got != want {
				rt.Fatalf("[%s/%s] target reports %q after decoding a block of %q", class, flavour, got, want)
			}
			for i, rs := range secs {
				got := arr.Row(i)
				if len(got) != len(rs) {
					rt.Fatalf("[%s/%s] row %d has %d elements want %d", class, flavour, i, len(got), len(rs))
				}
				for j, s := range rs {
					if got[j].Unix() != s || got[j].Location().String() != loc.String() {
						rt.Fatalf("[%s/%s] row %d element %d = %v (zone %s) want unix %d in %s", class, flavour, i, j, got[j], got[j].Location(), s, zone)
					}
				}
			}
		case "datetime64-adopts-precision", "array-datetime64", "nullable-datetime64":
			p := rapid.IntRange(0, 9).Draw(rt, "server-precision")
			tp := rapid.IntRange(0, 9).Draw(rt, "target-precision")
			target := new(proto.ColDateTime64).WithPrecision(proto.Precision(tp))
			tn := fmt.Sprintf("DateTime64(%d)", p)
			et := ref.Fixed(tn, 8)
			tps := int64(1)
			for i := 0; i < p; i++ {
				tps *= 10
			}
			var raws []int64
			for i := 0; i < rows; i++ {
				raws = append(raws, rapid.Int64Range(-2208988800*tps, 9223372035*tps).Draw(rt, "raw"))
			}
			wantTime := func(raw int64) (int64, int64) {
				sec := raw / tps
				rem := raw % tps
				if rem < 0 {
					sec--
					rem += tps
				}
				return sec, rem * (1_000_000_000 / tps)
			}
			checkRow := func(got time.Time, raw int64, i int) {
				s, ns := wantTime(raw)
				if got.Unix() != s || int64(got.Nanosecond()) != ns {
					rt.Fatalf("[%s] server precision %d, target created with %d: row %d = %d.%09d want %d.%09d", class, p, tp, i, got.Unix(), got.Nanosecond(), s, ns)
				}
			}
			switch class {
			case "datetime64-adopts-precision":
				var vals []ref.Val
				for _, r := range raws {
					vals = append(vals, le(8, r))
				}
				decode([]ref.Column{{Name: "t", T: et, Rows: vals}}, proto.Results{{Name: "t", Data: target}})
				if string(target.Type()) != tn {
					rt.Fatalf("[%s] target reports %q want %q", class, target.Type(), tn)
				}
				for i, r := range raws {
					checkRow(target.Row(i), r, i)
				}
			case "array-datetime64":
				arr := proto.NewArray[time.Time](target)
				var vals []ref.Val
				for _, r := range raws {
					vals = append(vals, []ref.Val{le(8, r)})
				}
				decode([]ref.Column{{Name: "t", T: ref.Array(et), Rows: vals}}, proto.Results{{Name: "t", Data: arr}})
				for i, r := range raws {
					checkRow(arr.Row(i)[0], r, i)
				}
			case "nullable-datetime64":
				// A block of Nullable(DateTime64(p)) and a target created with another precision are either
				// bound correctly (the parameter is adopted, as for the bare and the Array target) or not
				// bound at all (an error): never bound with the ticks read at the target's own precision.
				nl := proto.NewColNullable[time.Time](target)
				var vals []ref.Val
				for _, r := range raws {
					vals = append(vals, ref.Null{V: le(8, r)})
				}
				if err := c18decode(encodeRefBlock(rev, []ref.Column{{Name: "t", T: ref.Nullable(et), Rows: vals}}, -1), rev, proto.Results{{Name: "t", Data: nl}}); err != nil {
					if isPanic(err) || p == tp {
						rt.Fatalf("[%s] decode of %s into a Nullable target of precision %d: %v", class, tn, tp, err)
					}
					break // refused: fine
				}
				for i, r := range raws {
					checkRow(nl.Row(i).Value, r, i)
				}
			}
		case "enum-vs-int":
			// Enum8 <-> Int8 and Enum16 <-> Int16, each in both directions.
			wide := rapid.Bool().Draw(rt, "16-bit")
			w, intName, enumName := 1, "Int8", "Enum8('a' = 1, 'b' = 2)"
			if wide {
				w, intName, enumName = 2, "Int16", "Enum16('a' = 1, 'b' = 2000)"
			}
			var vals []ref.Val
			var raws []int16
			for i := 0; i < rows; i++ {
				v := rapid.Int16().Draw(rt, "v")
				if !wide {
					v = int16(int8(v))
				}
				raws = append(raws, v)
				vals = append(vals, le(w, int64(v)))
			}
			var target proto.ColResult
			var row func(i int) int16
			blockType := enumName
			if rapid.Bool().Draw(rt, "int-target") {
				if wide {
					t := new(proto.ColInt16)
					target, row = t, func(i int) int16 { return t.Row(i) }
				} else {
					t := new(proto.ColInt8)
					target, row = t, func(i int) int16 { return int16(t.Row(i)) }
				}
			} else {
				blockType = intName
				if wide {
					t := new(proto.ColEnum16)
					target, row = t, func(i int) int16 { return int16(t.Row(i)) }
				} else {
					t := new(proto.ColEnum8)
					target, row = t, func(i int) int16 { return int16(t.Row(i)) }
				}
			}
			st.Label("enum-vs-int:" + strings.SplitN(blockType, "(", 2)[0] + "->" + string(target.Type()))
			decode([]ref.Column{{Name: "e", T: ref.Fixed(blockType, w), Rows: vals}}, proto.Results{{Name: "e", Data: target}})
			for i, v := range raws {
				if row(i) != v {
					rt.Fatalf("[%s] block %s into %s: row %d = %d want %d", class, blockType, target.Type(), i, row(i), v)
				}
			}
		case "decimal-alias":
			prec := rapid.IntRange(1, 76).Draw(rt, "p")
			scale := rapid.IntRange(0, prec).Draw(rt, "s")
			sp := rapid.SampledFrom([]string{", ", ","}).Draw(rt, "sp")
			tn := fmt.Sprintf("Decimal(%d%s%d)", prec, sp, scale)
			var target proto.ColResult
			w := 4
			switch {
			case prec <= 9:
				target = new(proto.ColDecimal32)
			case prec <= 18:
				target, w = new(proto.ColDecimal64), 8
			case prec <= 38:
				target, w = new(proto.ColDecimal128), 16
			default:
				target, w = new(proto.ColDecimal256), 32
			}
			var vals []ref.Val
			for i := 0; i < rows; i++ {
				vals = append(vals, gen.Expand(uint64(i+3), w))
			}
			decode([]ref.Column{{Name: "d", T: ref.Fixed(tn, w), Rows: vals}}, proto.Results{{Name: "d", Data: target}})
			if target.Rows() != rows {
				rt.Fatalf("[%s] rows %d", class, target.Rows())
			}
			var b proto.Buffer
			target.(proto.Column).EncodeColumn(&b)
			want := &ref.Enc{NoMap: true}
			ref.EncodeColumn(want, ref.Fixed(tn, w), vals)
			if string(b.Buf) != string(want.B) {
				rt.Fatalf("[%s] %s decoded into %T holds different values", class, tn, target)
			}
		}
		st.Case(stats.Hash("c18i", class, rev, rows, rapid.Uint64().Draw(rt, "salt")), true, func() any {
			return map[string]any{"kind": "infer-binding", "class": class, "rev": rev, "rows": rows}
		})
		st.Label("class:" + class)
	})
}
