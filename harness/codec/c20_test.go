package codec

// C20 — scalar conversions are exact over each type's documented range.
// Oracles are independent of the library: civil-from-days arithmetic
// (Hinnant), math/big for DateTime64 and the wide integers, net/netip byte
// construction for IPv4/IPv6, (year, month) index arithmetic for intervals.

import (
	"encoding/json"
	"fmt"
	"math"
	"math/big"
	"net/netip"
	"testing"
	"time"
	_ "time/tzdata" // zones with daylight saving for Interval.Add, independent of the host's zoneinfo

	"github.com/ClickHouse/ch-go/proto"
	"pgregory.net/rapid"

	"verif/harness/stats"
)

// civilFromDays converts days since 1970-01-01 to (y, m, d) in the proleptic
// Gregorian calendar without using package time.
func civilFromDays(z int64) (int, int, int) {
	z += 719468
	era := z / 146097
	if z < 0 {
		era = (z - 146096) / 146097
	}
	doe := z - era*146097
	yoe := (doe - doe/1460 + doe/36524 - doe/146096) / 365
	y := yoe + era*400
	doy := doe - (365*yoe + yoe/4 - yoe/100)
	mp := (5*doy + 2) / 153
	d := doy - (153*mp+2)/5 + 1
	m := mp + 3
	if m > 12 {
		m -= 12
	}
	if m <= 2 {
		y++
	}
	return int(y), int(m), int(d)
}

// daysFromCivil is the inverse of civilFromDays (Hinnant), again without package time.
func daysFromCivil(y, m, d int) int64 {
	yy := int64(y)
	if m <= 2 {
		yy--
	}
	era := yy / 400
	if yy < 0 {
		era = (yy - 399) / 400
	}
	yoe := yy - era*400
	mp := int64(m) - 3
	if m <= 2 {
		mp = int64(m) + 9
	}
	doy := (153*mp+2)/5 + int64(d) - 1
	doe := yoe*365 + yoe/4 - yoe/100 + doy
	return era*146097 + doe - 719468
}

// dstZones: zones with daylight saving and no skipped calendar day since 1900; wall clocks
// between 04:00 and 22:00 exist exactly once on every day there.
func dstZones() []*time.Location {
	var zs []*time.Location
	for _, n := range []string{"America/New_York", "Europe/Berlin", "Australia/Lord_Howe", "America/Sao_Paulo", "Asia/Tehran"} {
		if l, err := time.LoadLocation(n); err == nil {
			zs = append(zs, l)
		}
	}
	return zs
}

func fixedZones() []*time.Location {
	var zs []*time.Location
	for h := -12; h <= 14; h++ {
		zs = append(zs, time.FixedZone(fmt.Sprintf("%+03d", h), h*3600))
	}
	return zs
}

var clocks = [][3]int{{0, 0, 0}, {12, 0, 0}, {23, 59, 59}}

type c20fail struct {
	What  string `json:"what"`
	Input string `json:"input"`
	Got   string `json:"got"`
	Want  string `json:"want"`
}

func c20violate(t *testing.T, key string, f c20fail) {
	t.Helper()
	data, _ := json.Marshal(f)
	p := stats.G().Violate(key, fmt.Sprintf("%s: input=%s got=%s want=%s", f.What, f.Input, f.Got, f.Want), data)
	t.Errorf("C20 %s: input=%s got=%s want=%s (replay %s)", f.What, f.Input, f.Got, f.Want, p)
}

func TestC20DateExhaustive(t *testing.T) {
	zs := fixedZones()
	st := stats.G()
	bad := 0
	var n, nt int64
	for d := 0; d <= math.MaxUint16 && bad < 5; d++ {
		y, m, dd := civilFromDays(int64(d))
		date := proto.Date(d)
		ut := date.Time()
		if ut.Year() != y || int(ut.Month()) != m || ut.Day() != dd || ut.Location() != time.UTC || ut.Hour() != 0 {
			bad++
			c20violate(t, "date-time", c20fail{"Date.Time", fmt.Sprint(d), ut.String(), fmt.Sprintf("%04d-%02d-%02d UTC", y, m, dd)})
		}
		if proto.ToDate(ut) != date {
			bad++
			c20violate(t, "date-roundtrip", c20fail{"ToDate(Date.Time())", fmt.Sprint(d), fmt.Sprint(proto.ToDate(ut)), fmt.Sprint(d)})
		}
		if proto.NewDate(y, time.Month(m), dd) != date {
			bad++
			c20violate(t, "date-new", c20fail{"NewDate", fmt.Sprint(d), fmt.Sprint(proto.NewDate(y, time.Month(m), dd)), fmt.Sprint(d)})
		}
		if want := fmt.Sprintf("%04d-%02d-%02d", y, m, dd); date.String() != want {
			bad++
			c20violate(t, "date-string", c20fail{"Date.String", fmt.Sprint(d), date.String(), want})
		}
		for _, z := range zs {
			for _, c := range clocks {
				tt := time.Date(y, time.Month(m), dd, c[0], c[1], c[2], 0, z)
				n++
				if z != zs[12] {
					nt++
				}
				if got := proto.ToDate(tt); got != date {
					bad++
					c20violate(t, "todate-zone", c20fail{"ToDate", tt.Format(time.RFC3339), fmt.Sprint(got), fmt.Sprint(d)})
				}
			}
		}
	}
	st.Enumerated(n, nt)
	st.Exhaustive("Date: all 65536 values x 27 fixed zones x 3 clock times")
	st.Sample(map[string]any{"kind": "Date", "case": "ToDate(2149-06-06T23:59:59+14:00) == 65535 and back"})
}

// Date32 documented range: 1900-01-01 .. 2299-12-31.
func TestC20Date32Exhaustive(t *testing.T) {
	zs := fixedZones()
	st := stats.G()
	lo := int64(-25567)
	hi := int64(120529)
	if y, m, d := civilFromDays(lo); y != 1900 || m != 1 || d != 1 {
		t.Fatalf("harness: civilFromDays(lo) = %d-%d-%d", y, m, d)
	}
	if y, m, d := civilFromDays(hi); y != 2299 || m != 12 || d != 31 {
		t.Fatalf("harness: civilFromDays(hi) = %d-%d-%d", y, m, d)
	}
	bad := 0
	var n, nt int64
	for d := lo; d <= hi && bad < 5; d++ {
		y, m, dd := civilFromDays(d)
		date := proto.Date32(d)
		ut := date.Time()
		if ut.Year() != y || int(ut.Month()) != m || ut.Day() != dd || ut.Hour() != 0 {
			bad++
			c20violate(t, "date32-time", c20fail{"Date32.Time", fmt.Sprint(d), ut.String(), fmt.Sprintf("%04d-%02d-%02d", y, m, dd)})
		}
		if proto.ToDate32(ut) != date {
			bad++
			c20violate(t, "date32-roundtrip", c20fail{"ToDate32(Date32.Time())", fmt.Sprint(d), fmt.Sprint(proto.ToDate32(ut)), fmt.Sprint(d)})
		}
		if proto.NewDate32(y, time.Month(m), dd) != date {
			bad++
			c20violate(t, "date32-new", c20fail{"NewDate32", fmt.Sprint(d), fmt.Sprint(proto.NewDate32(y, time.Month(m), dd)), fmt.Sprint(d)})
		}
		if want := fmt.Sprintf("%04d-%02d-%02d", y, m, dd); date.String() != want {
			bad++
			c20violate(t, "date32-string", c20fail{"Date32.String", fmt.Sprint(d), date.String(), want})
		}
		for _, z := range zs {
			for _, c := range clocks {
				tt := time.Date(y, time.Month(m), dd, c[0], c[1], c[2], 0, z)
				n++
				if d < 0 || z != zs[12] {
					nt++
				}
				if got := proto.ToDate32(tt); got != date {
					bad++
					c20violate(t, "todate32-pre1970-or-zone", c20fail{"ToDate32", tt.Format(time.RFC3339), fmt.Sprint(got), fmt.Sprint(d)})
				}
			}
		}
	}
	st.Enumerated(n, nt)
	st.Exhaustive("Date32: every day 1900-01-01..2299-12-31 x 27 fixed zones x 3 clock times")
	st.Sample(map[string]any{"kind": "Date32", "case": "ToDate32(1969-12-31T12:00:00Z) == -1"})
}

func checkDateTime(t *testing.T, x uint32, z *time.Location) bool {
	dt := proto.DateTime(x)
	back := dt.Time()
	if back.Unix() != int64(x) || back.Nanosecond() != 0 {
		c20violate(t, "datetime-time", c20fail{"DateTime.Time", fmt.Sprint(x), fmt.Sprint(back.Unix()), fmt.Sprint(x)})
		return false
	}
	// Build the instant without going through the library.
	tt := time.Unix(int64(x), 0).In(z)
	if got := proto.ToDateTime(tt); got != dt {
		c20violate(t, "todatetime", c20fail{"ToDateTime", tt.Format(time.RFC3339), fmt.Sprint(got), fmt.Sprint(x)})
		return false
	}
	return true
}

func TestC20DateTime(t *testing.T) {
	zs := fixedZones()
	st := stats.G()
	bounds := []uint32{0, 1, 59, 60, 86399, 86400, 86401, math.MaxInt32 - 1, math.MaxInt32, math.MaxInt32 + 1, math.MaxUint32 - 1, math.MaxUint32}
	for _, x := range bounds {
		for _, z := range zs {
			if !checkDateTime(t, x, z) {
				return
			}
		}
	}
	st.Enumerated(int64(len(bounds)*len(zs)), int64(len(bounds)*len(zs)))
	if stats.Thorough() {
		shard, shards := uint64(stats.EnvInt("VERIF_SHARD", 0)), uint64(stats.EnvInt("VERIF_SHARDS", 1))
		lo := (uint64(1) << 32) * shard / shards
		hi := (uint64(1) << 32) * (shard + 1) / shards
		for x := lo; x < hi; x++ {
			if !checkDateTime(t, uint32(x), zs[x%27]) {
				return
			}
		}
		st.Enumerated(int64(hi-lo), int64(hi-lo)*26/27)
		st.Exhaustive("DateTime: all 2^32 seconds (sharded), zone cycling over 27 fixed zones")
	}
	rapid.Check(t, func(rt *rapid.T) {
		x := rapid.Uint32().Draw(rt, "sec")
		zi := rapid.IntRange(0, len(zs)-1).Draw(rt, "zone")
		if !checkDateTime(t, x, zs[zi]) {
			rt.Fatalf("DateTime conversion wrong for %d in %s", x, zs[zi])
		}
		// Column view.
		col := &proto.ColDateTime{Location: zs[zi]}
		col.Append(time.Unix(int64(x), 0).In(zs[(zi+5)%27]))
		col.AppendRaw(proto.DateTime(x))
		for i := 0; i < 2; i++ {
			r := col.Row(i)
			if r.Unix() != int64(x) || r.Location() != zs[zi] {
				rt.Fatalf("ColDateTime.Row(%d)=%v want unix %d in %v", i, r, x, zs[zi])
			}
		}
		st.Case(stats.Hash("dt", x, zi), zi != 12, func() any {
			return map[string]any{"kind": "DateTime", "sec": x, "zone": zs[zi].String()}
		})
	})
}

var big1e9 = big.NewInt(1_000_000_000)

func pow10(n int) int64 {
	v := int64(1)
	for i := 0; i < n; i++ {
		v *= 10
	}
	return v
}

// dt64Range returns the documented instant range at precision p in unix seconds.
func dt64Range(p int) (lo, hi int64) {
	lo = time.Date(1900, 1, 1, 0, 0, 0, 0, time.UTC).Unix()
	hi = time.Date(2299, 12, 31, 23, 59, 59, 0, time.UTC).Unix()
	if p == 9 {
		// What int64 nanoseconds can hold (ClickHouse documents
		// 2262-04-11 23:47:16 as the maximum at precision 9).
		hi = time.Date(2262, 4, 11, 23, 47, 16, 0, time.UTC).Unix() - 1
	}
	return lo, hi
}

func checkDT64(p int, sec int64, nsec int64, z *time.Location) (key string, f c20fail, ok bool) {
	prec := proto.Precision(p)
	scale := pow10(9 - p) // ns per tick
	tt := time.Unix(sec, nsec).In(z)
	total := new(big.Int).Mul(big.NewInt(sec), big1e9)
	total.Add(total, big.NewInt(nsec))
	q, r := new(big.Int).QuoRem(total, big.NewInt(scale), new(big.Int)) // truncated
	floor := new(big.Int).Set(q)
	if r.Sign() < 0 {
		floor.Sub(floor, big.NewInt(1))
	}
	got := proto.ToDateTime64(tt, prec)
	gb := big.NewInt(int64(got))
	in := fmt.Sprintf("p=%d t=%s (unix %d.%09d)", p, tt.Format(time.RFC3339Nano), sec, nsec)
	if r.Sign() == 0 {
		if gb.Cmp(q) != 0 {
			return "todatetime64-exact", c20fail{"ToDateTime64 (representable instant)", in, gb.String(), q.String()}, false
		}
	} else if gb.Cmp(q) != 0 && gb.Cmp(floor) != 0 {
		return "todatetime64-resolution", c20fail{"ToDateTime64 (within one tick)", in, gb.String(), q.String() + " or " + floor.String()}, false
	}
	// Back: the value denotes exactly got*scale nanoseconds since the epoch.
	back := got.Time(prec)
	bt := new(big.Int).Mul(big.NewInt(back.Unix()), big1e9)
	bt.Add(bt, big.NewInt(int64(back.Nanosecond())))
	want := new(big.Int).Mul(gb, big.NewInt(scale))
	if bt.Cmp(want) != 0 {
		return "datetime64-time", c20fail{"DateTime64.Time", fmt.Sprintf("p=%d v=%d", p, int64(got)), bt.String() + "ns", want.String() + "ns"}, false
	}
	if again := proto.ToDateTime64(back, prec); again != got {
		return "datetime64-roundtrip", c20fail{"ToDateTime64(Time(v))", fmt.Sprintf("p=%d v=%d", p, int64(got)), fmt.Sprint(int64(again)), fmt.Sprint(int64(got))}, false
	}
	// Column views.
	col := new(proto.ColDateTime64).WithPrecision(prec).WithLocation(z)
	if sec%2 == 0 {
		// the way a result or input column learns its precision: set to something else first,
		// then told the server's type
		col = new(proto.ColDateTime64).WithPrecision(proto.Precision((p + 3) % 10)).WithLocation(z)
		if err := col.Infer(proto.ColumnType(fmt.Sprintf("DateTime64(%d)", p))); err != nil {
			return "coldatetime64-infer", c20fail{"ColDateTime64.Infer", in, err.Error(), "nil"}, false
		}
	}
	col.Append(tt)
	if col.Data[0] != got {
		return "coldatetime64-append", c20fail{"ColDateTime64.Append", in, fmt.Sprint(col.Data[0]), fmt.Sprint(got)}, false
	}
	if r0 := col.Row(0); !r0.Equal(back) || r0.Location() != z {
		return "coldatetime64-row", c20fail{"ColDateTime64.Row", in, r0.String(), back.In(z).String()}, false
	}
	return "", c20fail{}, true
}

func TestC20DateTime64(t *testing.T) {
	zs := fixedZones()
	st := stats.G()
	// Boundaries at every precision.
	for p := 0; p <= 12; p++ {
		pr := proto.Precision(p)
		if pr.Valid() != (p <= 9) {
			c20violate(t, "precision-valid", c20fail{"Precision.Valid", fmt.Sprint(p), fmt.Sprint(pr.Valid()), fmt.Sprint(p <= 9)})
		}
		if p <= 9 && (pr.Scale() != pow10(9-p) || pr.Duration() != time.Duration(pow10(9-p))) {
			c20violate(t, "precision-scale", c20fail{"Precision.Scale/Duration", fmt.Sprint(p), fmt.Sprintf("%d / %v", pr.Scale(), pr.Duration()), fmt.Sprintf("%d ns per tick", pow10(9-p))})
		}
	}
	for p := 0; p <= 9; p++ {
		lo, hi := dt64Range(p)
		tick := pow10(9 - p)
		for _, sec := range []int64{lo, lo + 1, -86400, -2, -1, 0, 1, 86400, math.MaxInt32, math.MaxUint32, 9223372036, 9223372037, hi - 1, hi} {
			if sec < lo || sec > hi {
				continue
			}
			for _, ns := range []int64{0, 1, tick - 1, tick, tick + 1, 499_999_999, 999_999_999 - (999_999_999 % tick), 999_999_999} {
				if ns < 0 || ns > 999_999_999 {
					continue
				}
				for _, z := range []*time.Location{zs[0], zs[12], zs[26]} {
					key, f, ok := checkDT64(p, sec, ns, z)
					st.Enumerated(1, 1)
					if !ok {
						c20violate(t, key, f)
						return
					}
				}
			}
		}
	}
	rapid.Check(t, func(rt *rapid.T) {
		p := rapid.IntRange(0, 9).Draw(rt, "precision")
		lo, hi := dt64Range(p)
		sec := rapid.OneOf(
			rapid.Int64Range(lo, hi),
			rapid.Int64Range(lo, lo+86400),
			rapid.Int64Range(hi-86400, hi),
			rapid.Int64Range(-86400, 86400),
			rapid.Int64Range(9223372036-3, hi), // beyond int64 nanoseconds (p<9)
		).Filter(func(s int64) bool { return s >= lo && s <= hi }).Draw(rt, "sec")
		tick := pow10(9 - p)
		ns := rapid.OneOf(
			rapid.Int64Range(0, 999_999_999),
			rapid.Just(int64(0)),
			rapid.Int64Range(0, 999_999_999/tick).Filter(func(int64) bool { return true }),
		).Draw(rt, "nsec")
		if rapid.Bool().Draw(rt, "representable") {
			ns -= ns % tick
		}
		zi := rapid.IntRange(0, len(zs)-1).Draw(rt, "zone")
		key, f, ok := checkDT64(p, sec, ns, zs[zi])
		if !ok {
			rt.Fatalf("C20 %s [%s]: input=%s got=%s want=%s", f.What, key, f.Input, f.Got, f.Want)
		}
		nt := sec < 0 || sec > hi-86400 || sec < lo+86400 || zi != 12 || sec > 9223372036
		st.Case(stats.Hash("dt64", p, sec, ns, zi), nt, func() any {
			return map[string]any{"kind": "DateTime64", "precision": p, "unix": sec, "nsec": ns, "zone": zs[zi].String()}
		})
		if sec > 9223372036 {
			st.Label("dt64:beyond-int64-ns")
		}
		if sec < 0 {
			st.Label("dt64:pre-1970")
		}
	})
}

func twosComplement(v *big.Int, bits uint) *big.Int {
	m := new(big.Int).Lsh(big.NewInt(1), bits)
	r := new(big.Int).Mod(v, m)
	return r
}

func u128big(lo, hi uint64) *big.Int {
	r := new(big.Int).SetUint64(hi)
	r.Lsh(r, 64)
	return r.Or(r, new(big.Int).SetUint64(lo))
}

func TestC20WideInts(t *testing.T) {
	st := stats.G()
	ints := rapid.OneOf(
		rapid.Int(),
		rapid.SampledFrom([]int{0, 1, -1, math.MaxInt, math.MinInt, math.MaxInt32, math.MinInt32, math.MaxInt - 1, math.MinInt + 1}),
	)
	uints := rapid.OneOf(
		rapid.Uint64(),
		rapid.SampledFrom([]uint64{0, 1, math.MaxUint64, math.MaxInt64, math.MaxInt64 + 1, math.MaxUint32}),
	)
	rapid.Check(t, func(rt *rapid.T) {
		v := ints.Draw(rt, "int")
		u := uints.Draw(rt, "uint64")
		bv := big.NewInt(int64(v))
		bu := new(big.Int).SetUint64(u)

		i128 := proto.Int128FromInt(v)
		if got := u128big(i128.Low, i128.High); got.Cmp(twosComplement(bv, 128)) != 0 {
			rt.Fatalf("Int128FromInt(%d) = %x", v, got)
		}
		if i128.Int() != v {
			rt.Fatalf("Int128FromInt(%d).Int() = %d", v, i128.Int())
		}
		u128 := proto.UInt128FromInt(v)
		if got := u128big(u128.Low, u128.High); got.Cmp(twosComplement(bv, 128)) != 0 {
			rt.Fatalf("UInt128FromInt(%d) = %x", v, got)
		}
		iu := proto.Int128FromUInt64(u)
		if got := u128big(iu.Low, iu.High); got.Cmp(bu) != 0 {
			rt.Fatalf("Int128FromUInt64(%d) = %x", u, got)
		}
		if iu.UInt64() != u {
			rt.Fatalf("Int128FromUInt64(%d).UInt64() = %d", u, iu.UInt64())
		}
		uu := proto.UInt128FromUInt64(u)
		if got := u128big(uu.Low, uu.High); got.Cmp(bu) != 0 {
			rt.Fatalf("UInt128FromUInt64(%d) = %x", u, got)
		}
		if uu.UInt64() != u {
			rt.Fatalf("UInt128FromUInt64(%d).UInt64() = %d", u, uu.UInt64())
		}
		if v >= 0 {
			if proto.UInt128FromInt(v).Int() != v {
				rt.Fatalf("UInt128FromInt(%d).Int() = %d", v, proto.UInt128FromInt(v).Int())
			}
		}
		i256 := proto.Int256FromInt(v)
		g := new(big.Int).Lsh(u128big(i256.High.Low, i256.High.High), 128)
		g.Or(g, u128big(i256.Low.Low, i256.Low.High))
		if g.Cmp(twosComplement(bv, 256)) != 0 {
			rt.Fatalf("Int256FromInt(%d) = %x", v, g)
		}
		u256 := proto.UInt256FromInt(v)
		g = new(big.Int).Lsh(u128big(u256.High.Low, u256.High.High), 128)
		g.Or(g, u128big(u256.Low.Low, u256.Low.High))
		if g.Cmp(twosComplement(bv, 256)) != 0 {
			rt.Fatalf("UInt256FromInt(%d) = %x", v, g)
		}
		uu256 := proto.UInt256FromUInt64(u)
		g = new(big.Int).Lsh(u128big(uu256.High.Low, uu256.High.High), 128)
		g.Or(g, u128big(uu256.Low.Low, uu256.Low.High))
		if g.Cmp(bu) != 0 {
			rt.Fatalf("UInt256FromUInt64(%d) = %x", u, g)
		}
		st.Case(stats.Hash("wide", v, u), v < 0 || u > math.MaxInt64, func() any {
			return map[string]any{"kind": "wide-int", "int": v, "uint64": u}
		})
	})
}

func checkIPv4(x uint32) (string, bool) {
	v := proto.IPv4(x)
	want := netip.AddrFrom4([4]byte{byte(x >> 24), byte(x >> 16), byte(x >> 8), byte(x)})
	if v.ToIP() != want {
		return fmt.Sprintf("IPv4(%d).ToIP()=%v want %v", x, v.ToIP(), want), false
	}
	if proto.ToIPv4(want) != v {
		return fmt.Sprintf("ToIPv4(%v)=%d want %d", want, proto.ToIPv4(want), x), false
	}
	return "", true
}

func TestC20IP(t *testing.T) {
	st := stats.G()
	if stats.Thorough() {
		shard, shards := uint64(stats.EnvInt("VERIF_SHARD", 0)), uint64(stats.EnvInt("VERIF_SHARDS", 1))
		lo := (uint64(1) << 32) * shard / shards
		hi := (uint64(1) << 32) * (shard + 1) / shards
		for x := lo; x < hi; x++ {
			if msg, ok := checkIPv4(uint32(x)); !ok {
				c20violate(t, "ipv4", c20fail{What: msg})
				return
			}
		}
		st.Enumerated(int64(hi-lo), int64(hi-lo))
		st.Exhaustive("IPv4: all 2^32 values (sharded)")
	}
	rapid.Check(t, func(rt *rapid.T) {
		x := rapid.OneOf(rapid.Uint32(), rapid.SampledFrom([]uint32{0, 1, 255, 256, 0x7f000001, 0xffffffff, 0x80000000, 0x0a000001})).Draw(rt, "ipv4")
		if msg, ok := checkIPv4(x); !ok {
			rt.Fatalf("%s", msg)
		}
		want := fmt.Sprintf("%d.%d.%d.%d", byte(x>>24), byte(x>>16), byte(x>>8), byte(x))
		if got := proto.IPv4(x).String(); got != want {
			rt.Fatalf("IPv4(%d).String()=%q want %q", x, got, want)
		}
		var b [16]byte
		copy(b[:], rapid.SliceOfN(rapid.Byte(), 16, 16).Draw(rt, "ipv6"))
		// Special blocks of the address space that 128 random bits never reach: IPv4-mapped,
		// IPv4-compatible, NAT64, 6to4, loopback, unspecified, link-local, all ones.
		switch rapid.IntRange(0, 11).Draw(rt, "ipv6-class") {
		case 0:
			copy(b[:12], []byte{0, 0, 0, 0, 0, 0, 0, 0, 0, 0, 0xff, 0xff})
		case 1:
			copy(b[:12], make([]byte, 12))
		case 2:
			copy(b[:12], []byte{0, 0x64, 0xff, 0x9b, 0, 0, 0, 0, 0, 0, 0, 0})
		case 3:
			b[0], b[1] = 0x20, 0x02
		case 4:
			b = [16]byte{15: 1}
		case 5:
			b = [16]byte{}
		case 6:
			b[0], b[1] = 0xfe, 0x80
		case 7:
			for i := range b {
				b[i] = 0xff
			}
		}
		v6 := proto.IPv6(b)
		if v6.ToIP().As16() != b {
			rt.Fatalf("IPv6.ToIP().As16() differs for %x", b)
		}
		if want6 := netip.AddrFrom16(b); v6.ToIP() != want6 || v6.String() != want6.String() || !v6.ToIP().Is6() {
			rt.Fatalf("IPv6(%x).ToIP() = %v (String %q), want the 16-byte address %v", b, v6.ToIP(), v6.String(), want6)
		}
		var c6 proto.ColIPv6
		c6.Append(v6)
		if c6.Row(0) != v6 || c6.Row(0).ToIP() != netip.AddrFrom16(b) {
			rt.Fatalf("ColIPv6 row %v differs from the appended %v", c6.Row(0).ToIP(), netip.AddrFrom16(b))
		}
		if proto.ToIPv6(netip.AddrFrom16(b)) != v6 {
			rt.Fatalf("ToIPv6(AddrFrom16) differs for %x", b)
		}
		if proto.ToIPv6(v6.ToIP()) != v6 {
			rt.Fatalf("ToIPv6(ToIP) differs for %x", b)
		}
		st.Case(stats.Hash("ip", x, b[:]), true, func() any {
			return map[string]any{"kind": "ip", "ipv4": want, "ipv6": netip.AddrFrom16(b).String()}
		})
	})
}

func floorDiv(a, b int64) int64 {
	q := a / b
	if (a%b != 0) && ((a < 0) != (b < 0)) {
		q--
	}
	return q
}

func addMonthsIndep(t time.Time, n int64) time.Time {
	y, m, d := t.Date()
	idx := int64(y)*12 + int64(m-1) + n
	ny := floorDiv(idx, 12)
	nm := idx - ny*12
	return time.Date(int(ny), time.Month(nm+1), d, t.Hour(), t.Minute(), t.Second(), t.Nanosecond(), t.Location())
}

func TestC20Interval(t *testing.T) {
	fixed := fixedZones()
	zs := append(append([]*time.Location{}, fixed...), dstZones()...)
	st := stats.G()
	// Seconds per unit (an upper bound for the calendar units): bounds the spans drawn so that
	// base and result both stay inside 1900..2299, the widest documented range.
	unitSec := map[proto.IntervalScale]int64{
		proto.IntervalSecond: 1, proto.IntervalMinute: 60, proto.IntervalHour: 3600, proto.IntervalDay: 86400, proto.IntervalWeek: 7 * 86400,
		proto.IntervalMonth: 31 * 86400, proto.IntervalQuarter: 92 * 86400, proto.IntervalYear: 366 * 86400,
	}
	const loUnix, hiUnix = -2208988800, 10413791999
	rapid.Check(t, func(rt *rapid.T) {
		zi := rapid.IntRange(0, len(zs)-1).Draw(rt, "zone")
		dst := zi >= len(fixed)
		y := rapid.IntRange(1900, 2299).Draw(rt, "year")
		mo := rapid.IntRange(1, 12).Draw(rt, "month")
		d := rapid.IntRange(1, 28).Draw(rt, "day")
		sec := rapid.IntRange(0, 86399).Draw(rt, "sec")
		if dst {
			sec = 4*3600 + sec%(18*3600) // a wall clock that exists exactly once on every day
		}
		ns := rapid.IntRange(0, 999_999_999).Draw(rt, "ns")
		base := time.Date(y, time.Month(mo), d, 0, 0, sec, ns, zs[zi])
		scale := proto.IntervalScale(rapid.IntRange(0, 7).Draw(rt, "scale"))
		var n int64
		switch rapid.IntRange(0, 3).Draw(rt, "span-class") {
		case 0:
			n = rapid.Int64Range(-3, 3).Draw(rt, "n")
		case 1:
			n = rapid.Int64Range(-2000, 2000).Draw(rt, "n")
		default:
			// anywhere inside the documented range, e.g. +120 000 days or +10^10 seconds
			u := unitSec[scale]
			n = rapid.Int64Range((loUnix-base.Unix())/u, (hiUnix-base.Unix())/u).Draw(rt, "n")
			st.Label("interval-span:whole-range")
		}
		got := proto.Interval{Scale: scale, Value: n}.Add(base)
		var want time.Time
		clock := func(yy, mm, dd int) time.Time {
			return time.Date(yy, time.Month(mm), dd, base.Hour(), base.Minute(), base.Second(), base.Nanosecond(), zs[zi])
		}
		switch scale {
		case proto.IntervalSecond, proto.IntervalMinute, proto.IntervalHour:
			// Elapsed time: arithmetic on unix seconds, in any zone.
			want = time.Unix(base.Unix()+n*unitSec[scale], int64(base.Nanosecond())).In(zs[zi])
		case proto.IntervalDay, proto.IntervalWeek:
			// Calendar days: the same wall clock n (7n) days later, by civil-day arithmetic.
			k := n
			if scale == proto.IntervalWeek {
				k = 7 * n
			}
			want = clock(civilFromDays(daysFromCivil(y, mo, d) + k))
		case proto.IntervalMonth:
			want = addMonthsIndep(base, n)
		case proto.IntervalQuarter:
			want = addMonthsIndep(base, 3*n)
		case proto.IntervalYear:
			want = addMonthsIndep(base, 12*n)
		}
		nt := n != 0 && (scale >= proto.IntervalMonth || zi != 12)
		if dst {
			st.Label("interval-zone:daylight-saving")
		}
		st.Case(stats.Hash("iv", zi, y, mo, d, sec, ns, int(scale), n), nt, func() any {
			return map[string]any{"kind": "Interval.Add", "base": base.Format(time.RFC3339Nano), "zone": zs[zi].String(), "scale": scale.String(), "n": n}
		})
		if got.Equal(want) && got.Location() == base.Location() {
			return
		}
		if scale == proto.IntervalQuarter && n != 0 && got.Equal(addMonthsIndep(base, 4*n)) && stats.IsKnown("C20", "interval-quarter-adds-4-months") {
			st.Known("interval-quarter-adds-4-months", fmt.Sprintf("Interval{Quarter,%d}.Add(%s) = %s, i.e. +%d months instead of +%d",
				n, base.Format(time.RFC3339), got.Format(time.RFC3339), 4*n, 3*n))
			return
		}
		rt.Fatalf("Interval{%s,%d}.Add(%s) = %s, want %s", scale, n, base.Format(time.RFC3339Nano), got.Format(time.RFC3339Nano), want.Format(time.RFC3339Nano))
	})
	// Metamorphic relations that need no calendar oracle.
	rapid.Check(t, func(rt *rapid.T) {
		zi := rapid.IntRange(0, len(zs)-1).Draw(rt, "zone")
		base := time.Unix(rapid.Int64Range(-2208988800, 10413791999).Draw(rt, "unix"), 0).In(zs[zi])
		n := rapid.Int64Range(-500, 500).Draw(rt, "n")
		add := func(s proto.IntervalScale, v int64) time.Time { return proto.Interval{Scale: s, Value: v}.Add(base) }
		if !add(proto.IntervalWeek, n).Equal(add(proto.IntervalDay, 7*n)) {
			rt.Fatalf("Week(%d) != Day(%d) at %s", n, 7*n, base)
		}
		if !add(proto.IntervalYear, n).Equal(add(proto.IntervalMonth, 12*n)) && base.Day() <= 28 {
			rt.Fatalf("Year(%d) != Month(%d) at %s", n, 12*n, base)
		}
		if !add(proto.IntervalMinute, n).Equal(add(proto.IntervalSecond, 60*n)) {
			rt.Fatalf("Minute(%d) != Second(%d) at %s", n, 60*n, base)
		}
		if !add(proto.IntervalHour, n).Equal(add(proto.IntervalMinute, 60*n)) {
			rt.Fatalf("Hour(%d) != Minute(%d) at %s", n, 60*n, base)
		}
		if base.Day() <= 28 && !add(proto.IntervalQuarter, n).Equal(add(proto.IntervalMonth, 3*n)) {
			if n != 0 && add(proto.IntervalQuarter, n).Equal(add(proto.IntervalMonth, 4*n)) && stats.IsKnown("C20", "interval-quarter-adds-4-months") {
				st.Known("interval-quarter-adds-4-months", fmt.Sprintf("Quarter(%d) == Month(%d)", n, 4*n))
			} else {
				rt.Fatalf("Quarter(%d) != Month(%d) at %s", n, 3*n, base)
			}
		}
		st.Case(stats.Hash("ivm", zi, base.Unix(), n), n != 0, nil)
	})
}

// Columns: batches of instants in mixed zones - fixed offsets and zones with daylight saving,
// several values of one zone next to each other - appended one by one, in bulk (AppendArr)
// and as one row of an Array column store, for every element, the calendar day (Date,
// Date32) or the instant (DateTime) of that element in its own zone.
func TestC20DateColumns(t *testing.T) {
	zs := append(fixedZones(), dstZones()...)
	st := stats.G()
	rapid.Check(t, func(rt *rapid.T) {
		n := rapid.IntRange(1, 6).Draw(rt, "batch")
		var ts []time.Time
		sameZone := rapid.Bool().Draw(rt, "one-zone")
		z0 := rapid.IntRange(0, len(zs)-1).Draw(rt, "zone")
		for i := 0; i < n; i++ {
			zi := z0
			if !sameZone {
				zi = rapid.IntRange(0, len(zs)-1).Draw(rt, "zone")
			}
			// Date32 range; instants near midnight matter most (the offset decides the day)
			y := rapid.IntRange(1971, 2100).Draw(rt, "year")
			mo := rapid.IntRange(1, 12).Draw(rt, "month")
			d := rapid.IntRange(1, 28).Draw(rt, "day")
			sec := rapid.OneOf(rapid.IntRange(0, 7200), rapid.IntRange(79200, 86399), rapid.IntRange(0, 86399)).Draw(rt, "sec")
			ts = append(ts, time.Date(y, time.Month(mo), d, 0, 0, sec, 0, zs[zi]))
		}
		wantDay := func(t time.Time) int64 { y, m, d := t.Date(); return daysFromCivil(y, int(m), d) }
		var one, bulk proto.ColDate32
		var d16one, d16bulk proto.ColDate
		var dtOne, dtBulk proto.ColDateTime
		for _, v := range ts {
			one.Append(v)
			d16one.Append(v)
			dtOne.Append(v)
		}
		bulk.AppendArr(ts)
		d16bulk.AppendArr(ts)
		dtBulk.AppendArr(ts)
		arr := proto.NewArrDate32()
		arr.Append(ts)
		arr16 := proto.NewArrDate()
		arr16.Append(ts)
		arrDT := proto.NewArrDateTime()
		arrDT.Append(ts)
		for i, v := range ts {
			w := wantDay(v)
			for name, got := range map[string]int64{"ColDate32.Append": int64(one[i]), "ColDate32.AppendArr": int64(bulk[i]), "Array(Date32) row": int64(proto.ToDate32(arr.Row(0)[i])),
				"ColDate.Append": int64(d16one[i]), "ColDate.AppendArr": int64(d16bulk[i]), "Array(Date) row": int64(proto.ToDate(arr16.Row(0)[i]))} {
				if got != w {
					rt.Fatalf("%s: element %d of %v stored as day %d, its calendar day in its own zone is %d", name, i, ts, got, w)
				}
			}
			for name, got := range map[string]int64{"ColDateTime.Append": dtOne.Row(i).Unix(), "ColDateTime.AppendArr": dtBulk.Row(i).Unix(), "Array(DateTime) row": arrDT.Row(0)[i].Unix()} {
				if got != v.Unix() {
					rt.Fatalf("%s: element %d of %v stored as %d, want %d", name, i, ts, got, v.Unix())
				}
			}
		}
		dst := z0 >= len(fixedZones())
		st.Case(stats.Hash("datecols", fmt.Sprint(ts)), n > 1 && (dst || !sameZone), func() any {
			return map[string]any{"kind": "date-columns", "batch": fmt.Sprint(ts)}
		})
		if dst && sameZone && n > 1 {
			st.Label("date-batch:one-daylight-saving-zone")
		}
	})
}
