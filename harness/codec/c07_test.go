package codec

// C07 — a truncated block or message is never accepted. Every cut of every
// generated encoding (plain, and wrapped in compressed frames) must fail.

import (
	"bytes"
	"fmt"
	"strings"
	"testing"

	"github.com/ClickHouse/ch-go/proto"
	"pgregory.net/rapid"

	"verif/harness/gen"
	"verif/harness/ref"
	"verif/harness/stats"
)

// cutPositions returns the cut offsets to try for an encoding of n bytes.
func cutPositions(rt *rapid.T, n int, fields []ref.Field) ([]int, bool) {
	if n <= 2048 {
		out := make([]int, n)
		for i := range out {
			out[i] = i
		}
		return out, true
	}
	set := map[int]bool{}
	for i := 0; i < 150; i++ {
		set[i] = true
		set[n-1-i] = true // the tail: a decoder that stops early accepts cuts there
	}
	for i, f := range fields {
		if i%max(1, len(fields)/150) != 0 {
			continue
		}
		for d := -1; d <= 1; d++ {
			if p := f.Off + d; p >= 0 && p < n {
				set[p] = true
			}
		}
	}
	for i := 0; i < 100; i++ {
		set[rapid.IntRange(0, n-1).Draw(rt, "cut")] = true
	}
	var out []int
	for p := range set {
		out = append(out, p)
	}
	return out, false
}

func insideField(fields []ref.Field, cut int) (string, bool) {
	// A cut at offset k keeps bytes [0,k): it is inside a field when Off < k < Off+Len.
	f, ok := gen.FieldAt(fields, cut)
	if ok && cut > f.Off {
		return f.Role.String(), true
	}
	return "", false
}

func decodeTyped(data []byte, rev int, cols []colSpec) error {
	_, res := typedTargets(cols)
	var b proto.Block
	r := readerOf(data)
	return safely(func() error { return b.DecodeBlock(r, rev, res) })
}

func decodeAuto(data []byte, rev int) error {
	var res proto.Results
	var b proto.Block
	r := readerOf(data)
	return safely(func() error { return b.DecodeBlock(r, rev, res.Auto()) })
}

func decodeTypedCompressed(stream []byte, rev int, cols []colSpec, auto bool) error {
	r := readerOf(stream)
	r.EnableCompression()
	var b proto.Block
	if auto {
		var res proto.Results
		return safely(func() error { return b.DecodeBlock(r, rev, res.Auto()) })
	}
	_, res := typedTargets(cols)
	return safely(func() error { return b.DecodeBlock(r, rev, res) })
}

func TestC07BlockCuts(t *testing.T) {
	st := stats.G()
	rapid.Check(t, func(rt *rapid.T) {
		cols, rows := drawBlockWide(rt, 3)
		if rapid.IntRange(0, 3).Draw(rt, "steer-last-column") == 0 {
			// Steer: a column with a hand-written (not generated) decoder comes last, at a
			// row count on a power-of-two boundary - a decoder that stops early is exposed
			// only when nothing follows it.
			k := specialKinds()[rapid.IntRange(0, len(specialKinds())-1).Draw(rt, "special-kind")]
			rows = rapid.SampledFrom([]int{32, 63, 64, 65, 128, 192, 256}).Draw(rt, "boundary-rows")
			for i := range cols {
				cols[i].Rows = gen.DrawRows(rt, cols[i].Kind, rows)
			}
			cols[len(cols)-1] = colSpec{Name: "last", Kind: k, Rows: gen.DrawRows(rt, k, rows)}
		}
		rev := rapid.SampledFrom(blockRevs).Draw(rt, "rev")
		_, in := libInput(cols, false)
		blk := proto.Block{Info: proto.BlockInfo{BucketNum: -1}, Columns: len(in), Rows: rows}
		var buf proto.Buffer
		if err := blk.EncodeBlock(&buf, rev, in); err != nil {
			rt.Fatalf("encode: %v", err)
		}
		data := buf.Buf
		// Field map from the reference encoding (identical bytes for canonical kinds).
		e := &ref.Enc{}
		ref.EncodeBlock(e, rev, refBlock(cols, ref.BlockInfo{BucketNum: -1}))
		fields := e.Fields
		if !bytes.Equal(e.B, data) {
			fields = nil
		}
		inferable := true
		for _, c := range cols {
			inferable = inferable && autoInferable(c.Kind.T.Name)
		}
		if err := decodeTyped(data, rev, cols); err != nil {
			rt.Fatalf("harness: full encoding does not decode: %v", err)
		}
		cuts, all := cutPositions(rt, len(data), fields)
		var n, nt int64
		for _, k := range cuts {
			n++
			role, inside := insideField(fields, k)
			if inside {
				nt++
				st.Label("cut-inside:" + role)
			}
			if err := decodeTyped(data[:k], rev, cols); err == nil || isPanic(err) {
				rt.Fatalf("typed decode of the first %d of %d bytes (cut inside %q) returned %v; block %v rows %d rev %d\nbytes %x", k, len(data), role, err, typeNames(cols), rows, rev, data)
			}
			if inferable {
				if err := decodeAuto(data[:k], rev); err == nil || isPanic(err) {
					rt.Fatalf("inferred decode of the first %d of %d bytes returned %v; block %v", k, len(data), err, typeNames(cols))
				}
			}
			if rows == 0 {
				// A header block may also be read without any target (empty Results, or nil).
				for _, tgt := range []proto.Result{&proto.Results{}, nil} {
					var b proto.Block
					r := readerOf(data[:k])
					if err := safely(func() error { return b.DecodeBlock(r, rev, tgt) }); err == nil || isPanic(err) {
						rt.Fatalf("decode without targets (%T) of the first %d of %d bytes of a zero-row block returned %v; block %v rev %d", tgt, k, len(data), err, typeNames(cols), rev)
					}
				}
			}
		}
		if rows == 0 {
			for _, tgt := range []proto.Result{&proto.Results{}, nil} {
				var b proto.Block
				r := readerOf(data)
				if err := safely(func() error { return b.DecodeBlock(r, rev, tgt) }); err != nil || !atEOF(r) {
					rt.Fatalf("harness: zero-row block does not decode exactly without targets (%T): %v", tgt, err)
				}
			}
			st.Label("zero-row-block-without-targets")
		}
		// Compressed: one frame, and the block split over 2-3 frames.
		method := rapid.SampledFrom([]byte{ref.MethodNone, ref.MethodLZ4, ref.MethodZSTD}).Draw(rt, "method")
		pieces := rapid.IntRange(1, 3).Draw(rt, "frames")
		var stream []byte
		var frameStarts []int
		rest := data
		for i := 0; i < pieces; i++ {
			cut := len(rest)
			if i < pieces-1 && len(rest) > 1 {
				cut = rapid.IntRange(1, len(rest)-1).Draw(rt, "frame-split")
			}
			f, err := ref.BuildFrame(method, rest[:cut])
			if err != nil {
				rt.Fatalf("harness: %v", err)
			}
			frameStarts = append(frameStarts, len(stream))
			stream = append(stream, f...)
			rest = rest[cut:]
			if len(rest) == 0 {
				break
			}
		}
		if err := decodeTypedCompressed(stream, rev, cols, false); err != nil {
			rt.Fatalf("harness: full compressed stream does not decode: %v", err)
		}
		ccuts, _ := cutPositions(rt, len(stream), nil)
		for _, k := range ccuts {
			n++
			inHeader := false
			for _, fs := range frameStarts {
				if k > fs && k < fs+ref.FrameHeader {
					inHeader = true
				}
			}
			if inHeader {
				nt++
				st.Label("cut-inside:frame-header")
			}
			auto := inferable && k%2 == 0
			if err := decodeTypedCompressed(stream[:k], rev, cols, auto); err == nil || isPanic(err) {
				rt.Fatalf("decode of the first %d of %d compressed bytes (%d frames, method %#x) returned %v; block %v", k, len(stream), len(frameStarts), method, err, typeNames(cols))
			}
		}
		st.Enumerated(n, 0)
		st.LabelN("cuts", n)
		if all {
			st.Label("all-cuts-enumerated")
		}
		st.Case(stats.Hash("c07", data, rev, method, pieces), nt > 0, func() any {
			return map[string]any{"kind": "block-cuts", "types": typeNames(cols), "rows": rows, "rev": rev, "plain_bytes": len(data), "compressed_bytes": len(stream), "frames": len(frameStarts), "cuts": n, "cuts_inside_fields": nt}
		})
	})
}

func TestC07MessageCuts(t *testing.T) {
	st := stats.G()
	revs := quickRevisions()
	rapid.Check(t, func(rt *rapid.T) {
		name := rapid.SampledFrom(messageNames).Draw(rt, "message")
		rev := rapid.SampledFrom(revs).Draw(rt, "rev")
		if name == "Query" || name == "ClientInfo" {
			rev = max(rev, ref.RevSettingsAsStrings)
		}
		e := encodeRefMessage(rt, name, rev)
		data := e.B
		if len(data) == 0 {
			return
		}
		if name == "Setting" || name == "Parameter" {
			// self-delimiting only when the key is non-empty (generated so)
		}
		full := decodeMessage(name, readerOf(data), rev)
		if full != nil {
			rt.Fatalf("harness: library rejects reference %s at %d: %v (%x)", name, rev, full, data)
		}
		var n, nt int64
		for k := 0; k < len(data); k++ {
			n++
			if _, inside := insideField(e.Fields, k); inside {
				nt++
			}
			err := safely(func() error { return decodeMessage(name, readerOf(data[:k]), rev) })
			if err == nil || isPanic(err) {
				rt.Fatalf("%s at revision %d: decoding the first %d of %d bytes returned %v\nbytes %x", name, rev, k, len(data), err, data)
			}
		}
		st.Enumerated(n, 0)
		st.LabelN("cuts", n)
		st.Label("msg:" + name)
		st.Case(stats.Hash("c07m", data, name, rev), nt > 0, func() any {
			return map[string]any{"kind": "message-cuts", "message": name, "rev": rev, "bytes": len(data), "cuts_inside_fields": nt, "hex": fmt.Sprintf("%x", data)}
		})
	})
}

var specialKindsCache []*gen.Kind

// specialKinds: kinds whose codecs are hand-written rather than generated.
func specialKinds() []*gen.Kind {
	if specialKindsCache != nil {
		return specialKindsCache
	}
	for _, k := range gen.Kinds {
		switch k.Scalar {
		case "Nothing", "Bool", "UUID", "FixedString", "Interval", "Point", "JSON", "Enum", "String", "Bytes", "RawOf", "DateTime64", "DateTime", "DecimalPS":
			if k.Shape == "X" || k.Shape == "Nullable(X)" || k.Shape == "Array(X)" || k.Shape == "LowCardinality(X)" || k.Shape == "Map(String,X)" {
				specialKindsCache = append(specialKindsCache, k)
			}
		}
	}
	return specialKindsCache
}

// Messages whose LAST field is a very long string (sizes around the thresholds a string
// reader may switch strategy at: 64 KiB, 1 MiB, 3 MiB): every cut inside that string must be
// rejected as well. Cuts are sampled - the head, the tail, around the thresholds, random.
func TestC07LongTailStrings(t *testing.T) {
	st := stats.G()
	rapid.Check(t, func(rt *rapid.T) {
		size := rapid.SampledFrom([]int{65535, 65536, 65537, 1<<20 - 1, 1 << 20, 1<<20 + 1, 3<<20 + 123}).Draw(rt, "tail-size")
		tail := string(gen.Expand(rapid.Uint64().Draw(rt, "tail-seed"), size))
		name := rapid.SampledFrom([]string{"TableColumns", "ClientHello", "Exception", "Setting"}).Draw(rt, "message")
		rev := 54460
		e := &ref.Enc{NoMap: true}
		switch name {
		case "TableColumns":
			ref.EncodeTableColumns(e, ref.TableColumns{First: "t", Second: tail})
		case "ClientHello":
			ref.EncodeClientHello(e, ref.ClientHello{Name: "n", Major: 1, Minor: 2, Revision: int64(rev), Database: "d", User: "u", Pass: tail})
			e.B = e.B[1:] // Decode expects the body
		case "Exception":
			ref.EncodeException(e, ref.Exception{Code: 1, Name: "n", Message: "m", Stack: tail})
		case "Setting":
			e.Str([]byte("key"), ref.RPayload)
			e.UVarint(1, ref.RCount)
			e.Str([]byte(tail), ref.RPayload)
		}
		data := e.B
		dec := func(b []byte) error {
			r := readerOf(b)
			return safely(func() error { return decodeMessage(name, r, rev) })
		}
		if err := dec(data); err != nil {
			rt.Fatalf("harness: %s with a %d-byte tail does not decode: %v", name, size, err)
		}
		n := len(data)
		cuts := map[int]bool{}
		for i := 1; i <= 40; i++ {
			cuts[n-i] = true
			cuts[n-size+i] = true
		}
		for _, th := range []int{4096, 65536, 131072, 1 << 20, 2 << 20} {
			for d := -2; d <= 2; d++ {
				if p := n - size + th + d; p > 0 && p < n {
					cuts[p] = true
				}
			}
		}
		for i := 0; i < 60; i++ {
			cuts[rapid.IntRange(1, n-1).Draw(rt, "cut")] = true
		}
		for k := range cuts {
			if k <= 0 || k >= n {
				continue
			}
			if err := dec(data[:k]); err == nil || isPanic(err) {
				rt.Fatalf("%s whose last field is a %d-byte string: decoding the first %d of %d bytes returned %v", name, size, k, n, err)
			}
		}
		st.Enumerated(int64(len(cuts)), int64(len(cuts)))
		st.Case(stats.Hash("c07tail", name, size, data[:64]), true, func() any {
			return map[string]any{"kind": "long-tail-string-cuts", "message": name, "tail_bytes": size, "cuts": len(cuts)}
		})
	})
}

// Every kind of the catalog once as the LAST column of a small block (a decoder that reads
// less than was encoded is exposed only when nothing follows it): all cuts, typed decoding
// and - where the type is inferable - inferred decoding.
func TestC07EveryKindLast(t *testing.T) {
	st := stats.G()
	first := gen.ByName["Int8|X|Int8"]
	var n, kinds int64
	for ki, k := range gen.Kinds {
		if !stats.Thorough() && strings.Count(k.Shape, "(") > 1 {
			continue // quick tier: scalars and single wrappers (every hand-written decoder); all shapes in the thorough tier
		}
		rows := 3 + ki%3
		var fv, lv []ref.Val
		for i := 0; i < rows; i++ {
			fv = append(fv, first.Value.Example(i+1))
			lv = append(lv, k.Value.Example(7*ki+i+1))
		}
		cols := []colSpec{{Name: "a", Kind: first, Rows: fv}, {Name: "last", Kind: k, Rows: lv}}
		rev := []int{54460, 54453, 51902}[ki%3]
		_, in := libInput(cols, false)
		blk := proto.Block{Info: proto.BlockInfo{BucketNum: -1}, Columns: len(in), Rows: rows}
		var buf proto.Buffer
		if err := blk.EncodeBlock(&buf, rev, in); err != nil {
			t.Fatalf("encode %s: %v", k.T.Name, err)
		}
		data := buf.Buf
		inferable := autoInferable(k.T.Name)
		if err := decodeTyped(data, rev, cols); err != nil {
			t.Fatalf("harness: block with last column %s does not decode: %v", k.T.Name, err)
		}
		if inferable {
			if err := decodeAuto(data, rev); err != nil {
				t.Fatalf("block with last column %s does not decode into inferred columns: %v", k.T.Name, err)
			}
		}
		for cut := 0; cut < len(data); cut++ {
			n++
			if err := decodeTyped(data[:cut], rev, cols); err == nil || isPanic(err) {
				p := st.Violate("truncated-block-accepted", fmt.Sprintf("typed decode of the first %d of %d bytes of a block whose last column is %s returned %v", cut, len(data), k.T.Name, err), []byte(k.Key()))
				t.Fatalf("C07 typed decode of the first %d of %d bytes (last column %s, rev %d) returned %v (replay %s)", cut, len(data), k.T.Name, rev, err, p)
			}
			if inferable {
				if err := decodeAuto(data[:cut], rev); err == nil || isPanic(err) {
					p := st.Violate("truncated-block-accepted", fmt.Sprintf("inferred decode of the first %d of %d bytes of a block whose last column is %s returned %v", cut, len(data), k.T.Name, err), []byte(k.Key()))
					t.Fatalf("C07 inferred decode of the first %d of %d bytes (last column %s, rev %d) returned %v (replay %s)", cut, len(data), k.T.Name, rev, err, p)
				}
			}
		}
		kinds++
	}
	st.Enumerated(n, n)
	st.Exhaustive(fmt.Sprintf("every one of the %d catalog kinds as the last column of a block, every cut", kinds))
	st.Sample(map[string]any{"kind": "every-kind-last", "kinds": kinds, "cuts": n})
}

// TestC07EveryLongList (deterministic, run once with the every-kind pass): Query messages whose
// settings or parameter lists hold 255 .. 1500 entries - the lists have no length on the wire
// and end with an empty key - cut at every position of their last 64 bytes, at every entry
// boundary of the last 40 entries, and at every 89th byte before that.
func TestC07EveryLongList(t *testing.T) {
	st := stats.G()
	var n int64
	for _, size := range []int{255, 999, 1000, 1001, 1500} {
		for _, which := range []string{"settings", "parameters"} {
			for _, rev := range []int{54460, 54459} {
				q := ref.Query{ID: "q", Stage: 2, Body: "SELECT 1", Info: ref.ClientInfo{QueryKind: 1, Revision: int64(rev), Interface: 1}}
				for i := 0; i < size; i++ {
					if which == "settings" {
						q.Settings = append(q.Settings, ref.Setting{Key: fmt.Sprintf("s%d", i), Value: "1", Flags: uint64(i % 2)})
					} else {
						q.Params = append(q.Params, ref.Setting{Key: fmt.Sprintf("p%d", i), Value: "'v'", Flags: 2})
					}
				}
				e := &ref.Enc{NoMap: true}
				ref.EncodeQuery(e, q, rev)
				data := e.B[1:] // without the packet code
				var full proto.Query
				if err := decodeExact(data, false, func(r *proto.Reader) error { return full.DecodeAware(r, rev) }); err != nil {
					t.Fatalf("Query with %d %s at revision %d, uncut: %v", size, which, rev, err)
				}
				if (which == "settings" && len(full.Settings) != size) || (which == "parameters" && len(full.Parameters) != size) {
					t.Fatalf("Query with %d %s at %d decodes to %d settings and %d parameters", size, which, rev, len(full.Settings), len(full.Parameters))
				}
				cuts := map[int]bool{}
				for k := max(0, len(data)-64); k < len(data); k++ {
					cuts[k] = true
				}
				for k := 0; k < len(data); k += 89 {
					cuts[k] = true
				}
				// entry boundaries near the end of the list: positions just behind "…<digits>" keys
				for k := max(0, len(data)-700); k < len(data); k++ {
					if data[k] == 's' || data[k] == 'p' {
						cuts[k-1], cuts[k] = true, true
					}
				}
				delete(cuts, -1)
				for k := range cuts {
					n++
					var m proto.Query
					err := safely(func() error { return m.DecodeAware(readerOf(data[:k]), rev) })
					if err == nil || isPanic(err) {
						p := st.Violate("long-list-cut", fmt.Sprintf("Query with %d %s at revision %d: the first %d of %d bytes decode with %v", size, which, rev, k, len(data), err), data[:k])
						t.Fatalf("Query with %d %s at revision %d: decoding the first %d of %d bytes returned %v (replay %s)", size, which, rev, k, len(data), err, p)
					}
				}
			}
		}
	}
	st.Enumerated(n, n)
	st.Sample(map[string]any{"kind": "long-list-cuts", "lists": "255, 999, 1000, 1001, 1500 settings or parameters", "cuts": n})
}
