package codec

// C08 (reader level) — decoding is independent of how the transport segments
// the byte stream. The client-level half (callbacks, read-deadline gaps)
// lives in the client package.

import (
	"bytes"
	"encoding/binary"
	"errors"
	"fmt"
	"io"
	"math"
	"testing"

	"github.com/ClickHouse/ch-go/proto"
	"pgregory.net/rapid"

	"verif/harness/gen"
	"verif/harness/ref"
	"verif/harness/stats"
)

// chunkReader delivers data in the given segment sizes (then the rest at once).
type chunkReader struct {
	data []byte
	segs []int
	i    int
}

func (c *chunkReader) Read(p []byte) (int, error) {
	if len(c.data) == 0 {
		return 0, io.EOF
	}
	n := len(c.data)
	if c.i < len(c.segs) {
		n = min(n, c.segs[c.i])
	}
	n = min(n, len(p))
	if c.i < len(c.segs) {
		c.segs[c.i] -= n
		if c.segs[c.i] == 0 {
			c.i++
		}
	}
	copy(p, c.data[:n])
	c.data = c.data[n:]
	return n, nil
}

func ones(n int) []int {
	s := make([]int, n)
	for i := range s {
		s[i] = 1
	}
	return s
}

// decodeSegmented decodes a (possibly compressed) block followed by the
// sentinel from a segmented stream and returns the values.
func decodeSegmented(stream []byte, segs []int, compressed bool, rev int, cols []colSpec, auto bool) ([][]ref.Val, error) {
	full := append(append([]byte(nil), stream...), sentinel...)
	r := proto.NewReader(&chunkReader{data: full, segs: append([]int(nil), segs...)})
	if compressed {
		r.EnableCompression()
	}
	var b proto.Block
	var out [][]ref.Val
	if auto {
		var res proto.Results
		if err := safely(func() error { return b.DecodeBlock(r, rev, res.Auto()) }); err != nil {
			return nil, err
		}
		for i, rc := range res {
			vals, err := gen.ReflectRows(cols[i].Kind.T, rc.Data)
			if err != nil {
				return nil, err
			}
			out = append(out, vals)
		}
	} else {
		tcols, res := typedTargets(cols)
		if err := safely(func() error { return b.DecodeBlock(r, rev, res) }); err != nil {
			return nil, err
		}
		for _, tc := range tcols {
			vals, err := readAll(tc)
			if err != nil {
				return nil, err
			}
			out = append(out, vals)
		}
	}
	r.DisableCompression()
	rest := make([]byte, len(sentinel))
	if err := r.ReadFull(rest); err != nil || string(rest) != sentinel {
		return nil, fmt.Errorf("bytes consumed differ: after the block the stream continues with %x (err %v), want the sentinel", rest, err)
	}
	if !atEOF(r) {
		return nil, fmt.Errorf("bytes consumed differ: data left after the sentinel")
	}
	return out, nil
}

func TestC08ReaderSegmentation(t *testing.T) {
	st := stats.G()
	rapid.Check(t, func(rt *rapid.T) {
		cols, rows := drawBlockWide(rt, 3)
		rev := rapid.SampledFrom(blockRevs).Draw(rt, "rev")
		_, in := libInput(cols, false)
		blk := proto.Block{Info: proto.BlockInfo{BucketNum: -1}, Columns: len(in), Rows: rows}
		var buf proto.Buffer
		if err := blk.EncodeBlock(&buf, rev, in); err != nil {
			rt.Fatalf("encode: %v", err)
		}
		plain := buf.Buf
		e := &ref.Enc{}
		ref.EncodeBlock(e, rev, refBlock(cols, ref.BlockInfo{BucketNum: -1}))
		compressed := rapid.Bool().Draw(rt, "compressed")
		stream := plain
		var frameStarts []int
		if compressed {
			method := rapid.SampledFrom([]byte{ref.MethodNone, ref.MethodLZ4, ref.MethodZSTD}).Draw(rt, "method")
			pieces := rapid.IntRange(1, 3).Draw(rt, "frames")
			stream = nil
			rest := plain
			for i := 0; i < pieces && len(rest) > 0; i++ {
				cut := len(rest)
				if i < pieces-1 && len(rest) > 1 {
					cut = rapid.IntRange(1, len(rest)-1).Draw(rt, "frame-split")
				}
				f, err := ref.BuildFrame(method, rest[:cut])
				if err != nil {
					rt.Fatalf("harness: %v", err)
				}
				frameStarts = append(frameStarts, len(stream))
				stream = append(stream, f...)
				rest = rest[cut:]
			}
		}
		inferable := true
		for _, c := range cols {
			inferable = inferable && autoInferable(c.Kind.T.Name)
		}
		auto := inferable && rapid.Bool().Draw(rt, "auto")
		base, err := decodeSegmented(stream, nil, compressed, rev, cols, auto)
		if err != nil {
			rt.Fatalf("single-segment decode failed: %v", err)
		}
		for i, c := range cols {
			if j, ok := ref.EqualRows(c.Kind.T, base[i], c.Rows); !ok {
				rt.Fatalf("single-segment decode differs from model at column %d row %d", i, j)
			}
		}
		n := len(stream)
		var families [][]int
		families = append(families, ones(n)) // one byte at a time
		twoPiece := n - 1
		if twoPiece > 400 {
			twoPiece = 400
		}
		for k := 1; k <= twoPiece; k++ {
			pos := k
			if n-1 > 400 {
				pos = 1 + (k*(n-1))/401
			}
			families = append(families, []int{pos})
		}
		for i := 0; i < 20; i++ {
			families = append(families, rapid.SliceOfN(rapid.IntRange(0, 1+n/3), 1, 12).Draw(rt, "segs") /* 0 = an empty read */)
		}
		splitInside := false
		check := func(segs []int) {
			got, err := decodeSegmented(stream, segs, compressed, rev, cols, auto)
			if err != nil {
				rt.Fatalf("segmentation %v of %d bytes (compressed=%v auto=%v, types %v): %v", short(segs), n, compressed, auto, typeNames(cols), err)
			}
			for i, c := range cols {
				if j, ok := ref.EqualRows(c.Kind.T, got[i], base[i]); !ok {
					rt.Fatalf("segmentation %v: column %d (%s) row %d differs from the single-segment result", short(segs), i, c.Kind.T.Name, j)
				}
			}
		}
		for _, segs := range families {
			check(segs)
			if len(segs) == 1 {
				if !compressed {
					if _, in := insideField(e.Fields, segs[0]); in && len(e.B) == len(plain) {
						splitInside = true
					}
				} else {
					for _, fs := range frameStarts {
						if segs[0] > fs && segs[0] < fs+ref.FrameHeader {
							splitInside = true
						}
					}
				}
			}
		}
		// Errors too: a stream that ends early fails the same way however its bytes arrive.
		for i := 0; i < 6 && n > 1; i++ {
			k := rapid.IntRange(0, n-1).Draw(rt, "truncate-at")
			if i == 0 {
				k = n - 1
			}
			prefix := stream[:k]
			_, want := decodeSegmented(prefix, nil, compressed, rev, cols, auto)
			if want == nil {
				rt.Fatalf("harness: prefix of %d of %d bytes decodes", k, n)
			}
			var segsList [][]int
			segsList = append(segsList, ones(k))
			for j := 0; j < 8 && k > 1; j++ {
				segsList = append(segsList, []int{rapid.IntRange(1, k-1).Draw(rt, "split")})
			}
			for _, segs := range segsList {
				_, got := decodeSegmented(prefix, segs, compressed, rev, cols, auto)
				if got == nil || got.Error() != want.Error() || errors.Is(got, io.EOF) != errors.Is(want, io.EOF) || errors.Is(got, io.ErrUnexpectedEOF) != errors.Is(want, io.ErrUnexpectedEOF) {
					rt.Fatalf("stream cut after %d of %d bytes (compressed=%v auto=%v, types %v): delivered at once the error is %q, delivered as %v it is %q", k, n, compressed, auto, typeNames(cols), want, short(segs), got)
				}
			}
			st.Evals(int64(len(segsList)))
			st.Label("truncated-stream-errors")
		}
		// Exhaustive over all 2^(n-1) compositions for short streams.
		if n <= 13 {
			for mask := 0; mask < 1<<(n-1); mask++ {
				var segs []int
				run := 1
				for b := 0; b < n-1; b++ {
					if mask&(1<<b) != 0 {
						segs = append(segs, run)
						run = 1
					} else {
						run++
					}
				}
				segs = append(segs, run)
				check(segs)
			}
			st.LabelN("exhaustive-compositions", int64(1)<<(n-1))
			st.Evals(int64(1) << (n - 1))
		}
		st.Evals(int64(len(families)))
		st.LabelN("segmentations", int64(len(families)))
		st.Case(stats.Hash("c08", stream, compressed, auto), splitInside || n > 1, func() any {
			return map[string]any{"kind": "reader-segmentation", "types": typeNames(cols), "rows": rows, "rev": rev, "bytes": n, "compressed": compressed, "frames": len(frameStarts), "auto": auto, "segmentations": len(families)}
		})
		if compressed {
			st.Label("compressed")
		}
	})
}

func short(s []int) string {
	if len(s) > 12 {
		return fmt.Sprintf("%v…(%d segments)", s[:12], len(s))
	}
	return fmt.Sprint(s)
}

// Messages are short: every composition of their bytes is enumerated.
func TestC08MessageSegmentation(t *testing.T) {
	st := stats.G()
	revs := quickRevisions()
	rapid.Check(t, func(rt *rapid.T) {
		name := rapid.SampledFrom([]string{"Progress", "Profile", "BlockInfo", "ClientData", "Setting", "TableColumns", "Exception"}).Draw(rt, "message")
		rev := rapid.SampledFrom(revs).Draw(rt, "rev")
		var data []byte
		for tries := 0; ; tries++ {
			data = encodeRefMessage(rt, name, rev).B
			if len(data) <= 15 || tries > 3 {
				break
			}
		}
		if len(data) == 0 || len(data) > 15 {
			data = []byte{3, 'a', 'b', 'c', 0, 1, 'x'} // a Setting
			name = "Setting"
		}
		n := len(data)
		for mask := 0; mask < 1<<(n-1); mask++ {
			var segs []int
			run := 1
			for b := 0; b < n-1; b++ {
				if mask&(1<<b) != 0 {
					segs = append(segs, run)
					run = 1
				} else {
					run++
				}
			}
			segs = append(segs, run)
			full := append(append([]byte(nil), data...), sentinel...)
			r := proto.NewReader(&chunkReader{data: full, segs: segs})
			if err := safely(func() error { return decodeMessage(name, r, rev) }); err != nil {
				rt.Fatalf("%s (%x) delivered as %v: %v", name, data, segs, err)
			}
			rest := make([]byte, len(sentinel))
			if err := r.ReadFull(rest); err != nil || string(rest) != sentinel {
				rt.Fatalf("%s (%x) delivered as %v: consumed a different number of bytes", name, data, segs)
			}
		}
		st.Evals(int64(1) << (n - 1))
		st.LabelN("exhaustive-compositions", int64(1)<<(n-1))
		st.Case(stats.Hash("c08m", data, name, rev), n > 1, func() any {
			return map[string]any{"kind": "message-segmentation", "message": name, "rev": rev, "bytes": n, "compositions": 1 << (n - 1)}
		})
	})
}

// Primitive level: every typed read of proto.Reader (what the hand-written message decoders
// are made of) against a stream of primitives written by proto.Buffer and, independently, by
// hand - under every composition of the stream into segments when it is short, otherwise
// one-byte, two-piece at every offset and random segmentations.
func TestC08PrimitiveSegmentation(t *testing.T) {
	st := stats.G()
	type prim struct {
		kind string
		u    uint64
		hi   uint64
		s    []byte
	}
	kinds := []string{"uvarint", "int", "len", "str", "strbytes", "strappend", "strraw", "byte", "bool", "i8", "i16", "i32", "i64", "i128", "u8", "u16", "u32", "u64", "u128", "f32", "f64", "raw", "full"}
	le := func(dst []byte, v uint64, n int) []byte {
		for i := 0; i < n; i++ {
			dst = append(dst, byte(v>>(8*i)))
		}
		return dst
	}
	rapid.Check(t, func(rt *rapid.T) {
		n := rapid.IntRange(1, 8).Draw(rt, "values")
		var ps []prim
		var want []byte // encoded by hand
		var lib proto.Buffer
		for i := 0; i < n; i++ {
			p := prim{kind: rapid.SampledFrom(kinds).Draw(rt, "kind")}
			p.u = rapid.OneOf(rapid.Uint64(), rapid.Uint64Range(0, 300), rapid.SampledFrom([]uint64{0, 127, 128, 16383, 16384, 1<<63 - 1, 1 << 63, 1<<64 - 1})).Draw(rt, "u")
			p.hi = rapid.Uint64().Draw(rt, "hi")
			switch p.kind {
			case "uvarint":
				want = binary.AppendUvarint(want, p.u)
				lib.PutUVarInt(p.u)
			case "int":
				p.u %= 1 << 31
				want = binary.AppendUvarint(want, p.u)
				lib.PutInt(int(p.u))
			case "len":
				p.u %= 1 << 20
				want = binary.AppendUvarint(want, p.u)
				lib.PutLen(int(p.u))
			case "str", "strbytes", "strappend", "strraw":
				p.s = rapid.SliceOfN(rapid.Byte(), 0, 200).Draw(rt, "s")
				if rapid.IntRange(0, 9).Draw(rt, "long") == 0 {
					p.s = bytes.Repeat([]byte{byte(p.u)}, 128+int(p.u%300))
				}
				want = append(binary.AppendUvarint(want, uint64(len(p.s))), p.s...)
				lib.PutString(string(p.s))
			case "byte", "u8":
				want = append(want, byte(p.u))
				if p.kind == "byte" {
					lib.PutByte(byte(p.u))
				} else {
					lib.PutUInt8(uint8(p.u))
				}
			case "bool":
				p.u &= 1
				want = append(want, byte(p.u))
				lib.PutBool(p.u == 1)
			case "i8":
				want = le(want, p.u, 1)
				lib.PutInt8(int8(p.u))
			case "i16":
				want = le(want, p.u, 2)
				lib.PutInt16(int16(p.u))
			case "u16":
				want = le(want, p.u, 2)
				lib.PutUInt16(uint16(p.u))
			case "i32":
				want = le(want, p.u, 4)
				lib.PutInt32(int32(p.u))
			case "u32":
				want = le(want, p.u, 4)
				lib.PutUInt32(uint32(p.u))
			case "i64":
				want = le(want, p.u, 8)
				lib.PutInt64(int64(p.u))
			case "u64":
				want = le(want, p.u, 8)
				lib.PutUInt64(p.u)
			case "i128":
				want = le(le(want, p.u, 8), p.hi, 8)
				lib.PutInt128(proto.Int128{Low: p.u, High: p.hi})
			case "u128":
				want = le(le(want, p.u, 8), p.hi, 8)
				lib.PutUInt128(proto.UInt128{Low: p.u, High: p.hi})
			case "f32":
				want = le(want, p.u, 4)
				lib.PutFloat32(math.Float32frombits(uint32(p.u)))
			case "f64":
				want = le(want, p.u, 8)
				lib.PutFloat64(math.Float64frombits(p.u))
			case "raw", "full":
				p.s = rapid.SliceOfN(rapid.Byte(), 0, 40).Draw(rt, "s")
				want = append(want, p.s...)
				lib.PutRaw(p.s)
			}
			ps = append(ps, p)
		}
		if !bytes.Equal(lib.Buf, want) {
			rt.Fatalf("proto.Buffer wrote %x, the same values encoded by hand are %x", lib.Buf, want)
		}
		read := func(r *proto.Reader) error {
			for i, p := range ps {
				bad := func(got any, err error) error {
					return fmt.Errorf("value %d (%s): got %v, err %v; written %d / %x", i, p.kind, got, err, p.u, p.s)
				}
				switch p.kind {
				case "uvarint":
					if v, err := r.UVarInt(); err != nil || v != p.u {
						return bad(v, err)
					}
				case "int":
					if v, err := r.Int(); err != nil || uint64(v) != p.u {
						return bad(v, err)
					}
				case "len":
					if v, err := r.StrLen(); err != nil || uint64(v) != p.u {
						return bad(v, err)
					}
				case "str":
					if v, err := r.Str(); err != nil || v != string(p.s) {
						return bad(v, err)
					}
				case "strbytes":
					if v, err := r.StrBytes(); err != nil || !bytes.Equal(v, p.s) {
						return bad(v, err)
					}
				case "strappend":
					if v, err := r.StrAppend([]byte("pre")); err != nil || string(v) != "pre"+string(p.s) {
						return bad(v, err)
					}
				case "strraw":
					if v, err := r.StrRaw(); err != nil || !bytes.Equal(v, p.s) {
						return bad(v, err)
					}
				case "byte":
					if v, err := r.Byte(); err != nil || v != byte(p.u) {
						return bad(v, err)
					}
				case "u8":
					if v, err := r.UInt8(); err != nil || v != uint8(p.u) {
						return bad(v, err)
					}
				case "bool":
					if v, err := r.Bool(); err != nil || v != (p.u == 1) {
						return bad(v, err)
					}
				case "i8":
					if v, err := r.Int8(); err != nil || v != int8(p.u) {
						return bad(v, err)
					}
				case "i16":
					if v, err := r.Int16(); err != nil || v != int16(p.u) {
						return bad(v, err)
					}
				case "u16":
					if v, err := r.UInt16(); err != nil || v != uint16(p.u) {
						return bad(v, err)
					}
				case "i32":
					if v, err := r.Int32(); err != nil || v != int32(p.u) {
						return bad(v, err)
					}
				case "u32":
					if v, err := r.UInt32(); err != nil || v != uint32(p.u) {
						return bad(v, err)
					}
				case "i64":
					if v, err := r.Int64(); err != nil || v != int64(p.u) {
						return bad(v, err)
					}
				case "u64":
					if v, err := r.UInt64(); err != nil || v != p.u {
						return bad(v, err)
					}
				case "i128":
					if v, err := r.Int128(); err != nil || v != (proto.Int128{Low: p.u, High: p.hi}) {
						return bad(v, err)
					}
				case "u128":
					if v, err := r.UInt128(); err != nil || v != (proto.UInt128{Low: p.u, High: p.hi}) {
						return bad(v, err)
					}
				case "f32":
					if v, err := r.Float32(); err != nil || math.Float32bits(v) != uint32(p.u) {
						return bad(v, err)
					}
				case "f64":
					if v, err := r.Float64(); err != nil || math.Float64bits(v) != p.u {
						return bad(v, err)
					}
				case "raw":
					if v, err := r.ReadRaw(len(p.s)); err != nil || !bytes.Equal(v, p.s) {
						return bad(v, err)
					}
				case "full":
					v := make([]byte, len(p.s))
					if err := r.ReadFull(v); err != nil || !bytes.Equal(v, p.s) {
						return bad(v, err)
					}
				}
			}
			rest := make([]byte, len(sentinel))
			if err := r.ReadFull(rest); err != nil || string(rest) != sentinel {
				return fmt.Errorf("a different number of bytes was consumed (rest %x, err %v)", rest, err)
			}
			return nil
		}
		if len(want) == 0 {
			return // only empty raw reads were drawn
		}
		full := append(append([]byte(nil), want...), sentinel...)
		total := len(full)
		var segmentations [][]int
		if len(want) <= 11 {
			for mask := 0; mask < 1<<(len(want)-1); mask++ {
				var segs []int
				run := 1
				for b := 0; b < len(want)-1; b++ {
					if mask&(1<<b) != 0 {
						segs = append(segs, run)
						run = 1
					} else {
						run++
					}
				}
				segmentations = append(segmentations, append(segs, run))
			}
			st.Label("exhaustive-compositions")
		} else {
			segmentations = append(segmentations, []int{total}, ones(total))
			for k := 1; k < len(want); k++ {
				segmentations = append(segmentations, []int{k})
			}
			for i := 0; i < 20; i++ {
				segmentations = append(segmentations, rapid.SliceOfN(rapid.IntRange(0, 9), 1, 60).Draw(rt, "segs"))
			}
		}
		for _, segs := range segmentations {
			r := proto.NewReader(&chunkReader{data: append([]byte(nil), full...), segs: append([]int(nil), segs...)})
			if err := safely(func() error { return read(r) }); err != nil {
				rt.Fatalf("stream %x delivered as %v: %v", want, short(segs), err)
			}
		}
		st.Evals(int64(len(segmentations)))
		st.Case(stats.Hash("c08p", want), len(want) > 1, func() any {
			var ks []string
			for _, p := range ps {
				ks = append(ks, p.kind)
			}
			return map[string]any{"kind": "primitive-segmentation", "values": ks, "bytes": len(want), "segmentations": len(segmentations)}
		})
	})
}

// TestEveryKindC08 (small -rapid.checks; outside the ^TestC08 pattern): every kind of the
// catalog read one byte at a time and split in two at a few positions, plain and compressed.
func TestEveryKindC08(t *testing.T) {
	rapid.Check(t, func(rt *rapid.T) {
		salt := rapid.IntRange(1, 1<<20).Draw(rt, "salt")
		var n int64
		for ki, k := range gen.Kinds {
			rows := []int{3, 1, 5, 2}[(ki+salt)%4]
			var kv []ref.Val
			for i := 0; i < rows; i++ {
				kv = append(kv, k.Value.Example(salt+13*ki+i))
			}
			cols := []colSpec{{Name: "k", Kind: k, Rows: kv}}
			if (ki+salt)%2 == 0 {
				// something is read after the column (a decoder that only borrows the transport's
				// buffer is exposed once the buffer is refilled)
				tail := gen.ByName["UInt64|X|UInt64"]
				var tv []ref.Val
				for i := 0; i < rows; i++ {
					tv = append(tv, tail.Value.Example(salt+i))
				}
				cols = append(cols, colSpec{Name: "tail", Kind: tail, Rows: tv})
			}
			rev := blockRevs[(ki+salt)%len(blockRevs)]
			e := &ref.Enc{NoMap: true, LCBump: ki % 3}
			ref.EncodeBlock(e, rev, refBlock(cols, ref.BlockInfo{BucketNum: -1}))
			stream, compressed := e.B, (ki+salt)%3 == 0
			if compressed {
				f, err := ref.BuildFrame([]byte{ref.MethodLZ4, ref.MethodZSTD, ref.MethodNone}[ki%3], e.B)
				if err != nil {
					rt.Fatalf("harness: %v", err)
				}
				stream = f
			}
			auto := autoInferable(k.T.Name) && ki%2 == 0
			segsList := [][]int{nil, ones(len(stream)), {1}, {len(stream) / 2}, {len(stream) - 1}, {(salt+ki)%max(1, len(stream)-1) + 1},
				{max(1, len(stream)-3)}, {max(1, len(stream)-9)}, {max(1, len(stream)-17)}, {max(1, len(stream)*3/4)}}
			for _, segs := range segsList {
				got, err := decodeSegmented(stream, segs, compressed, rev, cols, auto)
				if err != nil {
					rt.Fatalf("%s (%d rows, rev %d, compressed=%v, auto=%v) delivered as %v: %v", k.T.Name, rows, rev, compressed, auto, short(segs), err)
				}
				if j, ok := ref.EqualRows(k.T, got[0], kv); !ok {
					rt.Fatalf("%s delivered as %v: row %d differs", k.T.Name, short(segs), j)
				}
				n++
			}
		}
		stats.G().Evals(n)
		stats.G().Exhaustive(fmt.Sprintf("every one of the %d catalog kinds under one-byte and two-piece delivery", len(gen.Kinds)))
	})
}
