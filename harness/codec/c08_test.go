package codec

// C08 (reader level) — decoding is independent of how the transport segments
// the byte stream. The client-level half (callbacks, read-deadline gaps)
// lives in the client package.

import (
	"fmt"
	"io"
	"testing"

	"github.com/ClickHouse/ch-go/proto"
	"pgregory.net/rapid"

	"verif/harness/gen"
	"verif/harness/ref"
	"verif/harness/stats"
)

// chunkReader delivers data in the given segment sizes (then the rest at once).
type chunkReader struct {
	data []byte
	segs []int
	i    int
}

func (c *chunkReader) Read(p []byte) (int, error) {
	if len(c.data) == 0 {
		return 0, io.EOF
	}
	n := len(c.data)
	if c.i < len(c.segs) {
		n = min(n, c.segs[c.i])
	}
	n = min(n, len(p))
	if c.i < len(c.segs) {
		c.segs[c.i] -= n
		if c.segs[c.i] == 0 {
			c.i++
		}
	}
	copy(p, c.data[:n])
	c.data = c.data[n:]
	return n, nil
}

func ones(n int) []int {
	s := make([]int, n)
	for i := range s {
		s[i] = 1
	}
	return s
}

// decodeSegmented decodes a (possibly compressed) block followed by the
// sentinel from a segmented stream and returns the values.
func decodeSegmented(stream []byte, segs []int, compressed bool, rev int, cols []colSpec, auto bool) ([][]ref.Val, error) {
	full := append(append([]byte(nil), stream...), sentinel...)
	r := proto.NewReader(&chunkReader{data: full, segs: append([]int(nil), segs...)})
	if compressed {
		r.EnableCompression()
	}
	var b proto.Block
	var out [][]ref.Val
	if auto {
		var res proto.Results
		if err := safely(func() error { return b.DecodeBlock(r, rev, res.Auto()) }); err != nil {
			return nil, err
		}
		for i, rc := range res {
			vals, err := gen.ReflectRows(cols[i].Kind.T, rc.Data)
			if err != nil {
				return nil, err
			}
			out = append(out, vals)
		}
	} else {
		tcols, res := typedTargets(cols)
		if err := safely(func() error { return b.DecodeBlock(r, rev, res) }); err != nil {
			return nil, err
		}
		for _, tc := range tcols {
			vals, err := readAll(tc)
			if err != nil {
				return nil, err
			}
			out = append(out, vals)
		}
	}
	r.DisableCompression()
	rest := make([]byte, len(sentinel))
	if err := r.ReadFull(rest); err != nil || string(rest) != sentinel {
		return nil, fmt.Errorf("bytes consumed differ: after the block the stream continues with %x (err %v), want the sentinel", rest, err)
	}
	if !atEOF(r) {
		return nil, fmt.Errorf("bytes consumed differ: data left after the sentinel")
	}
	return out, nil
}

func TestC08ReaderSegmentation(t *testing.T) {
	st := stats.G()
	rapid.Check(t, func(rt *rapid.T) {
		cols, rows := drawBlock(rt, 3)
		rev := rapid.SampledFrom(blockRevs).Draw(rt, "rev")
		_, in := libInput(cols, false)
		blk := proto.Block{Info: proto.BlockInfo{BucketNum: -1}, Columns: len(in), Rows: rows}
		var buf proto.Buffer
		if err := blk.EncodeBlock(&buf, rev, in); err != nil {
			rt.Fatalf("encode: %v", err)
		}
		plain := buf.Buf
		e := &ref.Enc{}
		ref.EncodeBlock(e, rev, refBlock(cols, ref.BlockInfo{BucketNum: -1}))
		compressed := rapid.Bool().Draw(rt, "compressed")
		stream := plain
		var frameStarts []int
		if compressed {
			method := rapid.SampledFrom([]byte{ref.MethodNone, ref.MethodLZ4, ref.MethodZSTD}).Draw(rt, "method")
			pieces := rapid.IntRange(1, 3).Draw(rt, "frames")
			stream = nil
			rest := plain
			for i := 0; i < pieces && len(rest) > 0; i++ {
				cut := len(rest)
				if i < pieces-1 && len(rest) > 1 {
					cut = rapid.IntRange(1, len(rest)-1).Draw(rt, "frame-split")
				}
				f, err := ref.BuildFrame(method, rest[:cut])
				if err != nil {
					rt.Fatalf("harness: %v", err)
				}
				frameStarts = append(frameStarts, len(stream))
				stream = append(stream, f...)
				rest = rest[cut:]
			}
		}
		inferable := true
		for _, c := range cols {
			inferable = inferable && autoInferable(c.Kind.T.Name)
		}
		auto := inferable && rapid.Bool().Draw(rt, "auto")
		base, err := decodeSegmented(stream, nil, compressed, rev, cols, auto)
		if err != nil {
			rt.Fatalf("single-segment decode failed: %v", err)
		}
		for i, c := range cols {
			if j, ok := ref.EqualRows(c.Kind.T, base[i], c.Rows); !ok {
				rt.Fatalf("single-segment decode differs from model at column %d row %d", i, j)
			}
		}
		n := len(stream)
		var families [][]int
		families = append(families, ones(n)) // one byte at a time
		twoPiece := n - 1
		if twoPiece > 400 {
			twoPiece = 400
		}
		for k := 1; k <= twoPiece; k++ {
			pos := k
			if n-1 > 400 {
				pos = 1 + (k*(n-1))/401
			}
			families = append(families, []int{pos})
		}
		for i := 0; i < 20; i++ {
			families = append(families, rapid.SliceOfN(rapid.IntRange(1, 1+n/3), 1, 12).Draw(rt, "segs"))
		}
		splitInside := false
		check := func(segs []int) {
			got, err := decodeSegmented(stream, segs, compressed, rev, cols, auto)
			if err != nil {
				rt.Fatalf("segmentation %v of %d bytes (compressed=%v auto=%v, types %v): %v", short(segs), n, compressed, auto, typeNames(cols), err)
			}
			for i, c := range cols {
				if j, ok := ref.EqualRows(c.Kind.T, got[i], base[i]); !ok {
					rt.Fatalf("segmentation %v: column %d (%s) row %d differs from the single-segment result", short(segs), i, c.Kind.T.Name, j)
				}
			}
		}
		for _, segs := range families {
			check(segs)
			if len(segs) == 1 {
				if !compressed {
					if _, in := insideField(e.Fields, segs[0]); in && len(e.B) == len(plain) {
						splitInside = true
					}
				} else {
					for _, fs := range frameStarts {
						if segs[0] > fs && segs[0] < fs+ref.FrameHeader {
							splitInside = true
						}
					}
				}
			}
		}
		// Exhaustive over all 2^(n-1) compositions for short streams.
		if n <= 13 {
			for mask := 0; mask < 1<<(n-1); mask++ {
				var segs []int
				run := 1
				for b := 0; b < n-1; b++ {
					if mask&(1<<b) != 0 {
						segs = append(segs, run)
						run = 1
					} else {
						run++
					}
				}
				segs = append(segs, run)
				check(segs)
			}
			st.LabelN("exhaustive-compositions", int64(1)<<(n-1))
			st.Evals(int64(1) << (n - 1))
		}
		st.Evals(int64(len(families)))
		st.LabelN("segmentations", int64(len(families)))
		st.Case(stats.Hash("c08", stream, compressed, auto), splitInside || n > 1, func() any {
			return map[string]any{"kind": "reader-segmentation", "types": typeNames(cols), "rows": rows, "rev": rev, "bytes": n, "compressed": compressed, "frames": len(frameStarts), "auto": auto, "segmentations": len(families)}
		})
		if compressed {
			st.Label("compressed")
		}
	})
}

func short(s []int) string {
	if len(s) > 12 {
		return fmt.Sprintf("%v…(%d segments)", s[:12], len(s))
	}
	return fmt.Sprint(s)
}

// Messages are short: every composition of their bytes is enumerated.
func TestC08MessageSegmentation(t *testing.T) {
	st := stats.G()
	revs := quickRevisions()
	rapid.Check(t, func(rt *rapid.T) {
		name := rapid.SampledFrom([]string{"Progress", "Profile", "BlockInfo", "ClientData", "Setting", "TableColumns", "Exception"}).Draw(rt, "message")
		rev := rapid.SampledFrom(revs).Draw(rt, "rev")
		var data []byte
		for tries := 0; ; tries++ {
			data = encodeRefMessage(rt, name, rev).B
			if len(data) <= 15 || tries > 3 {
				break
			}
		}
		if len(data) == 0 || len(data) > 15 {
			data = []byte{3, 'a', 'b', 'c', 0, 1, 'x'} // a Setting
			name = "Setting"
		}
		n := len(data)
		for mask := 0; mask < 1<<(n-1); mask++ {
			var segs []int
			run := 1
			for b := 0; b < n-1; b++ {
				if mask&(1<<b) != 0 {
					segs = append(segs, run)
					run = 1
				} else {
					run++
				}
			}
			segs = append(segs, run)
			full := append(append([]byte(nil), data...), sentinel...)
			r := proto.NewReader(&chunkReader{data: full, segs: segs})
			if err := safely(func() error { return decodeMessage(name, r, rev) }); err != nil {
				rt.Fatalf("%s (%x) delivered as %v: %v", name, data, segs, err)
			}
			rest := make([]byte, len(sentinel))
			if err := r.ReadFull(rest); err != nil || string(rest) != sentinel {
				rt.Fatalf("%s (%x) delivered as %v: consumed a different number of bytes", name, data, segs)
			}
		}
		st.Evals(int64(1) << (n - 1))
		st.LabelN("exhaustive-compositions", int64(1)<<(n-1))
		st.Case(stats.Hash("c08m", data, name, rev), n > 1, func() any {
			return map[string]any{"kind": "message-segmentation", "message": name, "rev": rev, "bytes": n, "compositions": 1 << (n - 1)}
		})
	})
}
