package codec

// Native coverage-guided fuzz targets (thorough tier only; Go's fuzzer cannot be
// seeded, so a wall-clock budget bounds each campaign and expiry means "nothing
// found"). The semantic oracle of C06/C19 is inside each target.

import (
	"encoding/binary"
	"encoding/hex"
	"testing"

	"github.com/ClickHouse/ch-go/proto"

	"verif/harness/gen"
	"verif/harness/ref"
)

var fuzzRevs = []int{51902, 54429, 54453, 54454, 54460}

func fuzzSeedBlocks() [][]byte {
	var out [][]byte
	for i, key := range []string{"Int32|X|Int32", "String|X|String", "Array(String)|Array(X)|String", "LowCardinality(String)|LowCardinality(X)|String",
		"Nullable(Int64)|Nullable(X)|Int64", "Map(String, Int8)|Map(String,X)|Int8", "Array(LowCardinality(String))|Array(LowCardinality(X))|String", "UUID|X|UUID"} {
		k, ok := gen.ByName[key]
		if !ok {
			continue
		}
		var rows []ref.Val
		for j := 0; j < 3; j++ {
			rows = append(rows, k.Value.Example(i*10+j+1))
		}
		e := &ref.Enc{NoMap: true, LCBump: i % 3}
		ref.EncodeBlock(e, 54460, &ref.Block{Info: ref.BlockInfo{BucketNum: -1}, Columns: []ref.Column{{Name: "c", T: k.T, Rows: rows}}})
		out = append(out, e.B)
	}
	return out
}

func hostileConstants() [][]byte {
	var out [][]byte
	for _, v := range []uint64{0, 1, 127, 128, 1 << 18, 100_000_001, 1 << 31, 1 << 32, 1<<63 - 1, 1 << 63, 1<<64 - 1} {
		out = append(out, binary.AppendUvarint(nil, v), binary.LittleEndian.AppendUint64(nil, v))
	}
	return out
}

func FuzzDecodeBlockAuto(f *testing.F) {
	for _, b := range fuzzSeedBlocks() {
		f.Add(b, uint8(4))
	}
	for _, h := range hostileConstants() {
		f.Add(append([]byte{1, 0, 2, 0xff, 0xff, 0xff, 0xff, 0, 1}, h...), uint8(4))
	}
	f.Fuzz(func(t *testing.T, data []byte, revIdx uint8) {
		if len(data) > 1<<16 {
			return
		}
		setCaps(c06RowCap, c06StrCap)
		defer setCaps(0, 0)
		c := decodeCase{Mode: "block-auto", Rev: fuzzRevs[int(revIdx)%len(fuzzRevs)], Hex: hex.EncodeToString(data)}
		if v := runDecodeCase(c); v != nil {
			t.Fatalf("C06 %s: %s\ncase %s", v.key, v.msg, c.marshal())
		}
	})
}

var fuzzTypedKinds = []string{"Int32|X|Int32", "String|X|String", "Array(String)|Array(X)|String", "LowCardinality(String)|LowCardinality(X)|String",
	"Nullable(Int64)|Nullable(X)|Int64", "Map(String, Int8)|Map(String,X)|Int8", "Array(LowCardinality(String))|Array(LowCardinality(X))|String",
	"Array(Array(Array(Int8)))|Array(Array(Array(X)))|Int8", "Map(String, Map(String, String))|Map(String,Map(String,X))|String", "Bool|X|Bool",
	"FixedString(3)|X|FixedString", "UUID|X|UUID", "DateTime64(3)|X|DateTime64", "Map(LowCardinality(String), Int8)|Map(LowCardinality(String),X)|Int8"}

func FuzzDecodeBlockTyped(f *testing.F) {
	for i, b := range fuzzSeedBlocks() {
		f.Add(b, uint8(4), uint8(i), false)
	}
	f.Fuzz(func(t *testing.T, data []byte, revIdx, kindIdx uint8, reuse bool) {
		if len(data) > 1<<16 {
			return
		}
		key := fuzzTypedKinds[int(kindIdx)%len(fuzzTypedKinds)]
		k, ok := gen.ByName[key]
		if !ok {
			t.Skip()
		}
		setCaps(c06RowCap, c06StrCap)
		defer setCaps(0, 0)
		rev := fuzzRevs[int(revIdx)%len(fuzzRevs)]
		c := decodeCase{Mode: "block-typed", Rev: rev, Targets: []string{key}, Names: []string{"c"}, Hex: hex.EncodeToString(data)}
		if reuse {
			e := &ref.Enc{NoMap: true}
			ref.EncodeBlock(e, rev, &ref.Block{Columns: []ref.Column{{Name: "c", T: k.T, Rows: []ref.Val{k.Value.Example(1), k.Value.Example(2)}}}})
			c.Prime = hex.EncodeToString(e.B)
		}
		if v := runDecodeCase(c); v != nil {
			t.Fatalf("C06 %s: %s\ncase %s", v.key, v.msg, c.marshal())
		}
	})
}

func FuzzMessages(f *testing.F) {
	for i := range messageNames {
		f.Add([]byte{1, 2, 3, 4, 5, 6, 7, 8, 9}, uint8(i), uint8(2))
	}
	for _, h := range hostileConstants() {
		f.Add(append([]byte{0x01, 0x00, 0x00, 0x00}, h...), uint8(8), uint8(4))
	}
	f.Fuzz(func(t *testing.T, data []byte, which, revIdx uint8) {
		if len(data) > 1<<16 {
			return
		}
		setCaps(c06RowCap, c06StrCap)
		defer setCaps(0, 0)
		c := decodeCase{Mode: "message", Message: messageNames[int(which)%len(messageNames)], Rev: fuzzRevs[int(revIdx)%len(fuzzRevs)], Hex: hex.EncodeToString(data)}
		if c.Rev < ref.RevSettingsAsStrings && (c.Message == "Query" || c.Message == "ClientInfo") {
			c.Rev = ref.RevSettingsAsStrings
		}
		if v := runDecodeCase(c); v != nil {
			t.Fatalf("C06 %s: %s\ncase %s", v.key, v.msg, c.marshal())
		}
	})
}

// FuzzCompressedStream: the fuzzer controls method, size fields and body; the
// checksum is fixed up so that the bytes reach the decompressors.
func FuzzCompressedStream(f *testing.F) {
	f.Add(byte(0x82), uint32(10), uint32(5), []byte{0x50, 1, 2, 3, 4, 5})
	f.Add(byte(0x90), uint32(20), uint32(4096), []byte{0x28, 0xb5, 0x2f, 0xfd, 0xc0, 8, 0, 0, 0, 0, 4, 0, 0, 0})
	f.Add(byte(0x02), uint32(3), uint32(3), []byte{1, 2, 3})
	f.Fuzz(func(t *testing.T, method byte, rawField, dataField uint32, body []byte) {
		if len(body) > 1<<16 {
			return
		}
		frame := ref.SealFrame(method, body, dataField)
		if rawField%4 != 0 { // mostly keep the consistent compressed-size field
			binary.LittleEndian.PutUint32(frame[17:], rawField)
		}
		ref.FixChecksum(frame)
		setCaps(c06RowCap, c06StrCap)
		defer setCaps(0, 0)
		c := decodeCase{Mode: "compressed", Hex: hex.EncodeToString(frame)}
		if v := runDecodeCase(c); v != nil {
			t.Fatalf("C06 %s: %s\ncase %s", v.key, v.msg, c.marshal())
		}
	})
}

func FuzzInfer(f *testing.F) {
	for _, s := range []string{"Array(Int8)", "Enum8('a'=1)", "DateTime64(3, 'UTC')", "Map(String,String)", "Decimal(9, 2)", "LowCardinality(Nullable(String))",
		"Enum8('=1)", "Tuple(a Int8, b String)", "FixedString(8)", "IntervalSecond", "Nullable(Nothing)"} {
		f.Add(s, "Int8")
	}
	f.Fuzz(func(t *testing.T, a, b string) {
		if len(a) > 4096 || len(b) > 4096 {
			return
		}
		col, err := inferNoPanic(a)
		if isPanic(err) {
			t.Fatalf("C19 ColAuto.Infer(%q) panicked: %v", a, err)
		}
		ab, e1 := conflictsNoPanic(a, b)
		ba, e2 := conflictsNoPanic(b, a)
		aa, e3 := conflictsNoPanic(a, a)
		if e1 != nil || e2 != nil || e3 != nil {
			t.Fatalf("C19 Conflicts panicked on (%q, %q)", a, b)
		}
		if aa || ab != ba {
			t.Fatalf("C19 Conflicts(%q,%q)=%v, reversed %v, reflexive %v", a, b, ab, ba, aa)
		}
		if err == nil && col.Data != nil {
			if proto.ColumnType(a).Conflicts(col.Type()) {
				t.Fatalf("C19 Infer(%q) reports conflicting type %q", a, col.Type())
			}
		}
	})
}
