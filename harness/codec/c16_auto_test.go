package codec

import (
	"strings"
	"testing"

	"github.com/ClickHouse/ch-go/proto"
	"pgregory.net/rapid"

	"verif/harness/gen"
	"verif/harness/ref"
	"verif/harness/stats"
)

// TestC16AutoInputReinfer: a ColAuto that holds rows - filled by a decode, the way a result is
// handed on as the input of an INSERT - is told its type again in another but equivalent
// spelling (blanks after commas dropped or added, which is how the client's sender announces
// the server's column type to every input column that can infer). What it encodes afterwards
// is still its rows.
func TestC16AutoInputReinfer(t *testing.T) {
	st := stats.G()
	var kinds []*gen.Kind
	for _, k := range gen.Kinds {
		if autoInferable(k.T.Name) && strings.Contains(k.T.Name, ",") {
			kinds = append(kinds, k)
		}
	}
	if len(kinds) == 0 {
		t.Fatal("harness: no inferable kind with a parameter list")
	}
	rapid.Check(t, func(rt *rapid.T) {
		k := kinds[rapid.IntRange(0, len(kinds)-1).Draw(rt, "kind")]
		rows := rapid.IntRange(1, 6).Draw(rt, "rows")
		vals := gen.DrawRows(rt, k, rows)
		a := new(proto.ColAuto)
		if err := a.Infer(proto.ColumnType(k.T.Name)); err != nil {
			rt.Fatalf("Infer(%q): %v", k.T.Name, err)
		}
		e := &ref.Enc{NoMap: true}
		ref.EncodeState(e, k.T)
		ref.EncodeColumn(e, k.T, vals)
		r := readerOf(e.B)
		if err := safely(func() error {
			if s, ok := a.Data.(proto.StateDecoder); ok {
				if err := s.DecodeState(r); err != nil {
					return err
				}
			}
			return a.DecodeColumn(r, rows)
		}); err != nil {
			rt.Fatalf("filling the inferred %s column: %v", k.T.Name, err)
		}
		// the equivalent spelling: every ", " becomes "," or the other way round
		other := strings.ReplaceAll(k.T.Name, ", ", ",")
		if other == k.T.Name {
			other = strings.ReplaceAll(k.T.Name, ",", ", ")
		}
		if proto.ColumnType(other).Conflicts(proto.ColumnType(k.T.Name)) {
			rt.Skip("the two spellings are not compatible to the library")
		}
		if err := a.Infer(proto.ColumnType(other)); err != nil {
			rt.Fatalf("Infer(%q) on the column inferred as %q and holding %d rows: %v", other, k.T.Name, rows, err)
		}
		if a.Rows() != rows {
			rt.Fatalf("the %q column held %d rows; after Infer(%q) it holds %d", k.T.Name, rows, other, a.Rows())
		}
		var b proto.Buffer
		if err := safely(func() error {
			if p, ok := a.Data.(proto.Preparable); ok {
				if err := p.Prepare(); err != nil {
					return err
				}
			}
			if s, ok := a.Data.(proto.StateEncoder); ok {
				s.EncodeState(&b)
			}
			a.EncodeColumn(&b)
			return nil
		}); err != nil {
			rt.Fatalf("encoding after the second Infer: %v", err)
		}
		d := &ref.Dec{B: b.Buf}
		if err := ref.DecodeState(d, k.T); err != nil {
			rt.Fatalf("state after the second Infer does not parse: %v", err)
		}
		got, err := ref.DecodeColumn(d, k.T, rows)
		if err != nil || d.Left() != 0 {
			rt.Fatalf("%q after Infer(%q): the encoding does not parse as %d rows: %v (%d bytes left)", k.T.Name, other, rows, err, d.Left())
		}
		if i, ok := ref.EqualRows(k.T, got, vals); !ok {
			rt.Fatalf("%q after Infer(%q): row %d differs from what the column held", k.T.Name, other, i)
		}
		st.Case(stats.Hash("c16auto", k.Key(), e.B), true, func() any {
			return map[string]any{"kind": "auto-input-reinfer", "type": k.T.Name, "respelled": other, "rows": rows}
		})
	})
}
