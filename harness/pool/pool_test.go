package pool

// C11 — a pooled connection has one holder; dead or expired connections are
// never reissued. Model-based state machine inside a synctest bubble, pool
// over a simulated dialer; invariants are evaluated at quiescent points.

import (
	"context"
	"crypto/ecdsa"
	"crypto/elliptic"
	crand "crypto/rand"
	"crypto/tls"
	"crypto/x509"
	"crypto/x509/pkix"
	"errors"
	"fmt"
	"math/big"
	"net"
	"strings"
	"sync"
	"testing"
	"testing/synctest"
	"time"

	"github.com/ClickHouse/ch-go"
	"github.com/ClickHouse/ch-go/chpool"
	"github.com/ClickHouse/ch-go/proto"
	"go.uber.org/zap"
	"pgregory.net/rapid"

	"verif/harness/ref"
	"verif/harness/simnet"
	"verif/harness/stats"
)

func TestMain(m *testing.M) {
	simnet.OnLivelock = func(msg string) {
		stats.G().Violate("client-spins-on-expired-read-deadline", "the client does not return: "+msg, []byte(msg))
	}
	stats.Main(m)
}

// simServerConn is one dialed connection with its request/response server.
type simServerConn struct {
	id        int
	conn      *simnet.Conn
	srv       *simnet.Server
	dialedAt  time.Time
	mu        sync.Mutex
	answered  int // requests (queries + pings) answered or consumed
	inflight  int
	dropPongs int      // so many of the next pings get no answer
	overlap   string   // description of an overlapping request, if any
	seen      []string // query ids received
}

type farm struct {
	mu    sync.Mutex
	conns []*simServerConn
	fail  bool // dialer fails
	// failAfter >= 0: only that many dials succeed
	failAfter int
	closeErr  bool // dialed connections close, but report an error from Close (like TLS on a cut link)
	// closeDelay: closing a dialed connection takes this long; it counts as open until then
	closeDelay time.Duration
}

func (f *farm) DialContext(ctx context.Context, network, addr string) (net.Conn, error) {
	f.mu.Lock()
	defer f.mu.Unlock()
	if f.fail || (f.failAfter > 0 && len(f.conns) >= f.failAfter-1) {
		return nil, errors.New("dial refused")
	}
	c := simnet.NewConn()
	if f.closeErr {
		c.CloseErr = errors.New("close: broken pipe")
	}
	c.CloseDelay = f.closeDelay
	sc := &simServerConn{id: len(f.conns), conn: c, dialedAt: time.Now()}
	sc.srv = simnet.NewServer(c, 54460)
	hello := ref.ServerHello{Name: "SimHouse", Major: 23, Minor: 8, Revision: 54460, DisplayName: fmt.Sprintf("conn-%d", sc.id), Timezone: "UTC"}
	sc.srv.Steps = []simnet.Step{{Name: "hello", When: simnet.AfterHello, Bytes: func(cs *ref.ClientStream) []byte {
		e := &ref.Enc{NoMap: true}
		ref.EncodeServerHello(e, hello, int(cs.Packets[0].Hello.Revision))
		return e.B
	}}}
	sc.srv.Responder = sc.respond
	f.conns = append(f.conns, sc)
	return c, nil
}

// respond answers every newly completed request according to the query body.
func (sc *simServerConn) respond(s *simnet.Server) {
	type req struct {
		ping bool
		id   string
		body string
	}
	var reqs []req
	s.WithStream(func(cs *ref.ClientStream) {
		var pendingQuery *ref.Query
		insertOpen := false
		for _, p := range cs.Packets {
			switch p.Kind {
			case ref.PPing:
				reqs = append(reqs, req{ping: true})
			case ref.PQuery:
				pendingQuery = p.Query
			case ref.PData:
				if len(p.Block.Columns) != 0 {
					continue
				}
				if pendingQuery != nil {
					reqs = append(reqs, req{id: pendingQuery.ID, body: pendingQuery.Body})
					insertOpen = pendingQuery.Body == "INS"
					pendingQuery = nil
				} else if insertOpen {
					// end of input of an INSERT
					reqs = append(reqs, req{body: "INS-END"})
					insertOpen = false
				}
			}
		}
	})
	sc.mu.Lock()
	todo := reqs[min(sc.answered, len(reqs)):]
	sc.answered = len(reqs)
	sc.mu.Unlock()
	for _, r := range todo {
		sc.mu.Lock()
		if sc.inflight > 0 {
			sc.overlap = fmt.Sprintf("request %q arrived while another request is in flight on conn-%d", r.id, sc.id)
		}
		if !r.ping {
			sc.seen = append(sc.seen, r.id)
		}
		sc.mu.Unlock()
		switch {
		case r.ping:
			sc.mu.Lock()
			drop := sc.dropPongs > 0
			if drop {
				sc.dropPongs--
			}
			sc.mu.Unlock()
			if !drop { // a dropped pong: the ping is never answered (lost on the way)
				sc.conn.Deliver([]byte{ref.ServerPongCode}, nil)
			}
		case r.body == "OK", r.body == "INS-END":
			sc.conn.Deliver([]byte{ref.ServerEndOfStreamCode}, nil)
		case r.body == "INS":
			// column info for the INSERT (compressed iff the client asked for it)
			method := byte(0)
			s.WithStream(func(cs *ref.ClientStream) {
				if q := cs.LastQuery(); q != nil && q.Compression == 1 {
					method = ref.MethodLZ4
				}
			})
			e := &ref.Enc{NoMap: true}
			_ = ref.EncodeDataPacket(e, ref.ServerDataCode, "", 54460, &ref.Block{Columns: []ref.Column{{Name: "v", T: ref.Fixed("UInt64", 8)}}}, method)
			sc.conn.Deliver(e.B, nil)
		case r.body == "EXC":
			e := &ref.Enc{NoMap: true}
			ref.EncodeExceptionChain(e, []ref.Exception{{Code: 60, Name: "DB::Exception", Message: "no table"}})
			sc.conn.Deliver(e.B, nil)
		case r.body == "CUT":
			sc.conn.FailReads(errors.New("connection reset by peer"))
		case r.body == "RST":
			// the peer resets the connection: reads fail and so does every later write (the Cancel packet too)
			sc.conn.FailReads(errors.New("connection reset by peer"))
			sc.conn.FailWritesAfter(len(sc.conn.WrittenBytes()))
		case r.body == "EXCCUT":
			// half of an exception packet, then the transport dies
			e := &ref.Enc{NoMap: true}
			ref.EncodeExceptionChain(e, []ref.Exception{{Code: 241, Name: "DB::Exception", Message: "Memory limit exceeded"}, {Code: 1, Name: "DB::Exception", Message: "nested cause"}})
			// ... inside the first element or inside the nested one (decided by the history so far)
			cut := len(e.B) / 4
			if len(sc.conn.WrittenBytes())%2 == 1 {
				cut = len(e.B) * 3 / 4
			}
			sc.conn.Deliver(e.B[:cut], nil)
			sc.conn.FailReads(errors.New("connection reset by peer"))
		case r.body == "HANG":
			sc.mu.Lock()
			sc.inflight++ // never answered: the caller cancels, which closes the connection
			sc.mu.Unlock()
		}
	}
}

type handle struct {
	id       int
	c        *chpool.Client
	conn     int // connection id learned from the probe
	released bool
	dead     bool // its connection died while held (CUT / cancelled)
}

func TestC11Pool(t *testing.T) {
	st := stats.G()
	rapid.Check(t, func(rt *rapid.T) {
		rapid.SyncTest(rt, func(rt *rapid.T) { runC11(rt, st) })
	})
}

func runC11(rt *rapid.T, st *stats.Collector) {
	f := &farm{closeErr: rapid.IntRange(0, 3).Draw(rt, "close-returns-error") == 0,
		closeDelay: rapid.SampledFrom([]time.Duration{0, 0, 0, 2 * time.Millisecond, 7 * time.Millisecond}).Draw(rt, "close-takes")}
	maxConns := rapid.IntRange(1, 4).Draw(rt, "max-conns")
	minConns := rapid.IntRange(0, min(2, maxConns)).Draw(rt, "min-conns")
	lifetime := time.Duration(rapid.SampledFrom([]int{200, 1000, 60000}).Draw(rt, "lifetime-ms")) * time.Millisecond
	idle := time.Duration(rapid.SampledFrom([]int{150, 700, 60000}).Draw(rt, "idletime-ms")) * time.Millisecond
	period := time.Duration(rapid.SampledFrom([]int{50, 300}).Draw(rt, "healthcheck-ms")) * time.Millisecond
	opt := chpool.Options{
		ClientOptions:   ch.Options{Dialer: f, Logger: zap.NewNop(), ReadTimeout: 100 * time.Millisecond},
		MaxConnLifetime: lifetime, MaxConnIdleTime: idle, HealthCheckPeriod: period,
		MaxConns: int32(maxConns), MinConns: int32(minConns),
	}
	p, err := chpool.New(context.Background(), opt)
	if err != nil {
		rt.Fatalf("chpool.New: %v", err)
	}
	var log []string
	note := func(f string, a ...any) { log = append(log, fmt.Sprintf(f, a...)) }
	history := func() string { return strings.Join(log, " → ") }
	var handles []*handle
	closed := false
	closeDone := make(chan struct{})
	expirySeen, doubleRelease, concurrentHeld := false, false, false
	defer func() {
		// Let the bubble end whatever happened.
		for _, h := range handles {
			if !h.released {
				func() { defer func() { recover() }(); h.c.Release() }()
			}
		}
		if !closed {
			closed = true
			go func() { defer close(closeDone); p.Close() }()
		}
		select {
		case <-closeDone:
		case <-time.After(time.Hour):
		}
	}()
	live := func() []*handle {
		var out []*handle
		for _, h := range handles {
			if !h.released {
				out = append(out, h)
			}
		}
		return out
	}
	probe := func(h *handle) error {
		qid := fmt.Sprintf("probe-%d-%d", h.id, len(log))
		if err := h.c.Do(context.Background(), ch.Query{Body: "OK", QueryID: qid}); err != nil {
			return err
		}
		f.mu.Lock()
		defer f.mu.Unlock()
		h.conn = -1
		for _, sc := range f.conns {
			sc.mu.Lock()
			for _, s := range sc.seen {
				if s == qid {
					h.conn = sc.id
				}
			}
			sc.mu.Unlock()
		}
		return nil
	}
	checkInvariants := func(what string) {
		synctest.Wait()
		f.mu.Lock()
		conns := append([]*simServerConn(nil), f.conns...)
		f.mu.Unlock()
		open := 0
		for _, sc := range conns {
			sc.mu.Lock()
			ov := sc.overlap
			sc.mu.Unlock()
			if ov != "" {
				rt.Fatalf("[%s] one connection served two holders at once: %s\nhistory: %s", what, ov, history())
			}
			if !sc.conn.Closed() {
				open++
			}
		}
		if open > maxConns {
			rt.Fatalf("[%s] %d connections are open, MaxConns is %d\nhistory: %s", what, open, maxConns, history())
		}
		used := map[int]int{}
		for _, h := range live() {
			if h.conn >= 0 {
				if prev, dup := used[h.conn]; dup {
					rt.Fatalf("[%s] live handles %d and %d share connection conn-%d\nhistory: %s", what, prev, h.id, h.conn, history())
				}
				used[h.conn] = h.id
			}
		}
		if len(live()) >= 2 {
			concurrentHeld = true
		}
		if !closed {
			s := p.Stat()
			// A connection whose (slow) Close is still running is no longer held by anybody but is
			// still counted by the pool until its destruction is over.
			closing := 0
			f.mu.Lock()
			for _, sc := range f.conns {
				if sc.conn.NumCloseCalls() > 0 && !sc.conn.Closed() {
					closing++
				}
			}
			f.mu.Unlock()
			if d := int(s.AcquiredResources()) - len(live()); d < 0 || d > closing {
				rt.Fatalf("[%s] Stat().AcquiredResources() = %d, %d handles are held (%d connections are being closed)\nhistory: %s", what, s.AcquiredResources(), len(live()), closing, history())
			}
			if int(s.TotalResources()) > maxConns {
				rt.Fatalf("[%s] Stat().TotalResources() = %d > MaxConns %d\nhistory: %s", what, s.TotalResources(), maxConns, history())
			}
		}
	}
	safeRelease := func(h *handle) {
		defer func() {
			if r := recover(); r != nil {
				rt.Fatalf("Release of handle %d panicked: %v\nhistory: %s", h.id, r, history())
			}
		}()
		h.c.Release()
	}
	acquire := func(rt *rapid.T) {
		if closed {
			return // nothing to do in this state (a no-op step; skipping too often makes rapid give up)
		}
		ctx, cancel := context.WithTimeout(context.Background(), 30*time.Millisecond)
		defer cancel()
		c, err := p.Acquire(ctx)
		if err != nil {
			if len(live()) < maxConns {
				rt.Fatalf("Acquire failed (%v) with %d of %d connections held\nhistory: %s", err, len(live()), maxConns, history())
			}
			note("acquire→timeout")
			return
		}
		h := &handle{id: len(handles), c: c}
		handles = append(handles, h)
		note("acquire→h%d", h.id)
		if len(live()) > maxConns {
			rt.Fatalf("%d handles held with MaxConns %d\nhistory: %s", len(live()), maxConns, history())
		}
		if err := probe(h); err != nil {
			rt.Fatalf("pool issued a connection that does not work (probe query: %v): a dead or expired connection was reissued\nhistory: %s", err, history())
		}
		note("h%d=conn-%d", h.id, h.conn)
	}
	do := func(rt *rapid.T) {
		ls := live()
		if len(ls) == 0 {
			return // nothing to do in this state (a no-op step; skipping too often makes rapid give up)
		}
		h := ls[rapid.IntRange(0, len(ls)-1).Draw(rt, "handle")]
		if h.dead {
			return // nothing to do in this state (a no-op step; skipping too often makes rapid give up)
		}
		kind := rapid.SampledFrom([]string{"OK", "OK", "EXC", "CUT", "EXCCUT", "RST", "HANG", "PING", "PINGLOST"}).Draw(rt, "do-kind")
		ctx := context.Background()
		var err error
		switch kind {
		case "PINGLOST":
			// the pong never arrives: Ping fails on its read timeout; the connection itself is fine
			if h.conn < 0 {
				return
			}
			f.mu.Lock()
			sc := f.conns[h.conn]
			f.mu.Unlock()
			sc.mu.Lock()
			sc.dropPongs++
			sc.mu.Unlock()
			if perr := h.c.Ping(ctx); perr == nil {
				rt.Fatalf("h%d: Ping returned nil although its pong was dropped\nhistory: %s", h.id, history())
			}
			note("h%d.PINGLOST", h.id)
			return
		case "PING":
			err = h.c.Ping(ctx)
		case "HANG":
			c2, cancel := context.WithTimeout(ctx, 40*time.Millisecond)
			err = h.c.Do(c2, ch.Query{Body: "HANG"})
			cancel()
			h.dead = true
		default:
			err = h.c.Do(ctx, ch.Query{Body: kind})
			if kind == "CUT" || kind == "EXCCUT" || kind == "RST" {
				h.dead = true
			}
		}
		note("h%d.%s→%v", h.id, kind, err != nil)
		if (kind == "OK" || kind == "PING") && err != nil {
			rt.Fatalf("h%d %s failed: %v\nhistory: %s", h.id, kind, err, history())
		}
		if (kind == "EXC" || kind == "CUT" || kind == "EXCCUT" || kind == "RST" || kind == "HANG") && err == nil {
			rt.Fatalf("h%d %s returned nil\nhistory: %s", h.id, kind, history())
		}
	}
	rt.Repeat(map[string]func(*rapid.T){
		"acquire":  acquire,
		"acquire2": acquire,
		"do":       do,
		"do2":      do,
		"release": func(rt *rapid.T) {
			if len(handles) == 0 {
				return // nothing to do in this state (a no-op step; skipping too often makes rapid give up)
			}
			h := handles[rapid.IntRange(0, len(handles)-1).Draw(rt, "handle")]
			if h.released {
				doubleRelease = true
			}
			note("release h%d(again=%v)", h.id, h.released)
			safeRelease(h)
			h.released = true
		},
		"advance": func(rt *rapid.T) {
			d := time.Duration(rapid.SampledFrom([]int{10, 120, 400, 1500}).Draw(rt, "advance-ms")) * time.Millisecond
			f.mu.Lock()
			before := append([]*simServerConn(nil), f.conns...)
			f.mu.Unlock()
			time.Sleep(d)
			note("advance %v", d)
			if closed {
				return
			}
			synctest.Wait()
			// Idle connections past their lifetime or idle time are destroyed by the health check.
			if d >= max(lifetime, idle)+2*period || d >= min(lifetime, idle)+2*period {
				held := map[int]bool{}
				for _, h := range live() {
					held[h.conn] = true
				}
				for _, sc := range before {
					if !held[sc.id] && !sc.conn.Closed() {
						rt.Fatalf("conn-%d has been idle for %v (lifetime %v, idle time %v, health check every %v) and is still open\nhistory: %s", sc.id, d, lifetime, idle, period, history())
					}
				}
				expirySeen = true
			}
		},
		"poolDo": func(rt *rapid.T) {
			if closed {
				return // nothing to do in this state (a no-op step; skipping too often makes rapid give up)
			}
			if len(live()) >= maxConns {
				return // nothing to do in this state (a no-op step; skipping too often makes rapid give up)
			}
			kind := rapid.SampledFrom([]string{"OK", "EXC", "CUT", "EXCCUT", "RST", "PING"}).Draw(rt, "pooldo-kind")
			var err error
			if kind == "PING" {
				err = p.Ping(context.Background())
			} else {
				err = p.Do(context.Background(), ch.Query{Body: kind})
			}
			note("pool.%s→%v", kind, err != nil)
			if (kind == "OK" || kind == "PING") && err != nil {
				rt.Fatalf("pool.%s failed: %v (a dead or expired connection was issued)\nhistory: %s", kind, err, history())
			}
		},
		"churn": func(rt *rapid.T) {
			// Many acquire/release cycles (handle objects are allocated in batches per connection);
			// the stale handles stay in the list and may be released again later.
			if closed || len(live()) >= maxConns || rapid.IntRange(0, 2).Draw(rt, "really-churn") > 0 {
				return // nothing to do in this state (a no-op step; skipping too often makes rapid give up)
			}
			n := rapid.SampledFrom([]int{63, 64, 65, 66, 130}).Draw(rt, "churn")
			for i := 0; i < n; i++ {
				c, err := p.Acquire(context.Background())
				if err != nil {
					rt.Fatalf("churn acquire %d failed: %v\nhistory: %s", i, err, history())
				}
				h := &handle{id: len(handles), c: c, conn: -1, released: true}
				handles = append(handles, h)
				c.Release()
			}
			note("churn(%d)", n)
		},
		"burst": func(rt *rapid.T) {
			if closed {
				return // nothing to do in this state (a no-op step; skipping too often makes rapid give up)
			}
			n := rapid.IntRange(2, 6).Draw(rt, "burst")
			var wg sync.WaitGroup
			errs := make([]error, n)
			for i := 0; i < n; i++ {
				wg.Add(1)
				go func(i int) {
					defer wg.Done()
					ctx, cancel := context.WithTimeout(context.Background(), 2*time.Second)
					defer cancel()
					errs[i] = p.Do(ctx, ch.Query{Body: "OK", QueryID: fmt.Sprintf("burst-%d-%d", len(log), i)})
				}(i)
			}
			wg.Wait()
			note("burst(%d)", n)
			if len(live()) < maxConns {
				for i, e := range errs {
					if e != nil {
						rt.Fatalf("burst query %d failed: %v\nhistory: %s", i, e, history())
					}
				}
			}
		},
		"close": func(rt *rapid.T) {
			if closed || rapid.IntRange(0, 5).Draw(rt, "really-close") > 0 {
				return // nothing to do in this state (a no-op step; skipping too often makes rapid give up)
			}
			closed = true
			note("close")
			go func() { defer close(closeDone); p.Close() }()
		},
		"": func(rt *rapid.T) { checkInvariants("after step") },
	})
	// Epilogue: close, release everything, every dialed connection is closed.
	if !closed {
		closed = true
		note("close")
		go func() { defer close(closeDone); p.Close() }()
	}
	for _, h := range handles {
		if !h.released {
			safeRelease(h)
			h.released = true
		}
	}
	select {
	case <-closeDone:
	case <-time.After(time.Minute):
		rt.Fatalf("Pool.Close did not finish within a minute after all handles were released\nhistory: %s", history())
	}
	synctest.Wait()
	f.mu.Lock()
	stillOpen := -1
	for _, sc := range f.conns {
		if !sc.conn.Closed() {
			stillOpen = sc.id
		}
	}
	nconns := len(f.conns)
	f.mu.Unlock()
	if stillOpen >= 0 {
		rt.Fatalf("Pool.Close has returned and all handles are released, but conn-%d is still open\nhistory: %s", stillOpen, history())
	}
	if _, err := p.Acquire(context.Background()); err == nil {
		rt.Fatalf("Acquire on a closed pool succeeded\nhistory: %s", history())
	}
	nt := (concurrentHeld && doubleRelease) || expirySeen
	st.Case(stats.Hash("c11", history(), maxConns, minConns, lifetime, idle, period), nt, func() any {
		return map[string]any{"kind": "pool-history", "max_conns": maxConns, "min_conns": minConns, "lifetime": lifetime.String(), "idle_time": idle.String(),
			"health_check": period.String(), "connections_dialed": nconns, "history": history()}
	})
	if doubleRelease {
		st.Label("double-release")
	}
	if expirySeen {
		st.Label("expiry-checked")
	}
	if concurrentHeld {
		st.Label("concurrent-handles")
	}
}

// TestC12PoolRaces (run in the -race build): a pool shared by 2-8 goroutines
// with a 1 ms (virtual) health check; the race detector is the oracle.
func TestC12PoolRaces(t *testing.T) {
	st := stats.G()
	rapid.Check(t, func(rt *rapid.T) {
		workers := rapid.IntRange(2, 8).Draw(rt, "workers")
		maxConns := rapid.IntRange(1, 4).Draw(rt, "max-conns")
		iters := rapid.OneOf(rapid.IntRange(1, 6), rapid.IntRange(10, 40)).Draw(rt, "iterations")
		kinds := rapid.SliceOfN(rapid.SampledFrom([]string{"OK", "OK", "EXC", "CUT", "EXCCUT", "RST", "PING", "HOLD", "INS", "INS", "INS"}), 16, 16).Draw(rt, "kinds")
		comp := rapid.SampledFrom([]ch.Compression{ch.CompressionDisabled, ch.CompressionLZ4, ch.CompressionLZ4, ch.CompressionZSTD, ch.CompressionLZ4HC}).Draw(rt, "compression")
		rapid.SyncTest(rt, func(rt *rapid.T) {
			f := &farm{}
			// Connection-level settings shared by every client the pool dials; the slice has spare
			// capacity, as one built with append does.
			shared := append(make([]ch.Setting, 0, 8), ch.SettingInt("max_threads", 2), ch.Setting{Key: "s", Value: "v", Important: true})
			p, err := chpool.New(context.Background(), chpool.Options{
				ClientOptions:   ch.Options{Dialer: f, Logger: zap.NewNop(), ReadTimeout: 50 * time.Millisecond, Compression: comp, Settings: shared, QuotaKey: "qk"},
				MaxConnLifetime: 20 * time.Millisecond, MaxConnIdleTime: 5 * time.Millisecond, HealthCheckPeriod: time.Millisecond,
				MaxConns: int32(maxConns), MinConns: 1,
			})
			if err != nil {
				rt.Fatalf("chpool.New: %v", err)
			}
			var wg sync.WaitGroup
			for w := 0; w < workers; w++ {
				wg.Add(1)
				go func(w int) {
					defer wg.Done()
					var stale []*chpool.Client
					for i := 0; i < iters; i++ {
						ctx, cancel := context.WithTimeout(context.Background(), 500*time.Millisecond)
						switch k := kinds[(w*7+i)%len(kinds)]; k {
						case "PING":
							_ = p.Ping(ctx)
						case "INS":
							var col proto.ColUInt64
							for j := 0; j < 300; j++ {
								col.Append(uint64(w*1000 + j%7))
							}
							_ = p.Do(ctx, ch.Query{Body: "INS", Input: proto.Input{{Name: "v", Data: &col}}})
						case "HOLD":
							if c, err := p.Acquire(ctx); err == nil {
								_ = c.Ping(ctx)
								time.Sleep(3 * time.Millisecond)
								_ = p.Stat().TotalResources()
								c.Release()
								stale = append(stale, c)
							}
							// releasing handles again is allowed at any later time
							if len(stale) > 2 {
								stale[0].Release()
								stale = stale[1:]
							}
						default:
							q := ch.Query{Body: k}
							if (w+i)%2 == 0 {
								// per-query settings, parameters and an unnamed external table
								q.Settings = []ch.Setting{ch.SettingInt("max_execution_time", 1000+w), {Key: "k", Value: fmt.Sprint(i)}}
								q.Parameters = []proto.Parameter{{Key: "p", Value: fmt.Sprint(w)}}
								var ext proto.ColUInt8
								ext.Append(uint8(w))
								q.ExternalData = proto.Input{{Name: "e", Data: &ext}}
							}
							_ = p.Do(ctx, q)
						}
						cancel()
					}
				}(w)
			}
			wg.Wait()
			p.Close()
		})
		st.Case(stats.Hash("c12p", workers, maxConns, iters, strings.Join(kinds, "")), true, func() any {
			return map[string]any{"kind": "pool-race-scenario", "workers": workers, "max_conns": maxConns, "iterations": iters, "kinds": strings.Join(kinds, ",")}
		})
	})
}

// Construction: a pool that cannot be brought up (the dialer refuses the k-th connection
// while MinConns or the availability check still need it) returns an error and leaves none of
// the connections it did open behind; one that comes up holds exactly what was asked for and
// closes all of it on Close.
func TestC11PoolConstruction(t *testing.T) {
	st := stats.G()
	rapid.Check(t, func(rt *rapid.T) {
		maxConns := rapid.IntRange(1, 4).Draw(rt, "max-conns")
		// (a configured minimum above the configured maximum too: whatever construction makes of it,
		// the maximum is the maximum)
		minConns := rapid.IntRange(0, maxConns+2).Draw(rt, "min-conns")
		viaDial := rapid.Bool().Draw(rt, "chpool.Dial")
		okDials := rapid.IntRange(0, 5).Draw(rt, "dials-that-succeed") // 5 = all
		slowClose := rapid.SampledFrom([]time.Duration{0, 0, 3 * time.Millisecond}).Draw(rt, "close-takes")
		rapid.SyncTest(rt, func(rt *rapid.T) {
			f := &farm{closeDelay: slowClose}
			if okDials < 5 {
				f.failAfter = okDials + 1
			}
			opt := chpool.Options{ClientOptions: ch.Options{Dialer: f, Logger: zap.NewNop(), ReadTimeout: 100 * time.Millisecond},
				MaxConns: int32(maxConns), MinConns: int32(minConns), HealthCheckPeriod: time.Hour}
			var p *chpool.Pool
			var err error
			if viaDial {
				p, err = chpool.Dial(context.Background(), opt)
			} else {
				p, err = chpool.New(context.Background(), opt)
			}
			need := minConns
			if viaDial {
				need = max(1, minConns)
			}
			synctest.Wait()
			open := func() (n, dialed int) {
				f.mu.Lock()
				defer f.mu.Unlock()
				for _, sc := range f.conns {
					if !sc.conn.Closed() {
						n++
					}
				}
				return n, len(f.conns)
			}
			if minConns > maxConns {
				n, dialed := open()
				if err != nil {
					if p != nil || n != 0 {
						rt.Fatalf("MinConns %d above MaxConns %d: construction failed (%v) but %d of the %d connections it opened are still open", minConns, maxConns, err, n, dialed)
					}
				} else {
					if n > maxConns || int(p.Stat().TotalResources()) > maxConns || int(p.Stat().MaxResources()) > maxConns {
						rt.Fatalf("MinConns %d above MaxConns %d: the pool came up with %d open connections (Stat total %d, max %d): more than the configured maximum", minConns, maxConns, n, p.Stat().TotalResources(), p.Stat().MaxResources())
					}
					p.Close()
					synctest.Wait()
					if n, dialed := open(); n != 0 {
						rt.Fatalf("after Close %d of %d connections are still open", n, dialed)
					}
				}
			} else if okDials < need {
				if err == nil || p != nil {
					rt.Fatalf("pool needing %d connections came up (err=%v) although only %d dials succeed", need, err, okDials)
				}
				if n, dialed := open(); n != 0 {
					rt.Fatalf("construction failed (%v) but %d of the %d connections it opened are still open", err, n, dialed)
				}
			} else {
				if err != nil {
					rt.Fatalf("construction with MinConns %d MaxConns %d (Dial=%v) failed although %d dials succeed: %v", minConns, maxConns, viaDial, okDials, err)
				}
				if n, dialed := open(); n != need || dialed != need || int(p.Stat().TotalResources()) != need {
					rt.Fatalf("pool came up with %d open connections (%d dialed, Stat total %d), want %d", n, dialed, p.Stat().TotalResources(), need)
				}
				if need > 0 || okDials > 0 {
					if perr := p.Ping(context.Background()); perr != nil {
						rt.Fatalf("Ping on the new pool: %v", perr)
					}
				}
				p.Close()
				synctest.Wait()
				if n, dialed := open(); n != 0 {
					rt.Fatalf("after Close %d of %d connections are still open", n, dialed)
				}
			}
			st.Case(stats.Hash("c11c", maxConns, minConns, viaDial, okDials, slowClose), okDials < need || minConns > 0, func() any {
				return map[string]any{"kind": "pool-construction", "max_conns": maxConns, "min_conns": minConns, "via_dial": viaDial, "dials_that_succeed": okDials, "needed": need}
			})
		})
	})
}

// TLS dial path under the race detector: a cold pool whose ClientOptions carry a TLS config and
// the caller's own *net.Dialer is hit by several users at once, so several ch.Dial calls share
// one Options value (real loopback TCP + TLS; not in a bubble - the network is real here).
func TestC12TLSDialSharedOptions(t *testing.T) {
	st := stats.G()
	cert, pool := selfSignedCert(t)
	ln, err := tls.Listen("tcp", "127.0.0.1:0", &tls.Config{Certificates: []tls.Certificate{cert}})
	if err != nil {
		t.Skipf("no loopback listener: %v", err)
	}
	defer ln.Close()
	go func() {
		for {
			c, err := ln.Accept()
			if err != nil {
				return
			}
			go serveHelloAndPongs(c)
		}
	}()
	rapid.Check(t, func(rt *rapid.T) {
		users := rapid.IntRange(2, 6).Draw(rt, "users")
		dialer := &net.Dialer{}
		if rapid.Bool().Draw(rt, "dialer-with-timeout") {
			dialer.Timeout = 5 * time.Second
		}
		p, err := chpool.New(context.Background(), chpool.Options{
			ClientOptions: ch.Options{Address: ln.Addr().String(), TLS: &tls.Config{RootCAs: pool, ServerName: "localhost"}, Dialer: dialer, Logger: zap.NewNop(),
				DialTimeout: time.Duration(rapid.IntRange(1, 5).Draw(rt, "dial-timeout-s")) * time.Second},
			MaxConns: int32(users),
		})
		if err != nil {
			rt.Fatalf("chpool.New: %v", err)
		}
		var wg sync.WaitGroup
		errs := make([]error, users)
		for u := 0; u < users; u++ {
			wg.Add(1)
			go func(u int) {
				defer wg.Done()
				ctx, cancel := context.WithTimeout(context.Background(), 20*time.Second)
				defer cancel()
				errs[u] = p.Ping(ctx)
			}(u)
		}
		wg.Wait()
		p.Close()
		for u, e := range errs {
			if e != nil {
				rt.Fatalf("user %d: Ping over TLS failed: %v", u, e)
			}
		}
		st.Case(stats.Hash("c12tls", users, dialer.Timeout, rapid.Uint64().Draw(rt, "salt")), true, func() any {
			return map[string]any{"kind": "tls-cold-pool", "users": users}
		})
	})
}

// serveHelloAndPongs: a minimal server on a real connection - answers the client hello (and
// addendum) with a server hello, then every Ping with a Pong.
func serveHelloAndPongs(c net.Conn) {
	defer c.Close()
	cs := &ref.ClientStream{ServerRev: 54460}
	buf := make([]byte, 4096)
	helloSent, pongs := false, 0
	for {
		_ = c.SetReadDeadline(time.Now().Add(30 * time.Second))
		n, err := c.Read(buf)
		if n > 0 {
			cs.Feed(buf[:n])
			if !helloSent && cs.Count(ref.PHello) > 0 {
				e := &ref.Enc{NoMap: true}
				ref.EncodeServerHello(e, ref.ServerHello{Name: "SimHouse", Major: 23, Minor: 8, Revision: 54460, DisplayName: "tls", Timezone: "UTC"}, int(cs.Packets[0].Hello.Revision))
				if _, werr := c.Write(e.B); werr != nil {
					return
				}
				helloSent = true
			}
			for pongs < cs.Count(ref.PPing) {
				if _, werr := c.Write([]byte{ref.ServerPongCode}); werr != nil {
					return
				}
				pongs++
			}
		}
		if err != nil {
			return
		}
	}
}

func selfSignedCert(t *testing.T) (tls.Certificate, *x509.CertPool) {
	key, err := ecdsa.GenerateKey(elliptic.P256(), crand.Reader)
	if err != nil {
		t.Fatal(err)
	}
	tmpl := &x509.Certificate{SerialNumber: big.NewInt(1), Subject: pkix.Name{CommonName: "localhost"}, DNSNames: []string{"localhost"},
		NotBefore: time.Now().Add(-time.Hour), NotAfter: time.Now().Add(24 * time.Hour), KeyUsage: x509.KeyUsageDigitalSignature | x509.KeyUsageCertSign,
		ExtKeyUsage: []x509.ExtKeyUsage{x509.ExtKeyUsageServerAuth}, IsCA: true, BasicConstraintsValid: true, IPAddresses: []net.IP{net.ParseIP("127.0.0.1")}}
	der, err := x509.CreateCertificate(crand.Reader, tmpl, tmpl, &key.PublicKey, key)
	if err != nil {
		t.Fatal(err)
	}
	leaf, _ := x509.ParseCertificate(der)
	pool := x509.NewCertPool()
	pool.AddCert(leaf)
	return tls.Certificate{Certificate: [][]byte{der}, PrivateKey: key, Leaf: leaf}, pool
}

// TestC10TLSDialCancellation (real loopback, real clock): the peer accepts the TCP connection and
// then never speaks - the TLS handshake that Dial runs for Options.TLS stalls. A cancellation or a
// deadline in that window ends Dial with the context's error and closes the connection (the peer
// sees the end of the stream). Bounds are generous (20 s for a 150 ms cancellation): only a Dial
// that ignores its context is caught.
func TestC10TLSDialCancellation(t *testing.T) {
	st := stats.G()
	_, roots := selfSignedCert(t)
	ln, err := net.Listen("tcp", "127.0.0.1:0")
	if err != nil {
		t.Skipf("no loopback listener: %v", err)
	}
	defer ln.Close()
	type peer struct {
		closedAt chan time.Time
	}
	peers := make(chan *peer, 64)
	go func() {
		for {
			c, err := ln.Accept()
			if err != nil {
				return
			}
			p := &peer{closedAt: make(chan time.Time, 1)}
			peers <- p
			go func() {
				defer c.Close()
				buf := make([]byte, 4096)
				for {
					_ = c.SetReadDeadline(time.Now().Add(60 * time.Second))
					if _, err := c.Read(buf); err != nil {
						p.closedAt <- time.Now()
						return
					}
				}
			}()
		}
	}()
	for i, kind := range []string{"cancel", "deadline", "cancel", "deadline", "handshake-timeout"} {
		ctx, cancel := context.WithCancel(context.Background())
		opt := ch.Options{Address: ln.Addr().String(), TLS: &tls.Config{RootCAs: roots, ServerName: "localhost"}, Logger: zap.NewNop(), DialTimeout: 30 * time.Second}
		var want error = context.Canceled
		switch kind {
		case "cancel":
			go func() { time.Sleep(150 * time.Millisecond); cancel() }()
		case "deadline":
			var c2 context.CancelFunc
			ctx, c2 = context.WithTimeout(ctx, 150*time.Millisecond)
			defer c2()
			want = context.DeadlineExceeded
		case "handshake-timeout":
			// no caller deadline at all: the library's own handshake timeout bounds the stalled connection
			opt.HandshakeTimeout = 300 * time.Millisecond
			opt.DialTimeout = 300 * time.Millisecond
			want = nil
		}
		start := time.Now()
		type res struct {
			c   *ch.Client
			err error
		}
		done := make(chan res, 1)
		go func() { c, err := ch.Dial(ctx, opt); done <- res{c, err} }()
		var r res
		select {
		case r = <-done:
		case <-time.After(20 * time.Second):
			cancel()
			p := st.Violate("tls-dial-ignores-context", fmt.Sprintf("case %d (%s): Dial over TLS to a peer that never answers did not return within 20 s", i, kind), []byte(kind))
			t.Fatalf("case %d (%s): Dial over TLS to a silent peer did not return within 20 s although its context ended after 150 ms (replay %s)", i, kind, p)
		}
		cancel()
		if r.err == nil || r.c != nil {
			t.Fatalf("case %d (%s): Dial to a peer that never completes the TLS handshake returned client=%v err=%v", i, kind, r.c != nil, r.err)
		}
		if want != nil && !errors.Is(r.err, want) {
			t.Fatalf("case %d (%s): Dial error %q does not match %v", i, kind, r.err, want)
		}
		select {
		case p := <-peers:
			select {
			case <-p.closedAt:
			case <-time.After(20 * time.Second):
				t.Fatalf("case %d (%s): Dial returned %v after %v, but the connection it opened is still open 20 s later", i, kind, r.err, time.Since(start))
			}
		case <-time.After(20 * time.Second):
			t.Fatalf("case %d (%s): the listener never saw the connection", i, kind)
		}
		st.Case(stats.Hash("c10tls", kind, i), true, func() any {
			return map[string]any{"kind": "tls-dial-cancellation", "how": kind, "returned_after": time.Since(start).String(), "error": fmt.Sprint(r.err)}
		})
	}
}
