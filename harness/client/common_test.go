package client

import (
	"context"
	"encoding/binary"
	"fmt"
	"os"
	"runtime"
	"strings"
	"sync/atomic"
	"testing"
	"time"
	_ "time/tzdata" // zone-typed columns must not depend on the host's zoneinfo

	"github.com/ClickHouse/ch-go"
	"github.com/ClickHouse/ch-go/proto"
	"go.uber.org/zap"
	"pgregory.net/rapid"

	"verif/harness/gen"
	"verif/harness/ref"
	"verif/harness/simnet"
	"verif/harness/stats"
)

func TestMain(m *testing.M) {
	// A client that spins on an expired read deadline never lets the virtual clock advance, so
	// no bound expressed in virtual time can catch it: the connection detects the spin, breaks
	// it, and it is recorded as a violation of whichever property is being checked.
	simnet.OnLivelock = func(msg string) {
		stats.G().Violate("client-spins-on-expired-read-deadline", "the client does not return: "+msg, []byte(msg))
	}
	stats.Main(m)
}

// Revisions of the supported window: both neighbours of every threshold in
// [54429, 54480], plus a server far above.
var windowRevs = []int{54429, 54440, 54441, 54442, 54447, 54448, 54449, 54450, 54451, 54452, 54453, 54454, 54457, 54458, 54459, 54460}
var serverRevs = append(append([]int{}, windowRevs...), 54461, 54475, 60000)

type compMode struct {
	Name   string
	Opt    ch.Compression
	Level  ch.CompressionLevel
	Method byte // wire method byte expected / used by the server (0 = disabled)
}

var compModes = []compMode{
	{"Disabled", ch.CompressionDisabled, 0, 0},
	{"None", ch.CompressionNone, 0, ref.MethodNone},
	{"LZ4", ch.CompressionLZ4, 0, ref.MethodLZ4},
	{"ZSTD", ch.CompressionZSTD, 0, ref.MethodZSTD},
	{"LZ4HC0", ch.CompressionLZ4HC, 0, ref.MethodLZ4},
	{"LZ4HC1", ch.CompressionLZ4HC, 1, ref.MethodLZ4},
	{"LZ4HC9", ch.CompressionLZ4HC, 9, ref.MethodLZ4},
	{"LZ4HC12", ch.CompressionLZ4HC, 12, ref.MethodLZ4},
	{"LZ4HC99", ch.CompressionLZ4HC, 99, ref.MethodLZ4},
}

func drawComp(rt *rapid.T) compMode {
	return compModes[rapid.IntRange(0, len(compModes)-1).Draw(rt, "compression")]
}

// ---- server items --------------------------------------------------------------

type profEvent struct {
	Host   string
	Time   uint32
	Thread uint64
	Type   int8
	Name   string
	Value  uint64
}

type logRow struct {
	Time     uint32
	Micro    uint32
	Host     string
	QueryID  string
	Thread   uint64
	Priority int8
	Source   string
	Text     string
}

// Item is one server packet of a script.
type Item struct {
	Kind     string // data totals progress profile profileevents log tablecolumns exception eos pong raw
	Block    *ref.Block
	Progress ref.Progress
	Profile  ref.Profile
	Events   []profEvent
	Signed   bool // profile events value column Int64 instead of UInt64
	Logs     []logRow
	TC       ref.TableColumns
	Exc      []ref.Exception
	Raw      []byte
	Zone     string // log / profileevents: zone of the time column's type ("" = plain DateTime)
}

func le(w int, v uint64) []byte {
	b := make([]byte, 8)
	binary.LittleEndian.PutUint64(b, v)
	return b[:w]
}

// timeType: the type a server announces for the time column of log / profile-event blocks
// (with the server's zone when Zone is set).
func (it Item) timeType() string {
	if it.Zone != "" {
		return "DateTime('" + it.Zone + "')"
	}
	return "DateTime"
}

func (it Item) block() *ref.Block {
	switch it.Kind {
	case "profileevents":
		vt := "UInt64"
		if it.Signed {
			vt = "Int64"
		}
		cols := []ref.Column{
			{Name: "host_name", T: ref.String("String")}, {Name: "current_time", T: ref.Fixed(it.timeType(), 4)},
			{Name: "thread_id", T: ref.Fixed("UInt64", 8)}, {Name: "type", T: ref.Fixed("Int8", 1)},
			{Name: "name", T: ref.String("String")}, {Name: "value", T: ref.Fixed(vt, 8)},
		}
		for _, e := range it.Events {
			cols[0].Rows = append(cols[0].Rows, []byte(e.Host))
			cols[1].Rows = append(cols[1].Rows, le(4, uint64(e.Time)))
			cols[2].Rows = append(cols[2].Rows, le(8, e.Thread))
			cols[3].Rows = append(cols[3].Rows, le(1, uint64(e.Type)))
			cols[4].Rows = append(cols[4].Rows, []byte(e.Name))
			cols[5].Rows = append(cols[5].Rows, le(8, e.Value))
		}
		return &ref.Block{Info: ref.BlockInfo{BucketNum: -1}, Columns: cols}
	case "log":
		cols := []ref.Column{
			{Name: "event_time", T: ref.Fixed(it.timeType(), 4)}, {Name: "event_time_microseconds", T: ref.Fixed("UInt32", 4)},
			{Name: "host_name", T: ref.String("String")}, {Name: "query_id", T: ref.String("String")},
			{Name: "thread_id", T: ref.Fixed("UInt64", 8)}, {Name: "priority", T: ref.Fixed("Int8", 1)},
			{Name: "source", T: ref.String("String")}, {Name: "text", T: ref.String("String")},
		}
		for _, l := range it.Logs {
			cols[0].Rows = append(cols[0].Rows, le(4, uint64(l.Time)))
			cols[1].Rows = append(cols[1].Rows, le(4, uint64(l.Micro)))
			cols[2].Rows = append(cols[2].Rows, []byte(l.Host))
			cols[3].Rows = append(cols[3].Rows, []byte(l.QueryID))
			cols[4].Rows = append(cols[4].Rows, le(8, l.Thread))
			cols[5].Rows = append(cols[5].Rows, le(1, uint64(l.Priority)))
			cols[6].Rows = append(cols[6].Rows, []byte(l.Source))
			cols[7].Rows = append(cols[7].Rows, []byte(l.Text))
		}
		return &ref.Block{Info: ref.BlockInfo{BucketNum: -1}, Columns: cols}
	}
	return it.Block
}

// Encode renders the packet at the negotiated revision; method is the frame
// method for compressible packets (0 = plain).
func (it Item) Encode(rev int, method byte) []byte {
	e := &ref.Enc{NoMap: true}
	switch it.Kind {
	case "data":
		_ = ref.EncodeDataPacket(e, ref.ServerDataCode, "", rev, it.Block, method)
	case "totals":
		_ = ref.EncodeDataPacket(e, ref.ServerTotalsCode, "", rev, it.Block, method)
	case "profileevents":
		_ = ref.EncodeDataPacket(e, ref.ServerProfileEventsCode, "", rev, it.block(), 0)
	case "log":
		_ = ref.EncodeDataPacket(e, ref.ServerLogCode, "", rev, it.block(), 0)
	case "progress":
		e.UVarint(ref.ServerProgressCode, ref.RCount)
		ref.EncodeProgress(e, it.Progress, rev)
	case "profile":
		e.UVarint(ref.ServerProfileCode, ref.RCount)
		ref.EncodeProfile(e, it.Profile)
	case "tablecolumns":
		e.UVarint(ref.ServerTableColumnsCode, ref.RCount)
		ref.EncodeTableColumns(e, it.TC)
	case "exception":
		ref.EncodeExceptionChain(e, it.Exc)
	case "eos":
		e.UVarint(ref.ServerEndOfStreamCode, ref.RCount)
	case "pong":
		e.UVarint(ref.ServerPongCode, ref.RCount)
	case "raw":
		e.Raw(it.Raw, ref.RPayload)
	}
	return e.B
}

func (it Item) String() string {
	switch it.Kind {
	case "data", "totals":
		var ts []string
		for _, c := range it.Block.Columns {
			ts = append(ts, c.T.Name)
		}
		return fmt.Sprintf("%s(%d rows x [%s])", it.Kind, it.Block.Rows(), strings.Join(ts, ", "))
	case "exception":
		return fmt.Sprintf("exception(depth %d)", len(it.Exc))
	case "profileevents":
		return fmt.Sprintf("profileevents(%d)", len(it.Events))
	case "log":
		return fmt.Sprintf("log(%d)", len(it.Logs))
	}
	return it.Kind
}

// ---- environment --------------------------------------------------------------

type env struct {
	earlyPong bool // C08: a Pong was sent ahead, behind the last packet of the response
	conn      *simnet.Conn
	srv       *simnet.Server
	serverRev int
	hello     ref.ServerHello
	client    *ch.Client
	// warm: an earlier exchange run on the fresh client before the case proper ("" = none):
	// select | exception | insert | ping. The scripted server forgets it afterwards.
	warm     string
	warmDone atomic.Bool
}

var warmKinds = []string{"", "", "", "select", "exception", "insert", "ping"}

// readTimeouts counts read-deadline expiries observed by the connection.
func (e *env) readTimeouts() int { return e.conn.ReadTimeouts() }

func newEnv(serverRev int) *env {
	c := simnet.NewConn()
	e := &env{conn: c, serverRev: serverRev, srv: simnet.NewServer(c, serverRev)}
	e.hello = ref.ServerHello{Name: "SimHouse", Major: 23, Minor: 8, Revision: int64(serverRev), Timezone: "Europe/Berlin", DisplayName: "sim-1", Patch: 7}
	return e
}

func (e *env) helloStep() simnet.Step {
	return simnet.Step{Name: "hello", When: simnet.AfterHello, Bytes: func(cs *ref.ClientStream) []byte {
		enc := &ref.Enc{NoMap: true}
		ref.EncodeServerHello(enc, e.hello, int(cs.Packets[0].Hello.Revision))
		return enc.B
	}}
}

// itemStep wraps an item; compressed iff the client's last query asked for it.
func itemStep(it Item, when func(*ref.ClientStream) bool, method byte, segs []int) simnet.Step {
	return simnet.Step{Name: it.Kind, When: when, Segs: segs, Bytes: func(cs *ref.ClientStream) []byte {
		m := byte(0)
		if q := cs.LastQuery(); q != nil && q.Compression == 1 {
			m = method
		}
		return it.Encode(cs.Negotiated(), m)
	}}
}

// otelOn makes every client use OpenTelemetryInstrumentation (set by the race scenarios).
var otelOn bool

func baseOptions(clientRev int, comp compMode) ch.Options {
	return ch.Options{
		ProtocolVersion:              clientRev,
		Compression:                  comp.Opt,
		CompressionLevel:             comp.Level,
		Logger:                       zap.NewNop(),
		OpenTelemetryInstrumentation: otelOn,
	}
}

// connect performs the handshake over the simulated connection.
func (e *env) connect(ctx context.Context, opt ch.Options) (*ch.Client, error) {
	steps := []simnet.Step{e.helloStep()}
	method := byte(ref.MethodLZ4)
	warmCol := ref.Column{Name: "w", T: ref.Fixed("UInt8", 1), Rows: []ref.Val{[]byte{7}}}
	switch e.warm {
	case "select":
		steps = append(steps, itemStep(Item{Kind: "data", Block: &ref.Block{Columns: []ref.Column{warmCol}}}, simnet.AfterQuery(1), method, nil), itemStep(Item{Kind: "eos"}, nil, 0, nil))
	case "exception":
		steps = append(steps, itemStep(Item{Kind: "exception", Exc: []ref.Exception{{Code: 60, Name: "DB::Exception", Message: "warm-up"}}}, simnet.AfterQuery(1), 0, nil))
	case "insert":
		steps = append(steps, itemStep(Item{Kind: "data", Block: &ref.Block{Columns: []ref.Column{{Name: "w", T: warmCol.T}}}}, simnet.AfterQuery(1), method, nil), itemStep(Item{Kind: "eos"}, simnet.AfterInputEnd, 0, nil))
	case "ping":
		steps = append(steps, simnet.Step{Name: "pong", When: func(cs *ref.ClientStream) bool { return cs.Count(ref.PPing) > 0 }, Bytes: func(*ref.ClientStream) []byte { return []byte{ref.ServerPongCode} }})
	}
	if e.warm != "" {
		// nothing of the case proper is emitted before the warm-up exchange is over and forgotten
		steps = append(steps, simnet.Step{Name: "barrier", When: func(*ref.ClientStream) bool { return e.warmDone.Load() }})
	}
	e.srv.Steps = append(steps, e.srv.Steps...)
	e.srv.Start()
	client, err := ch.Connect(ctx, e.conn, opt)
	if err != nil || e.warm == "" {
		return client, err
	}
	var werr error
	switch e.warm {
	case "select":
		var res proto.Results
		werr = client.Do(ctx, ch.Query{Body: "SELECT warm", Result: res.Auto()})
	case "exception":
		if werr = client.Do(ctx, ch.Query{Body: "SELECT * FROM nowhere"}); ch.IsErr(werr, 60) {
			werr = nil
		}
	case "insert":
		col := proto.ColUInt8{1, 2, 3}
		werr = client.Do(ctx, ch.Query{Body: "INSERT INTO w VALUES", Input: proto.Input{{Name: "w", Data: &col}}})
	case "ping":
		werr = client.Ping(ctx)
	}
	if werr != nil || client.IsClosed() {
		return nil, fmt.Errorf("harness: warm-up %s exchange failed: %v (closed=%v)", e.warm, werr, client.IsClosed())
	}
	e.srv.WithStream(func(cs *ref.ClientStream) { cs.ForgetQueries() })
	e.warmDone.Store(true)
	return client, nil
}

// leakedGoroutines returns stacks of goroutines that still run library code.
func leakedGoroutines() []string {
	buf := make([]byte, 1<<20)
	n := runtime.Stack(buf, true)
	var out []string
	for _, g := range strings.Split(string(buf[:n]), "\n\n") {
		if !strings.Contains(g, "github.com/ClickHouse/ch-go") {
			continue
		}
		if strings.Contains(g, "leakedGoroutines") {
			continue
		}
		// the calling test goroutine may have library frames only while inside a call
		out = append(out, g)
	}
	return out
}

func drawBlockFor(rt *rapid.T, maxCols, maxRows int) ([]*gen.Kind, *ref.Block) {
	n := rapid.IntRange(1, maxCols).Draw(rt, "ncols")
	rows := rapid.IntRange(0, maxRows).Draw(rt, "rows")
	b := &ref.Block{Info: ref.BlockInfo{BucketNum: -1}}
	var kinds []*gen.Kind
	for i := 0; i < n; i++ {
		k := gen.DrawKind(rt, "kind")
		kinds = append(kinds, k)
		b.Columns = append(b.Columns, ref.Column{Name: fmt.Sprintf("c%d", i), T: k.T, Rows: gen.DrawRows(rt, k, rows)})
	}
	return kinds, b
}

func replayPath() string { return os.Getenv("VERIF_REPLAY") }

var _ = proto.Version
var _ = time.Second

// doBounded runs client.Do and fails the case if it does not return within
// bound of virtual time (then force-closes the connection so that the bubble
// can end).
func doBounded(rt *rapid.T, e *env, client *ch.Client, ctx context.Context, q ch.Query, bound time.Duration, what string) error {
	var err error
	done := make(chan struct{})
	go func() {
		defer close(done)
		err = client.Do(ctx, q)
	}()
	select {
	case <-done:
		if e.conn.Livelocked() {
			rt.Fatalf("%s: Do spun on an expired read deadline (it would never have returned); broken up by the connection, it returned %v", what, err)
		}
		return err
	case <-time.After(bound):
		var desc string
		e.srv.WithStream(func(cs *ref.ClientStream) {
			var kinds []string
			for _, p := range cs.Packets {
				kinds = append(kinds, p.Kind.String())
			}
			desc = fmt.Sprintf("client packets so far [%s], parse error %v, %d unparsed bytes; server emitted %v, %d steps left; %d bytes unread by client",
				strings.Join(kinds, " "), cs.Err, cs.Pending(), e.srv.Emitted, len(e.srv.Steps)-len(e.srv.Emitted), e.conn.Unread())
		})
		e.conn.ForceClose()
		<-done
		rt.Fatalf("%s: Do did not return within %v of virtual time (%s); after forced close it returned %v", what, bound, desc, err)
		return err
	}
}

// drawRevs draws (client, server) revisions such that the negotiated revision
// min(client, server) is spread evenly over the window.
func drawRevs(rt *rapid.T) (client, server int) {
	i := rapid.IntRange(0, len(windowRevs)-1).Draw(rt, "negotiated-rev")
	n := windowRevs[i]
	if rapid.Bool().Draw(rt, "client-is-lower") {
		// client announces n, server is at or above it
		j := rapid.IntRange(i, len(serverRevs)-1).Draw(rt, "server-rev")
		return n, serverRevs[j]
	}
	j := rapid.IntRange(i, len(windowRevs)-1).Draw(rt, "client-rev")
	return windowRevs[j], n
}

// srvQueries returns how many Query packets the server has parsed.
func (e *env) srvQueries() int {
	n := 0
	e.srv.WithStream(func(cs *ref.ClientStream) { n = cs.Count(ref.PQuery) })
	return n
}
