package client

// C02 — everything the client writes for a query is a well-formed packet
// sequence, judged by the independent stream parser at the negotiated revision.

import (
	"context"
	"fmt"
	"io"
	"regexp"
	"strings"
	"testing"
	"time"

	"github.com/ClickHouse/ch-go"
	"github.com/ClickHouse/ch-go/proto"
	sdktrace "go.opentelemetry.io/otel/sdk/trace"
	"go.opentelemetry.io/otel/sdk/trace/tracetest"
	"go.opentelemetry.io/otel/trace"
	"pgregory.net/rapid"

	"verif/harness/gen"
	"verif/harness/ref"
	"verif/harness/simnet"
	"verif/harness/stats"
)

var bodyGen = rapid.OneOf(
	rapid.Just(""), rapid.Just("SELECT 1"), rapid.Just("INSERT INTO t VALUES"),
	rapid.Map(rapid.SliceOfN(rapid.Byte(), 1, 40), func(b []byte) string { return string(b) }),
	rapid.Map(rapid.IntRange(200, 5000), func(n int) string { return strings.Repeat("SELECT /*pad*/ ", n/15) }),
	rapid.Map(rapid.SampledFrom([]int{127, 128, 129, 16383, 16384, 131_072, 200_000}), func(n int) string { return strings.Repeat("x", n) }),
)

var shortStr = rapid.OneOf(rapid.Just(""), rapid.StringMatching(`[a-z0-9_-]{1,10}`), rapid.StringMatching(`[a-z0-9_-]{1,10}`),
	rapid.Map(rapid.SliceOfN(rapid.Byte(), 1, 12), func(b []byte) string { return string(b) }),
	// lengths on the boundaries of the uvarint length prefix
	rapid.Map(rapid.SampledFrom([]int{127, 128, 129, 16383, 16384}), func(n int) string { return strings.Repeat("k", n) }))

var settingKeyGen = rapid.StringMatching(`[a-z_]{1,14}`)

func drawChSettings(rt *rapid.T, label string) []ch.Setting {
	n := rapid.IntRange(0, 4).Draw(rt, label+"-n")
	var out []ch.Setting
	for i := 0; i < n; i++ {
		out = append(out, ch.Setting{Key: settingKeyGen.Draw(rt, label+"-key"), Value: shortStr.Draw(rt, label+"-val"), Important: rapid.Bool().Draw(rt, "important")})
	}
	return out
}

type inputCol struct {
	name string
	kind *gen.Kind
	rows []ref.Val
	col  gen.Col
}

func drawInput(rt *rapid.T, label string, maxCols int, minRows int) []inputCol {
	n := rapid.IntRange(1, maxCols).Draw(rt, label+"-ncols")
	rows := rapid.IntRange(minRows, 5).Draw(rt, label+"-rows")
	var out []inputCol
	for i := 0; i < n; i++ {
		k := gen.DrawKind(rt, label+"-kind")
		ic := inputCol{name: fmt.Sprintf("%s%d", label, i), kind: k, rows: gen.DrawRows(rt, k, rows), col: k.New()}
		ic.col.AppendBulk(ic.rows)
		out = append(out, ic)
	}
	return out
}

// makeHuge replaces the first column by a String column whose first row is an incompressible
// value of more than a mebibyte (size thresholds in the write path).
func makeHuge(rt *rapid.T, cols []inputCol) {
	k := gen.ByName["String|X|String"]
	n := max(1, len(cols[0].rows))
	rows := gen.DrawRows(rt, k, n)
	x := rapid.Uint64().Draw(rt, "huge-seed") | 1
	v := make([]byte, rapid.SampledFrom([]int{1 << 20, 1 << 20, 1 << 20, 4 << 10, 16 << 10, 64 << 10, 128 << 10, 512 << 10}).Draw(rt, "huge-size")+rapid.IntRange(-40, 300_000).Draw(rt, "huge-extra"))
	for i := range v {
		x ^= x << 13
		x ^= x >> 7
		x ^= x << 17
		v[i] = byte(x >> 32)
	}
	rows[0] = v
	for i := range cols {
		if len(cols[i].rows) != n { // the block had zero rows: give every column one
			cols[i].rows = gen.DrawRows(rt, cols[i].kind, n)
			cols[i].col = cols[i].kind.New()
			cols[i].col.AppendBulk(cols[i].rows)
		}
	}
	cols[0] = inputCol{name: cols[0].name, kind: k, rows: rows, col: k.New()}
	cols[0].col.AppendBulk(rows)
}

func protoInput(cols []inputCol) proto.Input {
	var in proto.Input
	for _, c := range cols {
		in = append(in, proto.InputColumn{Name: c.name, Data: c.col.Column()})
	}
	return in
}

func modelBlock(cols []inputCol) *ref.Block {
	b := &ref.Block{}
	for _, c := range cols {
		b.Columns = append(b.Columns, ref.Column{Name: c.name, T: c.kind.T, Rows: c.rows})
	}
	return b
}

func headerItem(cols []inputCol) Item {
	b := &ref.Block{}
	for _, c := range cols {
		b.Columns = append(b.Columns, ref.Column{Name: c.name, T: c.kind.T})
	}
	return Item{Kind: "data", Block: b}
}

var uuidRe = regexp.MustCompile(`^[0-9a-f]{8}-[0-9a-f]{4}-4[0-9a-f]{3}-[89ab][0-9a-f]{3}-[0-9a-f]{12}$`)

func TestC02QueryWire(t *testing.T) {
	st := stats.G()
	rapid.Check(t, func(rt *rapid.T) {
		rapid.SyncTest(rt, func(rt *rapid.T) { runC02(rt, st) })
	})
}

// c02BigCompressed steers runC02 to compressed connections and blocks holding a large
// incompressible value (C05's view of the same wire: the frames the client produces).
var c02BigCompressed bool

func runC02(rt *rapid.T, st *stats.Collector) {
	clientRev, serverRev := drawRevs(rt)
	N := min(clientRev, serverRev)
	comp := drawComp(rt)
	if c02BigCompressed {
		comp = compModes[rapid.IntRange(1, len(compModes)-1).Draw(rt, "compressed-mode")]
	}
	e := newEnv(serverRev)
	e.warm = rapid.SampledFrom(warmKinds).Draw(rt, "earlier-exchange")
	defer e.conn.ForceClose()

	opt := baseOptions(clientRev, comp)
	opt.Settings = drawChSettings(rt, "conn-setting")
	opt.QuotaKey = shortStr.Draw(rt, "conn-quota")
	// With instrumentation on and a recording tracer provider the query runs inside a span of
	// its own: that span is the trace context the server is told about.
	var rec *tracetest.SpanRecorder
	if rapid.IntRange(0, 3).Draw(rt, "recording-tracer") == 0 {
		rec = tracetest.NewSpanRecorder()
		opt.OpenTelemetryInstrumentation = true
		opt.TracerProvider = sdktrace.NewTracerProvider(sdktrace.WithSpanProcessor(rec), sdktrace.WithSampler(sdktrace.AlwaysSample()))
	}
	q := ch.Query{
		Body: bodyGen.Draw(rt, "body"), QueryID: rapid.OneOf(rapid.Just(""), shortStr).Draw(rt, "query-id"),
		QuotaKey: shortStr.Draw(rt, "quota"), Secret: shortStr.Draw(rt, "secret"), InitialUser: shortStr.Draw(rt, "initial-user"),
		Settings: drawChSettings(rt, "query-setting"),
	}
	if len(opt.Settings) > 0 && len(q.Settings) > 0 && rapid.IntRange(0, 2).Draw(rt, "same-key-on-both-levels") == 0 {
		// the query overrides a connection-level setting: both entries go out, in that order
		q.Settings[rapid.IntRange(0, len(q.Settings)-1).Draw(rt, "which-query-setting")].Key = opt.Settings[rapid.IntRange(0, len(opt.Settings)-1).Draw(rt, "which-conn-setting")].Key
		st.Label("same-setting-key-on-both-levels")
	}
	if N >= ref.RevParameters {
		np := rapid.IntRange(0, 3).Draw(rt, "params")
		for i := 0; i < np; i++ {
			q.Parameters = append(q.Parameters, proto.Parameter{Key: settingKeyGen.Draw(rt, "pkey"), Value: shortStr.Draw(rt, "pval")})
		}
	}
	var ext, input []inputCol
	huge := rapid.IntRange(0, 39).Draw(rt, "huge-block")
	if c02BigCompressed {
		huge = rapid.IntRange(0, 1).Draw(rt, "huge-block-where")
	}
	if rapid.Bool().Draw(rt, "external-data") {
		ext = drawInput(rt, "ext", 2, 0)
		if huge == 1 {
			makeHuge(rt, ext)
		}
		q.ExternalData = protoInput(ext)
		q.ExternalTable = rapid.SampledFrom([]string{"", "_ext", "tmp table"}).Draw(rt, "ext-table")
	}
	withResult := false
	// Streamed input: the blocks the server must receive, in order (nil = a single static block).
	var rounds [][]inputCol
	streamed := false
	if rapid.Bool().Draw(rt, "input") {
		input = drawInput(rt, "in", 3, 1)
		if huge == 0 {
			makeHuge(rt, input)
		}
		q.Input = protoInput(input)
		if streamed = rapid.IntRange(0, 2).Draw(rt, "streamed-input") == 0; streamed {
			// OnInput refills the same column objects: zero or more rounds returning nil, then
			// io.EOF either with a last batch of rows or with none. Initial rows may be absent.
			withRows := func(n int) []inputCol {
				out := make([]inputCol, len(input))
				for i, c := range input {
					out[i] = c
					out[i].rows = gen.DrawRows(rt, c.kind, n)
				}
				return out
			}
			if rapid.Bool().Draw(rt, "initial-rows") {
				rounds = append(rounds, input)
			} else {
				for _, c := range input {
					c.col.Column().Reset()
				}
			}
			var fills [][]inputCol // what each callback call leaves in the columns; nil = nothing
			for i, n := 0, rapid.IntRange(0, 2).Draw(rt, "input-rounds"); i < n; i++ {
				fills = append(fills, withRows(rapid.IntRange(1, 4).Draw(rt, "round-rows")))
			}
			rounds = append(rounds, fills...)
			if rapid.Bool().Draw(rt, "rows-with-eof") {
				fills = append(fills, withRows(rapid.IntRange(1, 4).Draw(rt, "tail-rows")))
				rounds = append(rounds, fills[len(fills)-1])
			} else {
				fills = append(fills, nil)
			}
			call := 0
			q.OnInput = func(ctx context.Context) error {
				f := fills[min(call, len(fills)-1)]
				call++
				for i, c := range input {
					c.col.Column().Reset()
					if f != nil {
						c.col.AppendBulk(f[i].rows)
					}
				}
				if call >= len(fills) {
					return io.EOF
				}
				return nil
			}
		}
		withResult = rapid.Bool().Draw(rt, "result-bound")
		if withResult {
			q.Result = proto.Results{}
			q.OnResult = func(ctx context.Context, b proto.Block) error { return nil }
		}
	}
	ctx := context.Background()
	span := drawSpan(rt)
	if span.IsValid() {
		ctx = trace.ContextWithSpanContext(ctx, span)
	}

	// Sane server: hello; header block for inserts; end of stream.
	if len(input) > 0 {
		e.srv.Steps = append(e.srv.Steps, itemStep(headerItem(input), simnet.AfterQuery(1), comp.Method, nil))
		e.srv.Steps = append(e.srv.Steps, itemStep(Item{Kind: "eos"}, simnet.AfterInputEnd, 0, nil))
	} else {
		e.srv.Steps = append(e.srv.Steps, itemStep(Item{Kind: "eos"}, simnet.AfterQuery(1), 0, nil))
	}
	client, err := e.connect(ctx, opt)
	if err != nil {
		rt.Fatalf("connect: %v", err)
	}
	defer client.Close()
	if err := doBounded(rt, e, client, ctx, q, time.Minute, "sane server"); err != nil {
		rt.Fatalf("Do: %v (query %+v)", err, q.Body)
	}

	e.srv.WithStream(func(cs *ref.ClientStream) {
		if cs.Err != nil {
			rt.Fatalf("client bytes are not a well-formed packet sequence at negotiated revision %d (%s): %v", N, comp.Name, cs.Err)
		}
		if cs.Pending() != 0 {
			rt.Fatalf("%d bytes written beyond the last complete packet", cs.Pending())
		}
		var kinds []string
		for _, p := range cs.Packets {
			kinds = append(kinds, p.Kind.String())
		}
		want := []string{"Hello"}
		if N >= ref.RevAddendum {
			want = append(want, "Addendum")
		}
		want = append(want, "Query")
		if len(ext) > 0 {
			want = append(want, "Data")
		}
		want = append(want, "Data") // end of external data
		if len(input) > 0 && !streamed {
			want = append(want, "Data", "Data") // input block, end of input
		}
		if streamed {
			for range rounds {
				want = append(want, "Data")
			}
			want = append(want, "Data") // end of input, also when no block at all was sent
		}
		if strings.Join(kinds, " ") != strings.Join(want, " ") {
			rt.Fatalf("packet sequence [%s], want [%s]", strings.Join(kinds, " "), strings.Join(want, " "))
		}
		pq := cs.LastQuery()
		// Query packet fields.
		if q.QueryID != "" && pq.ID != q.QueryID {
			rt.Fatalf("query id %q want %q", pq.ID, q.QueryID)
		}
		if q.QueryID == "" && !uuidRe.MatchString(pq.ID) {
			rt.Fatalf("generated query id %q is not a UUIDv4", pq.ID)
		}
		if pq.Body != q.Body {
			rt.Fatalf("query body differs (%d vs %d bytes)", len(pq.Body), len(q.Body))
		}
		var wantSettings []ref.Setting
		for _, s := range append(append([]ch.Setting{}, opt.Settings...), q.Settings...) {
			f := uint64(0)
			if s.Important {
				f = 1
			}
			wantSettings = append(wantSettings, ref.Setting{Key: s.Key, Value: s.Value, Flags: f})
		}
		if fmt.Sprint(pq.Settings) != fmt.Sprint(wantSettings) {
			rt.Fatalf("settings on the wire %v, want connection-level then query-level %v", pq.Settings, wantSettings)
		}
		var wantParams []ref.Setting
		for _, p := range q.Parameters {
			wantParams = append(wantParams, ref.Setting{Key: p.Key, Value: p.Value, Flags: 2})
		}
		if fmt.Sprint(pq.Params) != fmt.Sprint(wantParams) {
			rt.Fatalf("parameters on the wire %v want %v", pq.Params, wantParams)
		}
		if N >= ref.RevInterServerSecret && pq.Secret != q.Secret {
			rt.Fatalf("secret %q want %q", pq.Secret, q.Secret)
		}
		if pq.Stage != 2 {
			rt.Fatalf("stage %d want 2 (complete)", pq.Stage)
		}
		wantComp := uint64(0)
		if comp.Method != 0 {
			wantComp = 1
		}
		if pq.Compression != wantComp {
			rt.Fatalf("compression flag %d want %d for %s", pq.Compression, wantComp, comp.Name)
		}
		ci := pq.Info
		if ci.QueryKind != 1 || ci.Interface != 1 {
			rt.Fatalf("client info kind/interface %d/%d want initial/TCP", ci.QueryKind, ci.Interface)
		}
		if ci.InitialQueryID != pq.ID || ci.InitialUser != q.InitialUser || ci.InitialAddress != string(e.conn.Local) {
			rt.Fatalf("client info initial fields %q %q %q, want %q %q %q", ci.InitialQueryID, ci.InitialUser, ci.InitialAddress, pq.ID, q.InitialUser, e.conn.Local)
		}
		if int(ci.Revision) != N {
			rt.Fatalf("client info protocol version %d want negotiated %d", ci.Revision, N)
		}
		if !strings.HasPrefix(ci.ClientName, "clickhouse/ch-go") {
			rt.Fatalf("client name %q", ci.ClientName)
		}
		if ci.QuotaKey != q.QuotaKey {
			rt.Fatalf("client info quota key %q want %q", ci.QuotaKey, q.QuotaKey)
		}
		if N >= ref.RevOpenTelemetry {
			ws := refSpan(span)
			if rec != nil {
				var do sdktrace.ReadOnlySpan
				for _, s := range rec.Ended() {
					if s.Name() == "Do" {
						do = s
					}
				}
				if do == nil {
					rt.Fatalf("instrumentation is on, but no span named Do was recorded for the query")
				}
				ws = refSpan(do.SpanContext())
				if span.IsValid() && (do.SpanContext().TraceID() != span.TraceID() || do.Parent().SpanID() != span.SpanID()) {
					rt.Fatalf("the query's span %+v is not a child of the caller's %+v", do.SpanContext(), span)
				}
			}
			if ci.Span != ws {
				rt.Fatalf("trace context on the wire %+v want %+v (recording tracer: %v)", ci.Span, ws, rec != nil)
			}
		}
		// Data packets.
		data := cs.DataSinceQuery()
		idx := 0
		checkBlock := func(p ref.Packet, table string, model *ref.Block, what string) {
			if p.Table != table {
				rt.Fatalf("%s: table name %q want %q", what, p.Table, table)
			}
			if p.Compressed != (comp.Method != 0) {
				rt.Fatalf("%s: compressed=%v with %s", what, p.Compressed, comp.Name)
			}
			if p.Compressed && p.Method != comp.Method {
				rt.Fatalf("%s: frame method %#x want %#x for %s", what, p.Method, comp.Method, comp.Name)
			}
			if model == nil {
				if len(p.Block.Columns) != 0 || p.Block.Rows() != 0 {
					rt.Fatalf("%s: want an empty block, got %d columns x %d rows", what, len(p.Block.Columns), p.Block.Rows())
				}
				return
			}
			if err := ref.BlockEqual(model, p.Block); err != nil {
				rt.Fatalf("%s differs from what the caller supplied: %v", what, err)
			}
		}
		if len(ext) > 0 {
			table := q.ExternalTable
			if table == "" {
				table = "_data"
			}
			checkBlock(data[idx], table, modelBlock(ext), "external data block")
			idx++
		}
		checkBlock(data[idx], "", nil, "end of external data")
		idx++
		if len(input) > 0 && !streamed {
			checkBlock(data[idx], "", modelBlock(input), "input block")
			idx++
			checkBlock(data[idx], "", nil, "end of input")
		}
		if streamed {
			for i, r := range rounds {
				checkBlock(data[idx], "", modelBlock(r), fmt.Sprintf("streamed input block %d of %d", i+1, len(rounds)))
				idx++
			}
			checkBlock(data[idx], "", nil, "end of input")
		}
	})
	nt := len(input) > 0 || len(ext) > 0 || (len(opt.Settings)+len(q.Settings) >= 2 && len(q.Parameters) > 0)
	st.Case(stats.Hash("c02", string(e.conn.WrittenBytes())), nt, func() any {
		return map[string]any{"kind": "query", "client_rev": clientRev, "server_rev": serverRev, "compression": comp.Name, "body_len": len(q.Body),
			"settings": len(opt.Settings) + len(q.Settings), "params": len(q.Parameters), "external": typeList(ext), "input": typeList(input), "streamed_input_blocks": len(rounds), "result_bound": withResult, "span": span.IsValid()}
	})
	st.Label("comp:" + comp.Name)
	st.Label(fmt.Sprintf("N:%d", N))
	st.Label("earlier-exchange:" + e.warm)
	if streamed {
		st.Label(fmt.Sprintf("streamed-input-blocks:%d", len(rounds)))
	}
	if (huge == 0 && len(input) > 0) || (huge == 1 && len(ext) > 0) {
		st.Label("large-block")
	}
}

func typeList(cols []inputCol) []string {
	var out []string
	for _, c := range cols {
		out = append(out, c.kind.T.Name)
	}
	return out
}

var traceStates = []string{"", "k=v", "a=1,b=2"}

func drawSpan(rt *rapid.T) trace.SpanContext {
	if !rapid.Bool().Draw(rt, "span") {
		return trace.SpanContext{}
	}
	var cfg trace.SpanContextConfig
	copy(cfg.TraceID[:], rapid.SliceOfN(rapid.Byte(), 16, 16).Draw(rt, "traceid"))
	copy(cfg.SpanID[:], rapid.SliceOfN(rapid.Byte(), 8, 8).Draw(rt, "spanid"))
	cfg.TraceID[3] |= 1
	cfg.SpanID[3] |= 1
	ts, _ := trace.ParseTraceState(rapid.SampledFrom(traceStates).Draw(rt, "tracestate"))
	cfg.TraceState = ts
	cfg.TraceFlags = trace.TraceFlags(rapid.Byte().Draw(rt, "traceflags"))
	return trace.NewSpanContext(cfg)
}

func refSpan(s trace.SpanContext) ref.Span {
	if !s.IsValid() {
		return ref.Span{}
	}
	return ref.Span{Valid: true, TraceID: s.TraceID(), SpanID: s.SpanID(), State: s.TraceState().String(), Flags: byte(s.TraceFlags())}
}
