package client

// C10 — cancellation ends the query promptly, sends Cancel (best effort),
// closes the connection, leaks no goroutine. The cancellation instant is any
// scheduler step of a fault-free exchange.

import (
	"context"
	"errors"
	"fmt"
	"strings"
	"testing"
	"testing/synctest"
	"time"

	"github.com/ClickHouse/ch-go"
	"github.com/ClickHouse/ch-go/proto"
	"pgregory.net/rapid"

	"verif/harness/ref"
	"verif/harness/simnet"
	"verif/harness/stats"
)

func TestC10Cancellation(t *testing.T) {
	st := stats.G()
	rapid.Check(t, func(rt *rapid.T) {
		rapid.SyncTest(rt, func(rt *rapid.T) { runC10(rt, st) })
	})
}

func runC10(rt *rapid.T, st *stats.Collector) {
	sc := scenario{
		name:      rapid.SampledFrom(scenarioNames).Draw(rt, "scenario"),
		comp:      compModes[rapid.SampledFrom([]int{0, 0, 2, 3}).Draw(rt, "compression")],
		telemetry: rapid.Bool().Draw(rt, "telemetry"),
		rounds:    rapid.IntRange(1, 3).Draw(rt, "rounds"),
		readTO:    rapid.SampledFrom([]time.Duration{0, 0, 50 * time.Millisecond, 50 * time.Millisecond, ch.NoTimeout}).Draw(rt, "read-timeout"),
		prior:     rapid.SampledFrom([]int{0, 0, 0, 1, 2}).Draw(rt, "earlier-exception-queries"),
	}
	drawGatedRevs(rt, &sc)
	effRead := sc.readTO
	if effRead == 0 {
		effRead = ch.DefaultReadTimeout
	}
	kind := rapid.SampledFrom([]string{"cancel", "deadline", "cancel-under-far-deadline"}).Draw(rt, "cancel-kind")
	if sc.readTO == ch.NoTimeout {
		// Without a read timeout only the context's deadline bounds a read (the statement's
		// "read timeout" is then that deadline): the deadline kind is the one that applies.
		kind, effRead = "deadline", 0
		st.Label("read-timeout:none")
	}
	cancelStep := rapid.IntRange(0, 80).Draw(rt, "cancel-at-step")
	g := newGatedRun(rt, sc, saneSteps)
	defer g.cleanup()
	// One run in four: after the cancellation every user callback fails with its own error
	// (the call must still report the context's error).
	g.failAfterCancel = rapid.IntRange(0, 3).Draw(rt, "callbacks-fail-after-cancel") == 0
	base, cancel := context.WithCancel(context.Background())
	g.cancel = cancel
	ctx := base
	var dlCancel context.CancelFunc
	deadline := time.Now().Add(time.Duration(rapid.IntRange(1, 5000).Draw(rt, "deadline-ms")) * time.Millisecond)
	if kind == "deadline" {
		ctx, dlCancel = context.WithDeadline(base, deadline)
		defer dlCancel()
	}
	if kind == "cancel-under-far-deadline" {
		// explicit cancellation of a context that also carries a deadline far in the future
		ctx, dlCancel = context.WithTimeout(base, time.Hour)
		defer dlCancel()
	}
	steps := 0
	var tc time.Time
	remainingAtCancel := -1
	extra := func() []schedAction {
		steps++
		if g.canceled || steps < cancelStep {
			return nil
		}
		return []schedAction{{"CANCEL", func() {
			g.canceled = true
			remainingAtCancel = g.e.srv.Remaining()
			if kind != "deadline" {
				tc = time.Now()
				cancel()
			} else {
				// Park everything and let virtual time reach the deadline.
				if d := time.Until(deadline); d > 0 {
					time.Sleep(d)
				}
				tc = deadline
			}
		}}}
	}
	g.startDo(ctx)
	g.schedule(extra, 3*time.Hour)
	g.finish()
	describe := func() string {
		return fmt.Sprintf("scenario %+v, %s at scheduler step %d (server steps left then: %d)\nDo error: %v\nschedule: %s", sc, kind, cancelStep, remainingAtCancel, g.doErr, strings.Join(g.trace, " "))
	}
	if kind == "deadline" && !g.canceled && ctx.Err() != nil {
		// the deadline fired on its own while time advanced
		g.canceled, tc = true, deadline
	}
	nt := g.canceled && g.doErr != nil && remainingAtCancel != 0
	st.Case(stats.Hash("c10", describe()), nt, func() any {
		return map[string]any{"kind": "cancelled-query", "scenario": sc.name, "compression": sc.comp.Name, "telemetry": sc.telemetry, "cancel_kind": kind, "read_timeout": effRead.String(),
			"cancel_step": cancelStep, "do_error": fmt.Sprint(g.doErr), "schedule_head": strings.Join(g.trace[:min(len(g.trace), 30)], " ")}
	})
	st.Label("kind:" + kind)
	if sc.prior > 0 {
		st.Label("after-earlier-exception-queries")
	}
	if g.failAfterCancel && g.canceled {
		st.Label("callbacks-fail-after-cancel")
	}
	if g.doErr == nil {
		if g.canceled && remainingAtCancel > 0 && kind != "deadline" {
			// cancel() returned while the server had not even sent its last packets: the query
			// was cancelled in its middle, whatever arrived afterwards.
			rt.Fatalf("the context was cancelled while the server still had %d packets to send, yet Do returned nil (no error, no Cancel, connection kept)\n%s", remainingAtCancel, describe())
		}
		// The exchange completed before the cancellation: nothing is required.
		st.Label("outcome:completed")
		return
	}
	if !g.canceled {
		rt.Fatalf("fault-free exchange failed without cancellation: %v\n%s", g.doErr, describe())
	}
	st.Label("outcome:cancelled")
	// Prompt return.
	if lim := effRead + 2*time.Second; g.returned.Sub(tc) > lim {
		rt.Fatalf("Do returned %v after the cancellation, limit readTimeout+2s = %v\n%s", g.returned.Sub(tc), lim, describe())
	}
	if ctx.Err() == nil || !errors.Is(g.doErr, ctx.Err()) {
		rt.Fatalf("Do error %q does not match the context's error %v\n%s", g.doErr, ctx.Err(), describe())
	}
	synctest.Wait()
	if !g.client.IsClosed() || g.e.conn.NumCloseCalls() == 0 {
		rt.Fatalf("after cancellation IsClosed()=%v, Close calls on the connection=%d\n%s", g.client.IsClosed(), g.e.conn.NumCloseCalls(), describe())
	}
	writes, calls := g.e.conn.Snapshot()
	closeSeq := 1 << 30
	for _, c := range calls {
		if c.Op == "close" && c.Seq < closeSeq {
			closeSeq = c.Seq
		}
	}
	var before []simnet.WriteRec
	for _, w := range writes {
		if w.Seq > closeSeq {
			// The sender may still attempt a write that was already past its context check; it is
			// refused by the closed connection and reaches nobody (not demanded by the statement).
			if !w.AfterStop {
				rt.Fatalf("a write (%d bytes) succeeded after the connection was closed\n%s", len(w.Data), describe())
			}
			st.Label("refused-write-after-close")
			continue
		}
		before = append(before, w)
	}
	// Best-effort Cancel packet: the last write before Close carries exactly the byte 03.
	if len(before) == 0 {
		rt.Fatalf("nothing was written at all\n%s", describe())
	}
	// Best-effort Cancel packet, judged per write call: one write issued after the cancellation and
	// before Close carries exactly the byte 03, and all other written bytes, in order, are a prefix of
	// a well-formed packet sequence. (The vectored flush of the sender reaches a non-TCP net.Conn as one
	// Write per buffer, so the cancel byte may land between two buffers of a block still being written;
	// judging the concatenated stream would be unsound.)
	var candidates []int
	refused := false
	for i, w := range before {
		if string(w.Attempt) == "\x03" && !w.At.Before(tc) {
			if w.Err != nil {
				refused = true // best effort: the connection refused the write (e.g. an expired write deadline)
				continue
			}
			candidates = append(candidates, i)
		}
	}
	if refused && len(candidates) == 0 {
		st.Label("cancel-write-refused")
		candidates = []int{-1}
	}
	if len(candidates) == 0 {
		rt.Fatalf("no Cancel packet (a write of exactly 03) between the cancellation and Close; last write %x\n%s", trunc(before[len(before)-1].Data), describe())
	}
	var lastErr error
	ok := false
	for _, ci := range candidates {
		cs := &ref.ClientStream{ServerRev: g.e.serverRev}
		for i, w := range before {
			if i != ci {
				cs.Feed(w.Data)
			}
		}
		if cs.Err == nil {
			ok = true
			break
		}
		lastErr = cs.Err
	}
	if !ok {
		rt.Fatalf("bytes written besides the Cancel packet are not a prefix of a well-formed packet sequence: %v\n%s", lastErr, describe())
	}
	if leaks := leakedGoroutines(); len(leaks) > 0 {
		rt.Fatalf("%d goroutine(s) started by the call outlive it:\n%s\n%s", len(leaks), strings.Join(leaks, "\n---\n"), describe())
	}
}

// Cancellation during the handshake closes the connection and returns the context's error.
func TestC10HandshakeCancellation(t *testing.T) {
	st := stats.G()
	rapid.Check(t, func(rt *rapid.T) {
		rapid.SyncTest(rt, func(rt *rapid.T) {
			sched := &simnet.Sched{On: true}
			e := newEnv(rapid.SampledFrom(serverRevs).Draw(rt, "server-rev"))
			e.conn.Sched = sched
			e.srv.Manual = true
			e.srv.Steps = []simnet.Step{e.helloStep()}
			serverAnswers := rapid.Bool().Draw(rt, "server-answers")
			// The peer may stop reading after its hello: the client's next write (the addendum) then blocks.
			stallAfterHello := serverAnswers && rapid.Bool().Draw(rt, "peer-stops-reading-after-hello")
			if stallAfterHello {
				e.srv.Steps[0].Then = func(cn *simnet.Conn) { cn.StallWrites() }
			}
			if rapid.IntRange(0, 3).Draw(rt, "close-returns-error") == 0 {
				e.conn.CloseErr = errors.New("close: broken pipe")
			}
			cancelStep := rapid.IntRange(0, 12).Draw(rt, "cancel-at-step")
			viaDial := rapid.Bool().Draw(rt, "via-dial")
			// The context may also end while the dialer is still at work: the library then holds a
			// connection it opened itself and a context that is already done when the handshake begins.
			cancelInDialer := viaDial && rapid.IntRange(0, 3).Draw(rt, "cancel-inside-dialer") == 0
			ctx, cancel := context.WithCancel(context.Background())
			defer cancel()
			canceled := false
			var tc time.Time
			opt := baseOptions(54460, compModes[0])
			opt.HandshakeTimeout = 30 * time.Second
			var client *ch.Client
			var err error
			done := make(chan struct{})
			start := time.Now()
			go func() {
				defer close(done)
				if viaDial {
					d := &simDialer{conn: e.conn}
					if cancelInDialer {
						d.onDial = func() { canceled = true; tc = time.Now(); cancel() }
					}
					opt.Dialer = d
					client, err = ch.Dial(ctx, opt)
				} else {
					client, err = ch.Connect(ctx, e.conn, opt)
				}
			}()
			defer func() {
				sched.Off()
				cancel()
				e.conn.ForceClose()
				<-done
			}()
			var trace []string
			if cancelInDialer {
				trace = append(trace, "CANCEL-IN-DIALER")
			}
			for step := 0; step < 400; step++ {
				synctest.Wait()
				select {
				case <-done:
					step = 1 << 20
				default:
				}
				if step >= 1<<20 {
					break
				}
				var acts []schedAction
				for _, w := range sched.Pending() {
					w := w
					acts = append(acts, schedAction{"release:" + w.Name, func() { sched.Release(w) }})
				}
				if serverAnswers && e.srv.Ready() {
					acts = append(acts, schedAction{"server", func() { e.srv.EmitNext() }})
				}
				if !canceled && step >= cancelStep {
					acts = append(acts, schedAction{"CANCEL", func() { canceled = true; tc = time.Now(); cancel() }})
					// ... or at the very moment a parked operation goes on (no quiescence in between): the
					// cancellation then races with whatever that operation completes, the end of the handshake included.
					for _, w := range sched.Pending() {
						w := w
						acts = append(acts, schedAction{"release:" + w.Name + "+CANCEL", func() { sched.Release(w); canceled = true; tc = time.Now(); cancel() }})
					}
				}
				if len(acts) == 0 {
					if time.Since(start) > time.Minute {
						rt.Fatalf("handshake neither finished nor failed within a minute of virtual time; schedule %v", trace)
					}
					time.Sleep(10 * time.Millisecond)
					continue
				}
				a := acts[rapid.IntRange(0, len(acts)-1).Draw(rt, "sched")]
				trace = append(trace, a.name)
				a.run()
			}
			sched.Off()
			<-done
			st.Case(stats.Hash("c10h", strings.Join(trace, " "), serverAnswers, viaDial, stallAfterHello), canceled && err != nil, func() any {
				return map[string]any{"kind": "cancelled-handshake", "server_answers": serverAnswers, "peer_stops_reading_after_hello": stallAfterHello, "via_dial": viaDial, "schedule": strings.Join(trace, " "), "error": fmt.Sprint(err)}
			})
			if err == nil {
				// The handshake won the race against the cancellation (or there was none): then the client is a
				// working one. A client handed out over a connection the library itself has closed is neither a
				// failed handshake nor a usable client.
				if n := e.conn.NumCloseCalls(); n > 0 {
					rt.Fatalf("the handshake returned a client (no error) although the library closed the connection (%d Close calls; cancelled: %v, IsClosed: %v); schedule %v", n, canceled, client.IsClosed(), trace)
				}
				client.Close()
				return
			}
			if !canceled {
				rt.Fatalf("handshake failed without cancellation: %v; schedule %v", err, trace)
			}
			if !errors.Is(err, context.Canceled) {
				rt.Fatalf("handshake cancelled, error %q does not match context.Canceled; schedule %v", err, trace)
			}
			if client != nil {
				rt.Fatalf("cancelled handshake returned a client")
			}
			if d := time.Since(tc); d > 4*time.Second {
				rt.Fatalf("handshake returned %v after the cancellation", d)
			}
			synctest.Wait()
			if e.conn.NumCloseCalls() == 0 {
				rt.Fatalf("handshake cancelled, but the connection was not closed; schedule %v", trace)
			}
			if leaks := leakedGoroutines(); len(leaks) > 0 {
				rt.Fatalf("%d goroutine(s) outlive the cancelled handshake:\n%s", len(leaks), strings.Join(leaks, "\n---\n"))
			}
		})
	})
}

// TestC10StreamingCancel: the server keeps streaming packets with gaps shorter than
// the read timeout (so reads never time out); a plain cancel() must still end the
// query promptly, with a Cancel packet and a closed connection (ungated).
func TestC10StreamingCancel(t *testing.T) {
	st := stats.G()
	rapid.Check(t, func(rt *rapid.T) {
		rapid.SyncTest(rt, func(rt *rapid.T) {
			comp := compModes[rapid.SampledFrom([]int{0, 2}).Draw(rt, "compression")]
			readTO := rapid.SampledFrom([]time.Duration{200 * time.Millisecond, time.Second}).Draw(rt, "read-timeout")
			gap := time.Duration(rapid.IntRange(1, 40).Draw(rt, "gap-ms")) * time.Millisecond
			// the 1500-packet stream lasts 1500 x gap; the cancellation falls inside its first three quarters
			cancelAfter := time.Duration(rapid.IntRange(0, min(3000, int(gap/time.Millisecond)*1500*3/4)).Draw(rt, "cancel-after-ms")) * time.Millisecond
			inCallback := rapid.Bool().Draw(rt, "cancel-inside-callback")
			kind := rapid.SampledFrom([]string{"progress", "data", "log"}).Draw(rt, "streamed-packet")
			e := newEnv(54460)
			defer e.conn.ForceClose()
			cols := drawInput(rt, "col", 1, 1)
			var it Item
			switch kind {
			case "progress":
				it = Item{Kind: "progress", Progress: ref.Progress{Rows: 1, Bytes: 1}}
			case "data":
				it = Item{Kind: "data", Block: modelBlock(cols)}
			case "log":
				it = Item{Kind: "log", Logs: []logRow{{Time: 1, Host: "h", QueryID: "q", Source: "s", Text: "t"}}}
			}
			const n = 1500 // 1500 packets x gap outlasts every cancellation instant drawn above
			for i := 0; i < n; i++ {
				var when func(*ref.ClientStream) bool
				if i == 0 {
					when = simnet.AfterQuery(1)
				}
				stp := itemStep(it, when, comp.Method, nil)
				stp.Delay = gap
				e.srv.Steps = append(e.srv.Steps, stp)
			}
			e.srv.Steps = append(e.srv.Steps, itemStep(Item{Kind: "eos"}, nil, 0, nil))
			opt := baseOptions(54460, comp)
			opt.ReadTimeout = readTO
			client, err := e.connect(context.Background(), opt)
			if err != nil {
				rt.Fatalf("connect: %v", err)
			}
			ctx, cancel := context.WithCancel(context.Background())
			defer cancel()
			var tc time.Time
			start := time.Now()
			seen := 0
			afterCancel := 0
			onPacket := func() {
				seen++
				if !tc.IsZero() {
					afterCancel++
				}
				if inCallback && tc.IsZero() && time.Since(start) >= cancelAfter {
					tc = time.Now()
					cancel()
				}
			}
			var res proto.Results
			for _, c := range cols {
				res = append(res, proto.ResultColumn{Name: c.name, Data: c.kind.New().Column()})
			}
			q := ch.Query{Body: "SELECT stream", Result: res,
				OnResult:   func(ctx context.Context, b proto.Block) error { onPacket(); return nil },
				OnProgress: func(ctx context.Context, p proto.Progress) error { onPacket(); return nil },
				OnLogs:     func(ctx context.Context, l []ch.Log) error { onPacket(); return nil },
			}
			if !inCallback {
				go func() {
					time.Sleep(cancelAfter)
					tc = time.Now()
					cancel()
				}()
			}
			derr := doBounded(rt, e, client, ctx, q, 5*time.Minute, "streaming server, cancel")
			if derr == nil {
				rt.Fatalf("query over a %d-packet stream returned nil although it was cancelled after %v", n, cancelAfter)
			}
			if !errors.Is(derr, context.Canceled) {
				rt.Fatalf("Do error %q does not match context.Canceled", derr)
			}
			if lim := readTO + 2*time.Second; time.Since(tc) > lim {
				rt.Fatalf("Do returned %v after cancel() while the server kept streaming %s packets every %v; limit readTimeout+2s = %v (%d packets were processed after the cancellation)", time.Since(tc), kind, gap, lim, afterCancel)
			}
			synctest.Wait()
			if !client.IsClosed() || e.conn.NumCloseCalls() == 0 {
				rt.Fatalf("after cancellation IsClosed()=%v, Close calls=%d", client.IsClosed(), e.conn.NumCloseCalls())
			}
			writes, _ := e.conn.Snapshot()
			foundCancel := false
			for _, w := range writes {
				if string(w.Attempt) == "\x03" {
					foundCancel = true
				}
			}
			if !foundCancel {
				rt.Fatalf("no Cancel packet was written")
			}
			if leaks := leakedGoroutines(); len(leaks) > 0 {
				rt.Fatalf("%d goroutine(s) outlive the call:\n%s", len(leaks), strings.Join(leaks, "\n---\n"))
			}
			st.Case(stats.Hash("c10s", comp.Name, readTO, gap, cancelAfter, inCallback, kind), true, func() any {
				return map[string]any{"kind": "cancel-during-streaming", "packet": kind, "gap": gap.String(), "read_timeout": readTO.String(), "cancel_after": cancelAfter.String(),
					"inside_callback": inCallback, "packets_seen": seen, "packets_after_cancel": afterCancel}
			})
		})
	})
}

// TestC10SilentInsidePacket: the server sends the first bytes of a packet - the code, part of the
// body - and then nothing more, ever. A cancellation or a deadline after that ends the call all
// the same: an error matching the context's, within the read timeout plus a grace period, the
// connection closed, no goroutine left (ungated; the reads of a packet body carry no deadline
// of their own, so only the cancellation can end them).
func TestC10SilentInsidePacket(t *testing.T) {
	st := stats.G()
	rapid.Check(t, func(rt *rapid.T) {
		rapid.SyncTest(rt, func(rt *rapid.T) {
			comp := compModes[rapid.SampledFrom([]int{0, 2}).Draw(rt, "compression")]
			readTO := rapid.SampledFrom([]time.Duration{200 * time.Millisecond, time.Second, ch.NoTimeout}).Draw(rt, "read-timeout")
			kind := rapid.SampledFrom([]string{"data", "progress", "exception", "log"}).Draw(rt, "cut-packet")
			how := rapid.SampledFrom([]string{"cancel", "deadline", "cancel-under-far-deadline"}).Draw(rt, "how")
			after := time.Duration(rapid.IntRange(1, 1500).Draw(rt, "after-ms")) * time.Millisecond
			e := newEnv(54460)
			defer e.conn.ForceClose()
			cols := drawInput(rt, "col", 1, 1)
			var it Item
			switch kind {
			case "data":
				it = Item{Kind: "data", Block: modelBlock(cols)}
			case "progress":
				it = Item{Kind: "progress", Progress: ref.Progress{Rows: 1 << 40, Bytes: 1 << 50, TotalRows: 1 << 41}}
			case "exception":
				it = Item{Kind: "exception", Exc: []ref.Exception{{Code: 241, Name: "DB::Exception", Message: "Memory limit (total) exceeded", Stack: "0. main"}}}
			case "log":
				it = Item{Kind: "log", Logs: []logRow{{Time: 1, Host: "h", QueryID: "q", Source: "s", Text: "t"}}}
			}
			cutPM := rapid.IntRange(1, 999).Draw(rt, "cut-per-mille")
			inner := itemStep(it, simnet.AfterQuery(1), comp.Method, nil)
			e.srv.Steps = append(e.srv.Steps, simnet.Step{Name: "half-" + kind, When: simnet.AfterQuery(1), Bytes: func(cs *ref.ClientStream) []byte {
				b := inner.Bytes(cs)
				if len(b) < 2 {
					return b
				}
				return b[:min(len(b)-1, max(1, len(b)*cutPM/1000))]
			}})
			opt := baseOptions(54460, comp)
			opt.ReadTimeout = readTO
			client, err := e.connect(context.Background(), opt)
			if err != nil {
				rt.Fatalf("connect: %v", err)
			}
			parent, cancel := context.WithCancel(context.Background())
			defer cancel()
			ctx := parent
			var want error = context.Canceled
			switch how {
			case "deadline":
				var c2 context.CancelFunc
				ctx, c2 = context.WithTimeout(parent, after)
				defer c2()
				want = context.DeadlineExceeded
			case "cancel-under-far-deadline":
				var c2 context.CancelFunc
				ctx, c2 = context.WithTimeout(parent, time.Hour)
				defer c2()
			}
			start := time.Now()
			if how != "deadline" {
				go func() { time.Sleep(after); cancel() }()
			}
			var res proto.Results
			for _, c := range cols {
				res = append(res, proto.ResultColumn{Name: c.name, Data: c.kind.New().Column()})
			}
			q := ch.Query{Body: "SELECT x", Result: res, OnResult: func(context.Context, proto.Block) error { return nil },
				OnProgress: func(context.Context, proto.Progress) error { return nil }, OnLogs: func(context.Context, []ch.Log) error { return nil }}
			var derr error
			done := make(chan struct{})
			go func() { defer close(done); derr = client.Do(ctx, q) }()
			lim := after + 3*time.Second
			if readTO > 0 {
				lim += readTO
			}
			hung := false
			select {
			case <-done:
			case <-time.After(lim):
				hung = true
				e.conn.ForceClose()
				cancel()
				<-done
			}
			st.Case(stats.Hash("c10half", kind, how, after, readTO, cutPM, comp.Name, typeNamesOf(cols)[0]), true, func() any {
				return map[string]any{"kind": "silent-inside-packet", "cut_packet": kind, "cut_per_mille": cutPM, "how": how, "after": after.String(), "read_timeout": readTO.String(), "hung": hung, "error": fmt.Sprint(derr)}
			})
			if hung {
				rt.Fatalf("the server went silent inside a %s packet (after %d per mille of its bytes); %s after %v: Do had not returned %v later (read timeout %v); after the connection was closed for it, it returned %v", kind, cutPM, how, after, lim-after, readTO, derr)
			}
			if derr == nil || !errors.Is(derr, want) {
				rt.Fatalf("silent inside a %s packet, %s after %v: Do returned %v, which does not match %v", kind, how, after, derr, want)
			}
			if d := time.Since(start); d < after {
				rt.Fatalf("Do returned after %v, before the %s at %v: %v", d, how, after, derr)
			}
			synctest.Wait()
			if !client.IsClosed() || e.conn.NumCloseCalls() == 0 {
				rt.Fatalf("silent inside a %s packet, %s: after the call IsClosed()=%v, Close calls=%d (%v)", kind, how, client.IsClosed(), e.conn.NumCloseCalls(), derr)
			}
			if leaks := leakedGoroutines(); len(leaks) > 0 {
				rt.Fatalf("%d goroutine(s) outlive the call:\n%s", len(leaks), strings.Join(leaks, "\n---\n"))
			}
		})
	})
}

// TestC10PeerStopsReading: a streaming INSERT whose peer stops reading after the schema exchange,
// so that the sender's next write blocks like on a socket with a full send buffer. A cancellation
// or deadline ends the call all the same: the Cancel packet is best effort (it cannot be written
// either), the connection is closed, the error matches the context's and nothing is left running.
func TestC10PeerStopsReading(t *testing.T) {
	st := stats.G()
	rapid.Check(t, func(rt *rapid.T) {
		rapid.SyncTest(rt, func(rt *rapid.T) {
			comp := compModes[rapid.SampledFrom([]int{0, 2}).Draw(rt, "compression")]
			readTO := rapid.SampledFrom([]time.Duration{200 * time.Millisecond, time.Second}).Draw(rt, "read-timeout")
			how := rapid.SampledFrom([]string{"cancel", "deadline", "cancel-under-far-deadline"}).Draw(rt, "how")
			after := time.Duration(rapid.IntRange(1, 1500).Draw(rt, "after-ms")) * time.Millisecond
			e := newEnv(54460)
			defer e.conn.ForceClose()
			cols := drawInput(rt, "col", 2, 1)
			hdr := itemStep(headerItem(cols), simnet.AfterQuery(1), comp.Method, nil)
			hdr.Then = func(cn *simnet.Conn) { cn.StallWrites() }
			e.srv.Steps = append(e.srv.Steps, hdr)
			opt := baseOptions(54460, comp)
			opt.ReadTimeout = readTO
			client, err := e.connect(context.Background(), opt)
			if err != nil {
				rt.Fatalf("connect: %v", err)
			}
			parent, cancel := context.WithCancel(context.Background())
			defer cancel()
			ctx := parent
			var want error = context.Canceled
			switch how {
			case "deadline":
				var c2 context.CancelFunc
				ctx, c2 = context.WithTimeout(parent, after)
				defer c2()
				want = context.DeadlineExceeded
			case "cancel-under-far-deadline":
				var c2 context.CancelFunc
				ctx, c2 = context.WithTimeout(parent, time.Hour)
				defer c2()
			}
			if how != "deadline" {
				go func() { time.Sleep(after); cancel() }()
			}
			q := ch.Query{Body: "INSERT INTO t VALUES", Input: protoInput(cols),
				OnInput: func(ctx context.Context) error {
					for _, c := range cols {
						c.col.Column().Reset()
						c.col.AppendBulk(c.rows)
					}
					return nil
				}}
			var derr error
			done := make(chan struct{})
			go func() { defer close(done); derr = client.Do(ctx, q) }()
			lim := after + readTO + time.Second + 3*time.Second // read timeout, the library's second for the Cancel packet, grace
			hung := false
			select {
			case <-done:
			case <-time.After(lim):
				hung = true
				e.conn.ForceClose()
				cancel()
				<-done
			}
			st.Case(stats.Hash("c10stall", how, after, readTO, comp.Name, fmt.Sprint(typeNamesOf(cols))), true, func() any {
				return map[string]any{"kind": "peer-stops-reading", "how": how, "after": after.String(), "read_timeout": readTO.String(), "hung": hung, "error": fmt.Sprint(derr)}
			})
			if hung {
				rt.Fatalf("the peer stopped reading during a streaming INSERT; %s after %v: Do had not returned %v later (read timeout %v); after the connection was closed for it, it returned %v", how, after, lim-after, readTO, derr)
			}
			if derr == nil || !errors.Is(derr, want) {
				rt.Fatalf("peer stopped reading, %s after %v: Do returned %v, which does not match %v", how, after, derr, want)
			}
			synctest.Wait()
			if !client.IsClosed() || !e.conn.Closed() {
				rt.Fatalf("peer stopped reading, %s: after the call IsClosed()=%v, connection closed=%v (%v)", how, client.IsClosed(), e.conn.Closed(), derr)
			}
			if leaks := leakedGoroutines(); len(leaks) > 0 {
				rt.Fatalf("%d goroutine(s) outlive the call:\n%s", len(leaks), strings.Join(leaks, "\n---\n"))
			}
		})
	})
}
