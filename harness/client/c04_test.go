package client

// C04 — a failed query leaves the client closed, or open exactly at a packet
// boundary. One fault per run, schedule drawn by rapid at gate granularity.

import (
	"context"
	"errors"
	"fmt"
	"strings"
	"testing"
	"testing/synctest"
	"time"

	"github.com/ClickHouse/ch-go"
	"github.com/ClickHouse/ch-go/proto"
	"pgregory.net/rapid"

	"verif/harness/ref"
	"verif/harness/simnet"
	"verif/harness/stats"
)

var faultKinds = []string{"server-cut", "write-error", "callback-fails", "exception-anytime", "unknown-packet", "unhandled-packet",
	"undecodable-block", "surplus-headers", "write-error+exception", "exception-cut", "reset", "bad-input"}

func TestC04FailedQuery(t *testing.T) {
	st := stats.G()
	rapid.Check(t, func(rt *rapid.T) {
		rapid.SyncTest(rt, func(rt *rapid.T) { runC04(rt, st) })
	})
}

func runC04(rt *rapid.T, st *stats.Collector) {
	sc := scenario{
		name:      rapid.SampledFrom(scenarioNames).Draw(rt, "scenario"),
		comp:      compModes[rapid.SampledFrom([]int{0, 0, 2, 3, 1}).Draw(rt, "compression")],
		telemetry: rapid.Bool().Draw(rt, "telemetry"),
		rounds:    rapid.IntRange(1, 3).Draw(rt, "rounds"),
		withCtxDL: rapid.Bool().Draw(rt, "ctx-deadline"),
		readTO:    rapid.SampledFrom([]time.Duration{0, 200 * time.Millisecond}).Draw(rt, "read-timeout"),
		prior:     rapid.SampledFrom([]int{0, 0, 0, 1, 2}).Draw(rt, "earlier-exception-queries"),
	}
	fault := rapid.SampledFrom(faultKinds).Draw(rt, "fault")
	sc.producerWaits = rapid.Bool().Draw(rt, "producer-waits-on-its-context")
	drawGatedRevs(rt, &sc)
	if fault == "surplus-headers" && sc.name == "select" {
		sc.name = "insert"
	}
	if fault == "callback-fails" && sc.name == "insert" && !sc.telemetry {
		sc.name = "select"
	}
	if fault == "bad-input" && sc.name == "select" {
		sc.name = rapid.SampledFrom([]string{"insert", "stream-insert"}).Draw(rt, "bad-input-scenario")
	}
	effRead := sc.readTO
	if effRead == 0 {
		effRead = ch.DefaultReadTimeout
	}
	var cutErr error
	var badItem Item
	switch fault {
	case "unknown-packet":
		badItem = Item{Kind: "raw", Raw: []byte{byte(rapid.SampledFrom([]int{15, 16, 99, 127}).Draw(rt, "code"))}}
	case "unhandled-packet":
		code := rapid.SampledFrom([]int{ref.ServerHelloCode, ref.ServerPongCode, ref.ServerExtremesCode, ref.ServerTablesStatusCode, ref.ServerPartUUIDsCode, ref.ServerReadTaskCode}).Draw(rt, "code")
		badItem = Item{Kind: "raw", Raw: []byte{byte(code)}}
	case "undecodable-block":
		badItem = Item{Kind: "raw", Raw: append([]byte{ref.ServerDataCode, 0}, rapid.SliceOfN(rapid.Byte(), 1, 30).Draw(rt, "garbage")...)}
	}
	pingCancelled := rapid.IntRange(0, 2).Draw(rt, "ping-with-cancelled-context-first") == 0
	surplus := rapid.IntRange(1, 3).Draw(rt, "surplus")
	chainLen := rapid.IntRange(1, 8).Draw(rt, "exception-chain-length")
	insertAt := rapid.IntRange(0, 6).Draw(rt, "fault-position")
	excCutAt := rapid.IntRange(0, 1<<16).Draw(rt, "exception-cut-position") // anywhere in the chain: first element, between elements, a nested one

	g := newGatedRun(rt, sc, func(g *gatedRun) []simnet.Step {
		steps := saneSteps(g)
		switch fault {
		case "unknown-packet", "unhandled-packet", "undecodable-block":
			i := min(insertAt, len(steps)-1)
			bad := itemStep(badItem, steps[i].When, 0, nil)
			bad.Name = fault
			rest := append([]simnet.Step{bad}, steps[i:]...)
			rest[1].When = nil
			steps = append(steps[:i:i], rest...)
			if fault == "undecodable-block" {
				// Garbage can make the client wait for bytes that never come (no deadline inside a
				// packet, by design): the server closes the connection right after the garbage.
				steps = steps[:i+1]
				steps[i].Then = func(cn *simnet.Conn) { cn.FailReads(errors.New("EOF")) }
			}
		case "exception-anytime", "write-error+exception":
			// The whole script is one exception that may arrive at any moment.
			chain := []ref.Exception{{Code: 60, Name: "DB::Exception", Message: "boom"}}
			for i := 1; i < chainLen; i++ {
				chain = append(chain, ref.Exception{Code: int32(i), Name: "nested", Message: fmt.Sprintf("cause %d", i)})
			}
			steps = []simnet.Step{itemStep(Item{Kind: "exception", Exc: chain}, nil, 0, nil)}
		case "exception-cut":
			// An exception packet that is cut off in the middle (the transport dies while the server reports an error).
			full := Item{Kind: "exception", Exc: []ref.Exception{{Code: 241, Name: "DB::Exception", Message: "Memory limit exceeded", Stack: "stack"}, {Code: 1, Name: "n", Message: "m"}, {Code: 2, Name: "n2", Message: "root cause"}}}.Encode(54460, 0)
			k := 1 + excCutAt%(len(full)-1)
			steps = []simnet.Step{{Name: "exception-cut", Bytes: func(*ref.ClientStream) []byte { return full[:k] },
				Then: func(cn *simnet.Conn) { cn.FailReads(errors.New("connection reset by peer")) }}}
		case "surplus-headers":
			var out []simnet.Step
			for _, s := range steps {
				out = append(out, s)
				if s.Name == "data" && len(out) <= 3 {
					for k := 0; k < surplus; k++ {
						out = append(out, itemStep(headerItem(g.cols), nil, g.sc.comp.Method, nil))
					}
				}
			}
			steps = out
		}
		return steps
	})
	defer g.cleanup()
	if fault == "bad-input" {
		// The caller hands over input that cannot be encoded - one column has a row more than
		// the others - in the first block or, when streaming, in a later round: the failure
		// comes from the encoder after the Query packet (and earlier blocks) went out.
		bad := new(proto.ColUInt8)
		n := g.cols[0].col.Column().Rows()
		for i := 0; i < n; i++ {
			bad.Append(7)
		}
		g.q.Input = append(g.q.Input, proto.InputColumn{Name: "bad", Data: bad})
		badRound := 0
		if sc.name == "stream-insert" {
			badRound = rapid.IntRange(0, sc.rounds).Draw(rt, "bad-round")
		}
		if badRound == 0 {
			bad.Append(8)
		} else {
			inner, round := g.q.OnInput, 0
			g.q.OnInput = func(ctx context.Context) error {
				err := inner(ctx)
				round++
				// keep "bad" in step with the other columns, one row ahead from the chosen round on
				*bad = (*bad)[:0]
				for i := 0; i < g.cols[0].col.Column().Rows(); i++ {
					bad.Append(7)
				}
				if round >= badRound {
					bad.Append(8)
				}
				return err
			}
		}
	}
	if fault == "callback-fails" {
		g.failCbAt = rapid.IntRange(0, 3).Draw(rt, "failing-callback-call")
		if rapid.IntRange(0, 2).Draw(rt, "callback-error-wraps-exception") == 0 {
			// The callback fails with an error it got elsewhere, e.g. from a query it ran on
			// another connection: a *ch.Exception somewhere in its chain.
			g.cbErr = fmt.Errorf("nested query on another connection: %w", &ch.Exception{Code: 60, Name: "DB::Exception", Message: "Table default.other doesn't exist"})
			st.Label("callback-error-wraps-exception")
		}
	}
	// Total server bytes (for cut positions) are known only as they are emitted; cut/write-error positions are
	// drawn relative to what the sane exchange produces (dry numbers: a few hundred bytes).
	cutAfter := rapid.IntRange(0, 400).Draw(rt, "cut-after-server-bytes")
	writeErrAfter := rapid.IntRange(0, 600).Draw(rt, "write-error-after-client-bytes")
	base := g.e.conn.DeliveredBytes()
	wbase := len(g.e.conn.WrittenBytes())
	if fault == "write-error" || fault == "write-error+exception" {
		g.e.conn.FailWritesAfter(wbase + writeErrAfter)
		// the failing write is either a reset or a blocked write cut by its deadline after a partial write
		g.e.conn.WriteErrTimeout = rapid.Bool().Draw(rt, "write-fails-with-timeout")
	}
	if rapid.IntRange(0, 3).Draw(rt, "close-returns-error") == 0 {
		// The transport closes but reports an error from Close (e.g. TLS close_notify on a cut link).
		g.e.conn.CloseErr = errors.New("close: broken pipe")
	}
	ctx, cancel := context.WithCancel(context.Background())
	g.cancel = cancel
	defer cancel()
	if sc.withCtxDL {
		var c2 context.CancelFunc
		ctx, c2 = context.WithTimeout(ctx, time.Hour)
		defer c2()
	}
	cutDone := false
	extra := func() []schedAction {
		if (fault != "server-cut" && fault != "reset") || cutDone {
			return nil
		}
		// Cut once the client has consumed at least cutAfter bytes of this exchange (or any time the server is idle).
		if g.e.conn.DeliveredBytes()-base >= cutAfter || (!g.e.srv.Ready() && g.e.conn.Unread() == 0 && g.e.conn.DeliveredBytes()-base > 0 && cutAfter > 300) {
			return []schedAction{{"cut", func() {
				cutDone = true
				cutErr = errors.New("connection reset by peer")
				g.e.conn.CutReads(cutErr)
				if fault == "reset" {
					// the peer reset the connection: reads fail, and so does every later write
					g.e.conn.FailWritesAfter(len(g.e.conn.WrittenBytes()))
				}
			}}}
		}
		return nil
	}
	// A producer that waits on its context gets no further batch once the query is certain to fail:
	// the failure itself has to wake it up.
	emittedBase := len(g.e.srv.Emitted)
	g.withhold = func() bool {
		if cutDone {
			return true
		}
		if fault != "exception-anytime" && fault != "exception-cut" {
			return false
		}
		for _, name := range g.e.srv.Emitted[emittedBase:] {
			if name == "exception" || name == "exception-cut" {
				return true
			}
		}
		return false
	}
	writesBefore := g.e.conn.NumWrites()
	g.startDo(ctx)
	bound := effRead*time.Duration(g.packets+3) + 3*time.Second
	g.schedule(extra, bound)
	g.finish()
	if fault != "reset" {
		g.e.conn.FailWritesAfter(-1) // the injected write fault concerns the query only
	}
	elapsed := g.returned.Sub(g.start)
	if elapsed > bound {
		rt.Fatalf("Do returned after %v of virtual time, bound %v\nscenario %+v fault %s\nschedule %s", elapsed, bound, sc, fault, strings.Join(g.trace, " "))
	}
	describe := func() string {
		return fmt.Sprintf("scenario %+v, fault %s (pos %d, cut %d, werr %d, cb %d, surplus %d)\nDo error: %v\nschedule: %s", sc, fault, insertAt, cutAfter, writeErrAfter, g.failCbAt, surplus, g.doErr, strings.Join(g.trace, " "))
	}
	faultHappened := g.doErr != nil
	if fault == "callback-fails" && g.cbCalls <= g.failCbAt {
		faultHappened = false
	}
	if !faultHappened && g.doErr != nil {
		rt.Fatalf("Do failed although no fault was injected: %v\n%s", g.doErr, describe())
	}
	synctest.Wait()
	closed := g.client.IsClosed()
	writes, calls := g.e.conn.Snapshot()
	if closed {
		if g.e.conn.NumCloseCalls() == 0 {
			rt.Fatalf("client reports closed but Close was never called on the connection\n%s", describe())
		}
		// A closed client rejects every further call without touching the connection.
		ncalls, nwrites := len(calls), len(writes)
		if err := g.client.Ping(context.Background()); !errors.Is(err, ch.ErrClosed) {
			rt.Fatalf("Ping on a closed client returned %v\n%s", err, describe())
		}
		if err := g.client.Do(context.Background(), ch.Query{Body: "SELECT 1"}); !errors.Is(err, ch.ErrClosed) {
			rt.Fatalf("Do on a closed client returned %v\n%s", err, describe())
		}
		synctest.Wait()
		w2, c2 := g.e.conn.Snapshot()
		if len(w2) != nwrites || len(c2) != ncalls {
			rt.Fatalf("calls on a closed client touched the connection (%d -> %d writes, %d -> %d other calls)\n%s", nwrites, len(w2), ncalls, len(c2), describe())
		}
	} else {
		if fault == "reset" && faultHappened && cutDone && !ch.IsException(g.doErr) {
			rt.Fatalf("the connection was reset (reads and writes fail), Do failed with a transport error, yet the client stays open on the dead connection: neither closed nor usable\n%s", describe())
		}
		if fault == "exception-cut" && faultHappened {
			rt.Fatalf("the server stream was cut in the middle of an Exception packet, yet the client stays open (the read side is inside a packet)\n%s", describe())
		}
		// Open: everything written during the failed call parses as whole packets ...
		var perr error
		var pending int
		g.e.srv.WithStream(func(cs *ref.ClientStream) { perr, pending = cs.Err, cs.Pending() })
		if perr != nil || pending != 0 {
			rt.Fatalf("client left open, but what it wrote is not a whole number of packets (parse error %v, %d bytes of an incomplete packet)\n%s", perr, pending, describe())
		}
		// ... and the next request starts with its own first byte.
		g.e.srv.Manual = false
		g.e.srv.AutoPong = true
		if sc.withCtxDL && insertAt%3 == 0 {
			// Let the failed query's own deadline pass first: nothing of it (e.g. a write or read
			// deadline left on the connection) may get in the way of a later request.
			time.Sleep(61 * time.Minute)
			st.Label("follow-up-after-the-failed-query's-deadline")
		}
		if pingCancelled {
			// A request that fails before anything is written (its context is already cancelled)
			// must not leave its bytes behind for the next request either.
			cctx, ccancel := context.WithCancel(context.Background())
			if insertAt%2 == 0 {
				// ... or its deadline has already passed
				cctx, ccancel = context.WithDeadline(context.Background(), time.Now().Add(-time.Second))
			}
			ccancel()
			if err := g.client.Ping(cctx); err == nil {
				rt.Fatalf("Ping with a cancelled context returned nil\n%s", describe())
			}
			st.Label("ping-with-cancelled-context-before-follow-up")
		}
		nw := g.e.conn.NumWrites()
		pingErr := g.client.Ping(context.Background())
		w2, _ := g.e.conn.Snapshot()
		var sent []byte
		for _, w := range w2[nw:] {
			if fault == "reset" && cutDone {
				sent = append(sent, w.Attempt...) // the connection refuses writes: judge what the client tried to send
			} else {
				sent = append(sent, w.Data...)
			}
		}
		if string(sent) != "\x04" {
			rt.Fatalf("client left open after the failed query; the follow-up Ping made it write %d bytes (%x…), want exactly 04: bytes encoded for the failed query were sent later\n%s", len(sent), trunc(sent), describe())
		}
		if cutErr == nil && fault != "undecodable-block" && fault != "exception-cut" && faultHappened {
			if pingErr != nil {
				rt.Fatalf("client left open after the failed query, but the follow-up Ping fails: %v (the read side is not at a response boundary)\n%s", pingErr, describe())
			}
			// A follow-up query works as on a fresh connection.
			g.e.srv.Steps = append(g.e.srv.Steps, itemStep(Item{Kind: "eos"}, simnet.AfterQuery(g.e.srvQueries()+1), 0, nil))
			if err := doBounded(rt, g.e, g.client, context.Background(), ch.Query{Body: "SELECT 2", QueryID: "after"}, time.Minute, "follow-up Do on the client left open"); err != nil {
				rt.Fatalf("follow-up Do on the client left open fails: %v\n%s", err, describe())
			}
		}
	}
	_ = writesBefore
	senderAndReceiverRan := strings.Contains(strings.Join(g.trace, " "), "release:write") && strings.Contains(strings.Join(g.trace, " "), "release:read")
	st.Case(stats.Hash("c04", describe()), faultHappened && senderAndReceiverRan, func() any {
		return map[string]any{"kind": "faulted-query", "scenario": sc.name, "compression": sc.comp.Name, "telemetry": sc.telemetry, "fault": fault,
			"closed_after": closed, "do_error": fmt.Sprint(g.doErr), "schedule_steps": len(g.trace), "schedule_head": strings.Join(g.trace[:min(len(g.trace), 25)], " ")}
	})
	st.Label("fault:" + fault)
	st.Label("scenario:" + sc.name)
	if closed {
		st.Label("outcome:closed")
	} else if faultHappened {
		st.Label("outcome:open-after-failure")
	} else {
		st.Label("outcome:no-fault-hit")
	}
}

func trunc(b []byte) []byte {
	if len(b) > 24 {
		return b[:24]
	}
	return b
}

// TestC04ChattyServerSenderFailure: the query fails on the client's side - the streaming callback
// returns an error, or hands over columns that cannot be encoded - while the server keeps sending
// progress or log packets with gaps shorter than the read timeout, so that no read ever times out.
// The call returns all the same (within the read timeout plus a grace period), and the client is
// closed or usable at a packet boundary (ungated; the schedule is the runtime's).
func TestC04ChattyServerSenderFailure(t *testing.T) {
	st := stats.G()
	rapid.Check(t, func(rt *rapid.T) {
		rapid.SyncTest(rt, func(rt *rapid.T) {
			comp := compModes[rapid.SampledFrom([]int{0, 2}).Draw(rt, "compression")]
			readTO := rapid.SampledFrom([]time.Duration{200 * time.Millisecond, time.Second}).Draw(rt, "read-timeout")
			gap := time.Duration(rapid.IntRange(1, 40).Draw(rt, "gap-ms")) * time.Millisecond
			// ... or the server says nothing at all while it waits for the input, and the client reads
			// without a timeout: nothing but the failure itself can end the call
			silent := rapid.IntRange(0, 2).Draw(rt, "silent-server") == 0
			if silent && rapid.Bool().Draw(rt, "no-read-timeout") {
				readTO = ch.NoTimeout
			}
			failRound := rapid.IntRange(0, 3).Draw(rt, "failing-round")
			how := rapid.SampledFrom([]string{"callback-error", "ragged-input", "callback-error-after-wait"}).Draw(rt, "failure")
			kind := rapid.SampledFrom([]string{"progress", "log"}).Draw(rt, "streamed-packet")
			e := newEnv(54460)
			defer e.conn.ForceClose()
			cols := drawInput(rt, "col", 2, 1)
			e.srv.Steps = append(e.srv.Steps, itemStep(headerItem(cols), simnet.AfterQuery(1), comp.Method, nil))
			it := Item{Kind: "progress", Progress: ref.Progress{Rows: 1, Bytes: 1}}
			if kind == "log" {
				it = Item{Kind: "log", Logs: []logRow{{Time: 1, Host: "h", QueryID: "q", Source: "s", Text: "t"}}}
			}
			n := 1500
			if silent {
				n = 0
			}
			for i := 0; i < n; i++ {
				stp := itemStep(it, nil, 0, nil)
				stp.Delay = gap
				e.srv.Steps = append(e.srv.Steps, stp)
			}
			opt := baseOptions(54460, comp)
			opt.ReadTimeout = readTO
			client, err := e.connect(context.Background(), opt)
			if err != nil {
				rt.Fatalf("connect: %v", err)
			}
			var tf time.Time
			round := 0
			cbErr := errors.New("producer failed")
			bad := new(proto.ColUInt8)
			in := protoInput(cols)
			if how == "ragged-input" {
				in = append(in, proto.InputColumn{Name: "ragged", Data: bad})
				for i := 0; i < cols[0].col.Column().Rows(); i++ {
					bad.Append(1)
				}
			}
			q := ch.Query{Body: "INSERT INTO t VALUES", Input: in,
				OnInput: func(ctx context.Context) error {
					if round == failRound {
						if how == "callback-error-after-wait" {
							time.Sleep(3 * gap)
						}
						tf = time.Now()
						if how == "ragged-input" {
							bad.Append(2) // one row more than the other columns from now on
							for _, c := range cols {
								c.col.Column().Reset()
								c.col.AppendBulk(c.rows)
							}
							*bad = (*bad)[:0]
							for i := 0; i <= len(cols[0].rows); i++ {
								bad.Append(3)
							}
							return nil
						}
						return cbErr
					}
					round++
					for _, c := range cols {
						c.col.Column().Reset()
						c.col.AppendBulk(c.rows)
					}
					if how == "ragged-input" {
						*bad = (*bad)[:0]
						for i := 0; i < len(cols[0].rows); i++ {
							bad.Append(1)
						}
					}
					return nil
				},
				OnProgress: func(ctx context.Context, p proto.Progress) error { return nil },
				OnLogs:     func(ctx context.Context, l []ch.Log) error { return nil },
			}
			derr := doBounded(rt, e, client, context.Background(), q, 5*time.Minute, "chatty server, failing sender")
			if derr == nil {
				rt.Fatalf("[%s at round %d] Do returned nil", how, failRound)
			}
			if how != "ragged-input" && !errors.Is(derr, cbErr) {
				st.Label("callback-error-replaced") // which error the failed call reports is not part of the statement
			}
			if tf.IsZero() {
				rt.Fatalf("harness: the failing round was never reached (%v)", derr)
			}
			lim := 2 * time.Second
			if readTO > 0 {
				lim += readTO
			}
			if time.Since(tf) > lim {
				rt.Fatalf("[%s at round %d] Do returned %v after the sender failed (server silent: %v; otherwise %s packets every %v, no read ever timing out; read timeout %v); limit %v", how, failRound, time.Since(tf), silent, kind, gap, readTO, lim)
			}
			synctest.Wait()
			if !client.IsClosed() {
				// left open: then at a packet boundary in both directions
				var perr error
				var pending int
				e.srv.WithStream(func(cs *ref.ClientStream) { perr, pending = cs.Err, cs.Pending() })
				if perr != nil || pending != 0 {
					rt.Fatalf("[%s] client left open, but what it wrote is not a whole number of packets (%v, %d bytes pending)", how, perr, pending)
				}
				e.srv.AutoPong = true
				pctx, pcancel := context.WithTimeout(context.Background(), 5*time.Second)
				perr2 := client.Ping(pctx)
				pcancel()
				if perr2 != nil {
					rt.Fatalf("[%s at round %d] the query failed on the sending side in the middle of an INSERT the server is still answering; the client stays open (error %v) but is not usable: Ping returns %v", how, failRound, derr, perr2)
				}
				return
			}
			if err := client.Ping(context.Background()); !errors.Is(err, ch.ErrClosed) {
				rt.Fatalf("closed client: Ping returned %v", err)
			}
			st.Case(stats.Hash("c04chatty", how, failRound, gap, readTO, kind, silent, comp.Name, fmt.Sprint(typeNamesOf(cols))), true, func() any {
				return map[string]any{"kind": "chatty-server-sender-failure", "failure": how, "round": failRound, "gap": gap.String(), "read_timeout": readTO.String(), "streamed": kind, "silent_server": silent, "compression": comp.Name, "returned_after": time.Since(tf).String()}
			})
			st.Label("failure:" + how)
		})
	})
}

func typeNamesOf(cols []inputCol) []string {
	var out []string
	for _, c := range cols {
		out = append(out, c.kind.T.Name)
	}
	return out
}

// TestC04ExceptionWhilePeerNotReading: during a streaming INSERT the server reports an exception and
// stops reading (its side of the query is over), so the sender's write in flight blocks like on a full
// send buffer - with a caller's context that has no deadline nothing bounds that write. The call
// returns the exception all the same, and the client is closed or usable at a packet boundary.
func TestC04ExceptionWhilePeerNotReading(t *testing.T) {
	st := stats.G()
	rapid.Check(t, func(rt *rapid.T) {
		rapid.SyncTest(rt, func(rt *rapid.T) {
			comp := compModes[rapid.SampledFrom([]int{0, 2}).Draw(rt, "compression")]
			readTO := rapid.SampledFrom([]time.Duration{200 * time.Millisecond, time.Second, ch.NoTimeout}).Draw(rt, "read-timeout")
			excAfter := time.Duration(rapid.IntRange(0, 300).Draw(rt, "exception-after-ms")) * time.Millisecond
			farDeadline := rapid.Bool().Draw(rt, "ctx-with-far-deadline")
			e := newEnv(54460)
			defer e.conn.ForceClose()
			cols := drawInput(rt, "col", 2, 1)
			hdr := itemStep(headerItem(cols), simnet.AfterQuery(1), comp.Method, nil)
			hdr.Then = func(cn *simnet.Conn) { cn.StallWrites() }
			exc := itemStep(Item{Kind: "exception", Exc: []ref.Exception{{Code: 241, Name: "DB::Exception", Message: "Memory limit (for query) exceeded"}}}, nil, 0, nil)
			exc.Delay = excAfter
			e.srv.Steps = append(e.srv.Steps, hdr, exc)
			opt := baseOptions(54460, comp)
			opt.ReadTimeout = readTO
			client, err := e.connect(context.Background(), opt)
			if err != nil {
				rt.Fatalf("connect: %v", err)
			}
			ctx := context.Background()
			if farDeadline {
				var c2 context.CancelFunc
				ctx, c2 = context.WithTimeout(ctx, time.Hour)
				defer c2()
			}
			q := ch.Query{Body: "INSERT INTO t VALUES", Input: protoInput(cols),
				OnInput: func(ctx context.Context) error {
					for _, c := range cols {
						c.col.Column().Reset()
						c.col.AppendBulk(c.rows)
					}
					return nil
				}}
			start := time.Now()
			var derr error
			done := make(chan struct{})
			go func() { defer close(done); derr = client.Do(ctx, q) }()
			lim := excAfter + 3*time.Second
			if readTO > 0 {
				lim += readTO
			}
			hung := false
			select {
			case <-done:
			case <-time.After(lim):
				hung = true
				e.conn.ForceClose()
				<-done
			}
			st.Case(stats.Hash("c04excstall", excAfter, readTO, farDeadline, comp.Name, fmt.Sprint(typeNamesOf(cols))), true, func() any {
				return map[string]any{"kind": "exception-while-peer-not-reading", "exception_after": excAfter.String(), "read_timeout": readTO.String(), "far_deadline": farDeadline, "hung": hung, "returned_after": time.Since(start).String(), "error": fmt.Sprint(derr)}
			})
			if hung {
				rt.Fatalf("the server answered a streaming INSERT with an exception after %v and stopped reading: Do had not returned %v later (read timeout %v, context deadline: %v); after the connection was closed for it, it returned %v", excAfter, lim-excAfter, readTO, farDeadline, derr)
			}
			if !ch.IsErr(derr, 241) {
				rt.Fatalf("exception 241 while the peer does not read: Do returned %v", derr)
			}
			synctest.Wait()
			if !client.IsClosed() {
				var perr error
				var pending int
				e.srv.WithStream(func(cs *ref.ClientStream) { perr, pending = cs.Err, cs.Pending() })
				if perr != nil || pending != 0 {
					rt.Fatalf("client left open after the exception, but what it wrote is not a whole number of packets (%v, %d bytes pending)", perr, pending)
				}
			}
		})
	})
}
