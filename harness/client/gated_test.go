package client

// Gated execution: the harness owns the schedule. Client goroutines park at
// gates (connection methods, user callbacks, log points); the scheduler loop
// waits until every goroutine of the bubble is durably blocked, computes the
// enabled actions and lets rapid draw one.

import (
	"context"
	"fmt"
	"io"
	"strings"
	"testing/synctest"
	"time"

	"github.com/ClickHouse/ch-go"
	"github.com/ClickHouse/ch-go/proto"
	"go.uber.org/zap"
	"go.uber.org/zap/zapcore"
	"pgregory.net/rapid"

	"verif/harness/ref"
	"verif/harness/simnet"
)

// gateCore is a zapcore.Core whose Write parks at a gate named after the message.
type gateCore struct {
	sched *simnet.Sched
}

func (g gateCore) Enabled(zapcore.Level) bool        { return true }
func (g gateCore) With([]zapcore.Field) zapcore.Core { return g }
func (g gateCore) Check(e zapcore.Entry, ce *zapcore.CheckedEntry) *zapcore.CheckedEntry {
	return ce.AddCore(e, g)
}
func (g gateCore) Write(e zapcore.Entry, _ []zapcore.Field) error {
	g.sched.Gate("log:" + e.Message)
	return nil
}
func (g gateCore) Sync() error { return nil }

// scenario describes one query exchange.
type scenario struct {
	name      string // select | insert | stream-insert
	comp      compMode
	telemetry bool
	rounds    int // stream-insert
	withCtxDL bool
	readTO    time.Duration
	// prior: this many earlier queries on the same client were answered by a server exception
	// (which leaves the client open), so per-query state of the client has been used before.
	prior int
	// producerWaits: the streaming callback waits for its next batch or for the end of its
	// context, whichever comes first (a producer fed from a channel).
	producerWaits bool
	// revisions announced by the two sides (0 = 54460): the exchange runs at the lower one
	clientRev, serverRev int
}

// drawGatedRevs: mostly the current revision on both sides, otherwise one side lower - at or
// just below the revisions where a response packet changes its layout.
func drawGatedRevs(rt *rapid.T, sc *scenario) {
	low := rapid.SampledFrom([]int{0, 0, 0, 54459, 54458, 54454, 54453, 54451}).Draw(rt, "lower-revision")
	if low == 0 {
		return
	}
	if rapid.Bool().Draw(rt, "client-is-lower") {
		sc.clientRev = low
	} else {
		sc.serverRev = low
	}
}

var scenarioNames = []string{"select", "insert", "stream-insert"}

type gatedRun struct {
	rt     *rapid.T
	e      *env
	sched  *simnet.Sched
	client *ch.Client
	sc     scenario
	cols   []inputCol
	q      ch.Query
	// bookkeeping
	trace    []string
	ranAfter map[string]bool
	cbCalls  int
	failCbAt int // callback index that fails (-1 none)
	cbErr    error
	doneCh   chan struct{}
	doErr    error
	start    time.Time
	returned time.Time
	cancel   context.CancelFunc
	canceled bool
	cancelAt time.Time
	// failAfterCancel: once the context is cancelled, user callbacks return an error of their own
	failAfterCancel bool
	packets         int
	inputDone       bool
	started         bool
	// waiting producer (scenario.producerWaits)
	batchReady      chan struct{}
	producerWaiting bool
	withhold        func() bool // no further batch is produced once this reports true (the query has failed)
}

func (g *gatedRun) cb(name string) error {
	g.sched.Gate("cb:" + name)
	i := g.cbCalls
	g.cbCalls++
	if i == g.failCbAt || (g.failAfterCancel && g.canceled) {
		return g.cbErr
	}
	return nil
}

// setup connects (ungated) and prepares query + server script for the scenario.
func newGatedRun(rt *rapid.T, sc scenario, serverItems func(g *gatedRun) []simnet.Step) *gatedRun {
	g := &gatedRun{rt: rt, sc: sc, failCbAt: -1, cbErr: fmt.Errorf("callback failure"), ranAfter: map[string]bool{}, doneCh: make(chan struct{}), batchReady: make(chan struct{})}
	g.sched = &simnet.Sched{}
	if sc.clientRev == 0 {
		sc.clientRev = 54460
	}
	if sc.serverRev == 0 {
		sc.serverRev = 54460
	}
	g.sc = sc
	g.e = newEnv(sc.serverRev)
	g.e.conn.Sched = g.sched
	opt := baseOptions(sc.clientRev, sc.comp)
	opt.ReadTimeout = sc.readTO
	client, err := g.e.connect(context.Background(), opt)
	if err != nil {
		rt.Fatalf("connect: %v", err)
	}
	g.client = client
	g.e.client = client
	for i := 0; i < sc.prior; i++ {
		g.e.srv.Steps = append(g.e.srv.Steps, itemStep(Item{Kind: "exception", Exc: []ref.Exception{{Code: 60, Name: "DB::Exception", Message: "DB::Exception: Table default.prior doesn't exist"}}}, simnet.AfterQuery(i+1), 0, nil))
		err := doBounded(rt, g.e, client, context.Background(), ch.Query{Body: "SELECT * FROM prior"}, time.Minute, "preliminary query answered by an exception")
		if !ch.IsErr(err, 60) || client.IsClosed() {
			rt.Fatalf("harness: preliminary query %d: err=%v closed=%v", i, err, client.IsClosed())
		}
	}
	lg := zap.New(gateCore{sched: g.sched})
	q := ch.Query{Body: "Q", QueryID: "gated", Logger: lg}
	kinds := drawInput(rt, "col", 2, 1)
	g.cols = kinds
	switch sc.name {
	case "select":
		var res proto.Results
		for _, c := range kinds {
			res = append(res, proto.ResultColumn{Name: c.name, Data: c.kind.New().Column()})
		}
		q.Result = res
		q.OnResult = func(ctx context.Context, b proto.Block) error { return g.cb("OnResult") }
	case "insert":
		q.Input = protoInput(kinds)
	case "stream-insert":
		q.Input = protoInput(kinds)
		round := 0
		q.OnInput = func(ctx context.Context) error {
			if err := g.cb("OnInput"); err != nil {
				return err
			}
			round++
			if round >= sc.rounds {
				g.inputDone = true
				for _, c := range kinds {
					c.col.Column().Reset()
				}
				return fmt.Errorf("done: %w", io.EOF)
			}
			if sc.producerWaits {
				g.producerWaiting = true
				select {
				case <-ctx.Done():
					g.producerWaiting = false
					return ctx.Err()
				case <-g.batchReady:
				}
			}
			for _, c := range kinds {
				c.col.Column().Reset()
				c.col.AppendBulk(c.rows)
			}
			return nil
		}
	}
	if sc.telemetry {
		q.OnProgress = func(ctx context.Context, p proto.Progress) error { return g.cb("OnProgress") }
		q.OnProfile = func(ctx context.Context, p proto.Profile) error { return g.cb("OnProfile") }
		q.OnLogs = func(ctx context.Context, l []ch.Log) error { return g.cb("OnLogs") }
		q.OnProfileEvents = func(ctx context.Context, e []ch.ProfileEvent) error { return g.cb("OnProfileEvents") }
	}
	g.q = q
	g.e.srv.Manual = true
	g.e.srv.Steps = append(g.e.srv.Steps, serverItems(g)...)
	g.packets = len(g.e.srv.Steps)
	return g
}

// saneSteps is the fault-free server script of the scenario.
func saneSteps(g *gatedRun) []simnet.Step {
	m := g.sc.comp.Method
	var steps []simnet.Step
	tele := func(when func(*ref.ClientStream) bool) {
		if !g.sc.telemetry {
			return
		}
		steps = append(steps, itemStep(Item{Kind: "progress", Progress: ref.Progress{Rows: 1, Bytes: 2}}, when, 0, nil))
		steps = append(steps, itemStep(Item{Kind: "log", Logs: []logRow{{Time: 1, Host: "h", QueryID: "q", Source: "s", Text: "t"}}}, nil, 0, nil))
		steps = append(steps, itemStep(Item{Kind: "profileevents", Events: []profEvent{{Host: "h", Type: 1, Name: "n", Value: 5}}}, nil, 0, nil))
	}
	switch g.sc.name {
	case "select":
		hdr := headerItem(g.cols)
		steps = append(steps, itemStep(hdr, simnet.AfterQuery(1+g.sc.prior), m, nil))
		tele(nil)
		steps = append(steps, itemStep(Item{Kind: "data", Block: modelBlock(g.cols)}, nil, m, nil))
		if g.sc.telemetry {
			steps = append(steps, itemStep(Item{Kind: "profile", Profile: ref.Profile{Rows: 1}}, nil, 0, nil))
		}
		steps = append(steps, itemStep(Item{Kind: "data", Block: &ref.Block{}}, nil, m, nil))
		steps = append(steps, itemStep(Item{Kind: "eos"}, nil, 0, nil))
	case "insert", "stream-insert":
		steps = append(steps, itemStep(Item{Kind: "tablecolumns", TC: ref.TableColumns{Second: "x"}}, simnet.AfterQuery(1+g.sc.prior), 0, nil))
		steps = append(steps, itemStep(headerItem(g.cols), nil, m, nil))
		tele(simnet.AfterDataBlocks(1))
		steps = append(steps, itemStep(Item{Kind: "eos"}, simnet.AfterInputEnd, 0, nil))
	}
	return steps
}

type schedAction struct {
	name string
	run  func()
}

// startDo launches Do with gating enabled.
func (g *gatedRun) startDo(ctx context.Context) {
	g.sched.On = true
	g.started = true
	g.start = time.Now()
	go func() {
		defer close(g.doneCh)
		g.doErr = g.client.Do(ctx, g.q)
		g.returned = time.Now()
	}()
}

func (g *gatedRun) done() bool {
	select {
	case <-g.doneCh:
		return true
	default:
		return false
	}
}

// schedule runs the scheduler loop until Do returns. extra yields additional
// enabled actions (fault injection, cancellation). bias < 0: uniform choice.
func (g *gatedRun) schedule(extra func() []schedAction, bound time.Duration) {
	for step := 0; ; step++ {
		synctest.Wait()
		if g.done() {
			return
		}
		if time.Since(g.start) > bound+time.Hour || step > 20000 {
			g.hang(bound, "scheduler gave up")
			return
		}
		var acts []schedAction
		for _, w := range g.sched.Pending() {
			w := w
			acts = append(acts, schedAction{"release:" + w.Name, func() { g.sched.Release(w) }})
		}
		if g.e.srv.Ready() {
			acts = append(acts, schedAction{"server", func() {
				n := g.e.srv.EmitNext()
				g.trace = append(g.trace, "server:"+n)
			}})
		}
		if extra != nil {
			acts = append(acts, extra()...)
		}
		if g.producerWaiting && (g.withhold == nil || !g.withhold()) {
			acts = append(acts, schedAction{"batch-ready", func() { g.producerWaiting = false; g.batchReady <- struct{}{} }})
		}
		if len(acts) == 0 {
			// Everything is blocked on timers or I/O: let virtual time run to the next timer.
			if time.Since(g.start) > bound {
				g.hang(bound, "no goroutine can make progress")
				return
			}
			time.Sleep(10 * time.Millisecond)
			continue
		}
		a := acts[rapid.IntRange(0, len(acts)-1).Draw(g.rt, "sched")]
		g.trace = append(g.trace, a.name)
		a.run()
	}
}

func (g *gatedRun) hang(bound time.Duration, why string) {
	var desc string
	g.e.srv.WithStream(func(cs *ref.ClientStream) {
		var kinds []string
		for _, p := range cs.Packets {
			kinds = append(kinds, p.Kind.String())
		}
		desc = fmt.Sprintf("client packets [%s]; server emitted %v", strings.Join(kinds, " "), g.e.srv.Emitted)
	})
	var pend []string
	for _, w := range g.sched.Pending() {
		pend = append(pend, w.Name)
	}
	g.sched.Off()
	g.e.conn.ForceClose()
	if g.cancel != nil {
		g.cancel()
	}
	select {
	case <-g.doneCh:
	case <-time.After(time.Hour):
	}
	g.rt.Fatalf("Do did not return within the bound of %v virtual time (%s; elapsed %v). %s; parked gates %v\nscenario %+v\nschedule: %s",
		bound, why, time.Since(g.start), desc, pend, g.sc, strings.Join(g.trace, " "))
}

func (g *gatedRun) finish() {
	g.sched.Off()
}

// cleanup must be deferred right after newGatedRun: whatever happens (rapid
// aborts a draw while shrinking, an oracle fails), parked goroutines are
// released and joined so that the bubble can end.
func (g *gatedRun) cleanup() {
	g.sched.Off()
	if g.cancel != nil {
		g.cancel()
	}
	g.e.conn.ForceClose()
	if g.started {
		select {
		case <-g.doneCh:
		case <-time.After(24 * time.Hour):
		}
	}
}
