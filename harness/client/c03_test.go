package client

// C03 — results, telemetry and exceptions are delivered exactly once, in
// order; nil is returned exactly when the stream ended with end-of-stream and
// no callback failed; exception chains are fully recoverable.
// The same machinery, run under different segmentations and idle gaps, gives
// the client-level half of C08.

import (
	"context"
	"errors"
	"fmt"
	"strings"
	"testing"
	"time"

	"github.com/ClickHouse/ch-go"
	"github.com/ClickHouse/ch-go/proto"
	"pgregory.net/rapid"

	"verif/harness/gen"
	"verif/harness/ref"
	"verif/harness/simnet"
	"verif/harness/stats"
)

type c03script struct {
	kinds   []*gen.Kind // result schema
	names   []string
	items   []Item
	binding string // typed | auto | single | nil
	comp    compMode
	// callbacks: present flags and failure index (-1 never)
	onResult, onProgress, onProfile, onEvents, onEvent, onLogs, onLog bool
	failAt                                                            map[string]int
	clientRev, serverRev                                              int
	ctxDeadline                                                       bool // Do runs under a context with a far deadline
	// C08: the server pauses for pauseGap in the middle of these packets (item index -> cut
	// position in per mille of the packet's bytes, never before the packet code).
	pauseIn  map[int]int
	pauseGap time.Duration
	// C08: ReadTimeout = NoTimeout and a handshake timeout shorter than the first gap, so that
	// any deadline left on the connection by the handshake would be crossed.
	noTimeout bool
	// warm: an earlier exchange on the same client (see env.warm)
	warm string
	// large: one of the blocks carries a value of 4..256 KiB
	large bool
	// methods: with compression on, the frame method the server uses for each item (a server may
	// answer with any method, and with different ones within one connection)
	methods []byte
	// C08: the byte stream goes on after the response - the answer to the follow-up Ping is already
	// behind its last packet, in the same write of the server - so that the bytes read ahead with the
	// end of the response belong to the next exchange.
	earlyPong bool
	// C08: Do runs under a deadline that lies 30 ms behind the arrival of the last packet (idle gaps
	// included): every packet is in time, the last read timeouts are reported close to the deadline.
	tight bool
	// instrumented: Options.OpenTelemetryInstrumentation (default no-op providers): the
	// client's own bookkeeping per packet runs too
	instrumented bool
}

func (s c03script) methodOf(i int) byte {
	if s.comp.Method == 0 || i >= len(s.methods) {
		return s.comp.Method
	}
	return s.methods[i]
}

var errSentinel = errors.New("callback sentinel failure")

func drawScript(rt *rapid.T) c03script {
	s := c03script{failAt: map[string]int{}}
	s.clientRev, s.serverRev = drawRevs(rt)
	s.comp = drawComp(rt)
	n := rapid.IntRange(1, 3).Draw(rt, "result-cols")
	for i := 0; i < n; i++ {
		s.kinds = append(s.kinds, gen.DrawKind(rt, "kind"))
		s.names = append(s.names, fmt.Sprintf("r%d", i))
	}
	s.binding = rapid.SampledFrom([]string{"typed", "typed", "auto", "single", "nil"}).Draw(rt, "binding")
	if s.binding == "single" {
		s.kinds, s.names = s.kinds[:1], s.names[:1]
	}
	if s.binding == "auto" {
		// only inferable schemas make sense for Auto
		for i := range s.kinds {
			for tries := 0; !inferable(s.kinds[i].T.Name) && tries < 50; tries++ {
				s.kinds[i] = gen.Kinds[rapid.IntRange(0, len(gen.Kinds)-1).Draw(rt, "auto-kind")]
			}
			if !inferable(s.kinds[i].T.Name) {
				s.kinds[i] = gen.ByName["Int32|X|Int32"]
			}
		}
	}
	mkBlock := func(rows int) *ref.Block {
		b := &ref.Block{Info: ref.BlockInfo{BucketNum: -1}}
		for i, k := range s.kinds {
			b.Columns = append(b.Columns, ref.Column{Name: s.names[i], T: k.T, Rows: gen.DrawRows(rt, k, rows)})
		}
		return b
	}
	// One script in twenty-five carries a large data block (an incompressible String value of a
	// size around the reader's buffer sizes) among its items.
	var large []byte
	if s.binding != "auto" && rapid.IntRange(0, 24).Draw(rt, "large-block") == 0 {
		s.kinds[0] = gen.ByName["String|X|String"]
		large = gen.Expand(rapid.Uint64().Draw(rt, "large-seed"), rapid.SampledFrom([]int{4 << 10, 16 << 10, 64 << 10, 128 << 10, 256 << 10}).Draw(rt, "large-size")+rapid.IntRange(-40, 1000).Draw(rt, "large-extra"))
	}
	// One script in thirty has a LowCardinality(String) column whose blocks carry more than 255
	// distinct values each (two-byte keys), several blocks through the same target.
	wideDict := large == nil && rapid.IntRange(0, 29).Draw(rt, "wide-dictionary") == 0
	if wideDict {
		if k := gen.ByName["LowCardinality(String)|LowCardinality(X)|String"]; k != nil {
			s.kinds, s.names = []*gen.Kind{k}, s.names[:1]
			blockNo := 0
			mkBlock = func(rows int) *ref.Block {
				blockNo++
				n := []int{0, 300, 257, 1, 300}[rows%5]
				var vals []ref.Val
				for i := 0; i < n; i++ {
					vals = append(vals, []byte(fmt.Sprintf("value-%d-%05d", blockNo, (i*7)%n)))
				}
				return &ref.Block{Info: ref.BlockInfo{BucketNum: -1}, Columns: []ref.Column{{Name: s.names[0], T: k.T, Rows: vals}}}
			}
		}
	}
	nItems := rapid.IntRange(0, 8).Draw(rt, "items")
	if large != nil {
		b := mkBlock(rapid.IntRange(1, 3).Draw(rt, "rows"))
		b.Columns[0].Rows[0] = large
		s.items = append(s.items, Item{Kind: rapid.SampledFrom([]string{"data", "data", "totals"}).Draw(rt, "large-item"), Block: b})
		s.large = true
	}
	for i := 0; i < nItems; i++ {
		switch rapid.SampledFrom([]string{"data", "data", "data", "totals", "progress", "profile", "profileevents", "log", "tablecolumns", "header", "endmarker"}).Draw(rt, "item") {
		case "data":
			s.items = append(s.items, Item{Kind: "data", Block: mkBlock(rapid.IntRange(0, 4).Draw(rt, "rows"))})
		case "totals":
			s.items = append(s.items, Item{Kind: "totals", Block: mkBlock(rapid.IntRange(0, 2).Draw(rt, "rows"))})
		case "header":
			s.items = append(s.items, Item{Kind: "data", Block: mkBlock(0)})
		case "endmarker":
			s.items = append(s.items, Item{Kind: "data", Block: &ref.Block{}})
		case "progress":
			p := ref.Progress{Rows: rapid.Uint64Range(0, 1000).Draw(rt, "p-rows"), Bytes: rapid.Uint64().Draw(rt, "p-bytes"),
				TotalRows: 5, WroteRows: 6, WroteBytes: 7, ElapsedNs: rapid.Uint64Range(0, 1<<40).Draw(rt, "p-el")}
			switch rapid.IntRange(0, 5).Draw(rt, "p-shape") {
			case 0:
				p.Rows, p.Bytes = 0, 0 // totals only: nothing was read since the last packet
			case 1:
				p = ref.Progress{} // all zero
			}
			s.items = append(s.items, Item{Kind: "progress", Progress: p})
		case "profile":
			s.items = append(s.items, Item{Kind: "profile", Profile: ref.Profile{Rows: rapid.Uint64Range(0, 99).Draw(rt, "pf-rows"), Blocks: 2, Bytes: 3, AppliedLimit: rapid.Bool().Draw(rt, "pf-limit"), RowsBeforeLimit: 9, Calculated: true}})
		case "profileevents":
			n := rapid.IntRange(0, 3).Draw(rt, "events")
			it := Item{Kind: "profileevents", Signed: rapid.Bool().Draw(rt, "signed")}
			for j := 0; j < n; j++ {
				it.Events = append(it.Events, profEvent{Host: rapid.SampledFrom([]string{"h", "initiator", "shard-1", ""}).Draw(rt, "ev-host"), Time: rapid.Uint32().Draw(rt, "ev-time"), Thread: rapid.Uint64().Draw(rt, "ev-thread"),
					Type: int8(rapid.IntRange(1, 2).Draw(rt, "ev-type")), Name: rapid.SampledFrom([]string{"Query", "SelectQuery", ""}).Draw(rt, "ev-name"), Value: rapid.Uint64Range(0, 1<<62).Draw(rt, "ev-val")})
			}
			s.items = append(s.items, it)
		case "log":
			n := rapid.IntRange(0, 3).Draw(rt, "logs")
			it := Item{Kind: "log"}
			for j := 0; j < n; j++ {
				it.Logs = append(it.Logs, logRow{Time: rapid.Uint32().Draw(rt, "lg-time"), Micro: rapid.Uint32Range(0, 999999).Draw(rt, "lg-micro"), Host: rapid.SampledFrom([]string{"h", "initiator", "shard-2"}).Draw(rt, "lg-host"), QueryID: rapid.SampledFrom([]string{"q", "", "other"}).Draw(rt, "lg-qid"), Thread: rapid.Uint64().Draw(rt, "lg-thread"),
					Priority: int8(rapid.IntRange(1, 8).Draw(rt, "lg-prio")), Source: rapid.SampledFrom([]string{"src", "executeQuery", ""}).Draw(rt, "lg-src"), Text: rapid.SampledFrom([]string{"hello", "", "\xff\x00"}).Draw(rt, "lg-text")})
			}
			s.items = append(s.items, it)
		case "tablecolumns":
			s.items = append(s.items, Item{Kind: "tablecolumns", TC: ref.TableColumns{First: "", Second: "columns format version: 1\n"}})
		}
	}
	if rapid.IntRange(0, 3).Draw(rt, "ends-with-exception") == 0 {
		s.items = append(s.items, Item{Kind: "exception", Exc: drawExceptionChain(rt, 5)})
	} else {
		s.items = append(s.items, Item{Kind: "eos"})
	}
	if s.comp.Method != 0 && rapid.Bool().Draw(rt, "mixed-frame-methods") {
		for range s.items {
			s.methods = append(s.methods, rapid.SampledFrom([]byte{s.comp.Method, ref.MethodNone, ref.MethodLZ4, ref.MethodZSTD}).Draw(rt, "frame-method"))
		}
	}
	s.ctxDeadline = rapid.Bool().Draw(rt, "ctx-with-far-deadline")
	s.instrumented = rapid.IntRange(0, 3).Draw(rt, "instrumented") == 0
	s.warm = rapid.SampledFrom(warmKinds).Draw(rt, "earlier-exchange")
	s.onResult = rapid.Bool().Draw(rt, "on-result")
	s.onProgress = rapid.Bool().Draw(rt, "on-progress")
	s.onProfile = rapid.Bool().Draw(rt, "on-profile")
	s.onEvents = rapid.Bool().Draw(rt, "on-events")
	s.onEvent = rapid.Bool().Draw(rt, "on-event")
	s.onLogs = rapid.Bool().Draw(rt, "on-logs")
	s.onLog = rapid.Bool().Draw(rt, "on-log")
	if rapid.IntRange(0, 3).Draw(rt, "some-callback-fails") == 0 {
		cb := rapid.SampledFrom([]string{"result", "progress", "profile", "events", "event", "logs", "log"}).Draw(rt, "failing-callback")
		s.failAt[cb] = rapid.IntRange(0, 2).Draw(rt, "fail-at-call")
	}
	return s
}

var inferCache = map[string]bool{}

func inferable(name string) bool {
	if v, ok := inferCache[name]; ok {
		return v
	}
	var a proto.ColAuto
	ok := func() (ok bool) {
		defer func() {
			if recover() != nil {
				ok = false
			}
		}()
		return a.Infer(proto.ColumnType(name)) == nil
	}()
	inferCache[name] = ok
	return ok
}

// expected trace per the statement.
type c03expect struct {
	trace   []string
	err     string // "", "sentinel", "exception", "no-onresult", "rows-without-target"
	chain   []ref.Exception
	results []*ref.Block // blocks delivered to OnResult, in order
}

func evKey(e profEvent, signed bool) string {
	return fmt.Sprintf("%s|%d|%d|%d|%s|%d", e.Host, e.Time, e.Thread, e.Type, e.Name, int64(e.Value))
}

func (s c03script) model(N int) c03expect {
	var x c03expect
	calls := map[string]int{}
	call := func(cb, what string) bool { // returns false when the callback fails
		x.trace = append(x.trace, what)
		j, failing := s.failAt[cb]
		ok := !(failing && calls[cb] == j)
		calls[cb]++
		if !ok {
			x.err = "sentinel"
		}
		return ok
	}
	sawRows := false
	for _, it := range s.items {
		switch it.Kind {
		case "data", "totals":
			if len(it.Block.Columns) == 0 && it.Block.Rows() == 0 {
				continue // empty end marker
			}
			if s.binding == "nil" {
				if it.Block.Rows() > 0 {
					x.err = "rows-without-target"
					return x
				}
			}
			if s.onResult {
				x.results = append(x.results, it.Block)
				if !call("result", fmt.Sprintf("result:%d", len(x.results)-1)) {
					return x
				}
				continue
			}
			// README rule: without OnResult any further block after a non-empty one fails the call.
			if sawRows {
				x.err = "no-onresult"
				return x
			}
			if it.Block.Rows() > 0 {
				sawRows = true
			}
		case "progress":
			p := it.Progress
			if N < ref.RevServerQueryTimeInProg {
				p.ElapsedNs = 0
			}
			if s.onProgress && !call("progress", fmt.Sprintf("progress:%+v", p)) {
				return x
			}
		case "profile":
			if s.onProfile && !call("profile", fmt.Sprintf("profile:%+v", it.Profile)) {
				return x
			}
		case "profileevents":
			var keys []string
			for _, e := range it.Events {
				keys = append(keys, evKey(e, it.Signed))
			}
			if s.onEvents && !call("events", "events:"+strings.Join(keys, ",")) {
				return x
			}
			if s.onEvent {
				for _, k := range keys {
					if !call("event", "event:"+k) {
						return x
					}
				}
			}
		case "log":
			var keys []string
			for _, l := range it.Logs {
				keys = append(keys, fmt.Sprintf("%d|%s|%s|%d|%d|%s|%q", l.Time, l.Host, l.QueryID, l.Thread, l.Priority, l.Source, l.Text))
			}
			if s.onLogs && !call("logs", "logs:"+strings.Join(keys, ",")) {
				return x
			}
			if s.onLog {
				for _, k := range keys {
					if !call("log", "log:"+k) {
						return x
					}
				}
			}
		case "exception":
			x.err, x.chain = "exception", it.Exc
			return x
		case "eos":
			return x
		}
	}
	return x
}

type c03outcome struct {
	trace    []string
	err      error
	snapErrs []string
}

// runScript connects, runs the query against the script delivered with segs
// (and optional idle gaps between packets), and records what the callbacks saw.
func runScript(rt *rapid.T, s c03script, segsFor func(i int, n int) []int, gapAfter func(i int) time.Duration) (c03outcome, *env) {
	return runScriptOpts(rt, s, segsFor, gapAfter, false)
}

func runScriptOpts(rt *rapid.T, s c03script, segsFor func(i int, n int) []int, gapAfter func(i int) time.Duration, shortReadTimeout bool) (c03outcome, *env) {
	e := newEnv(s.serverRev)
	e.warm = s.warm
	N := min(s.clientRev, s.serverRev)
	var out c03outcome
	x := s.model(N)
	for i, it := range s.items {
		var when func(*ref.ClientStream) bool
		if i == 0 {
			when = simnet.AfterQuery(1)
		}
		st := itemStep(it, when, s.methodOf(i), nil)
		if segsFor != nil {
			b := it.Encode(N, map[bool]byte{true: s.methodOf(i), false: 0}[s.comp.Method != 0 && (it.Kind == "data" || it.Kind == "totals")])
			st.Segs = segsFor(i, len(b))
		}
		if gapAfter != nil { // also before the first packet of the response
			st.Delay = gapAfter(i)
		}
		if pm, ok := s.pauseIn[i]; ok && len(it.Encode(N, 0)) >= 2 {
			inner := st.Bytes
			cut := func(n int) int { return min(n, max(1, 1+pm*(n-2)/1000)) }
			head := st
			head.Segs = nil
			head.Bytes = func(cs *ref.ClientStream) []byte { b := inner(cs); return b[:cut(len(b))] }
			tail := simnet.Step{Name: st.Name + "-tail", Delay: s.pauseGap, Bytes: func(cs *ref.ClientStream) []byte { b := inner(cs); return b[cut(len(b)):] }}
			e.srv.Steps = append(e.srv.Steps, head, tail)
			continue
		}
		// (not behind a packet the server pauses in: the pause would delay the pong past the ping's own read timeout)
		if s.earlyPong && i == len(s.items)-1 {
			inner := st.Bytes
			st.Bytes = func(cs *ref.ClientStream) []byte { return append(append([]byte(nil), inner(cs)...), ref.ServerPongCode) }
			e.earlyPong = true
		}
		e.srv.Steps = append(e.srv.Steps, st)
	}
	opt := baseOptions(s.clientRev, s.comp)
	if s.instrumented {
		opt.OpenTelemetryInstrumentation = true
	}
	if shortReadTimeout {
		opt.ReadTimeout = 50 * time.Millisecond
	}
	if s.noTimeout {
		opt.ReadTimeout, opt.HandshakeTimeout = ch.NoTimeout, 200*time.Millisecond
	}
	client, err := e.connect(context.Background(), opt)
	if err != nil {
		rt.Fatalf("connect: %v", err)
	}
	e.client = client
	calls := map[string]int{}
	fail := func(cb string) error {
		j, failing := s.failAt[cb]
		bad := failing && calls[cb] == j
		calls[cb]++
		if bad {
			return fmt.Errorf("wrapped: %w", errSentinel)
		}
		return nil
	}
	q := ch.Query{Body: "SELECT x", QueryID: "c03"}
	var tcols []gen.Col
	var auto proto.Results
	switch s.binding {
	case "typed":
		var res proto.Results
		for i, k := range s.kinds {
			c := k.New()
			tcols = append(tcols, c)
			res = append(res, proto.ResultColumn{Name: s.names[i], Data: c.Column()})
		}
		q.Result = res
	case "single":
		c := s.kinds[0].New()
		tcols = append(tcols, c)
		q.Result = proto.ResultColumn{Name: s.names[0], Data: c.Column()}
	case "auto":
		q.Result = auto.Auto()
	}
	nres := 0
	if s.onResult {
		q.OnResult = func(ctx context.Context, b proto.Block) error {
			idx := nres
			nres++
			out.trace = append(out.trace, fmt.Sprintf("result:%d", idx))
			// Snapshot of the bound columns at callback time.
			if idx < len(x.results) {
				want := x.results[idx]
				if b.Rows != want.Rows() || b.Columns != len(want.Columns) {
					out.snapErrs = append(out.snapErrs, fmt.Sprintf("OnResult #%d: block header %dx%d want %dx%d", idx, b.Columns, b.Rows, len(want.Columns), want.Rows()))
				}
				for i := range want.Columns {
					var got []ref.Val
					var err error
					switch s.binding {
					case "typed", "single":
						n := tcols[i].Column().Rows()
						for r := 0; r < n; r++ {
							got = append(got, tcols[i].Row(r))
						}
					case "auto":
						if i < len(auto) {
							got, err = gen.ReflectRows(want.Columns[i].T, auto[i].Data)
						}
					case "nil":
						continue
					}
					if err != nil {
						out.snapErrs = append(out.snapErrs, fmt.Sprintf("OnResult #%d column %d: %v", idx, i, err))
						continue
					}
					if j, ok := ref.EqualRows(want.Columns[i].T, got, want.Columns[i].Rows); !ok {
						out.snapErrs = append(out.snapErrs, fmt.Sprintf("OnResult #%d: bound column %d (%s) holds %d rows, differs from that block at row %d (block has %d rows)", idx, i, want.Columns[i].T.Name, len(got), j, want.Rows()))
					}
				}
			}
			return fail("result")
		}
	}
	if s.onProgress {
		q.OnProgress = func(ctx context.Context, p proto.Progress) error {
			rp := ref.Progress{Rows: p.Rows, Bytes: p.Bytes, TotalRows: p.TotalRows, WroteRows: p.WroteRows, WroteBytes: p.WroteBytes, ElapsedNs: p.ElapsedNs}
			out.trace = append(out.trace, fmt.Sprintf("progress:%+v", rp))
			return fail("progress")
		}
	}
	if s.onProfile {
		q.OnProfile = func(ctx context.Context, p proto.Profile) error {
			rp := ref.Profile{Rows: p.Rows, Blocks: p.Blocks, Bytes: p.Bytes, AppliedLimit: p.AppliedLimit, RowsBeforeLimit: p.RowsBeforeLimit, Calculated: p.CalculatedRowsBeforeLimit}
			out.trace = append(out.trace, fmt.Sprintf("profile:%+v", rp))
			return fail("profile")
		}
	}
	pek := func(e ch.ProfileEvent) string {
		return fmt.Sprintf("%s|%d|%d|%d|%s|%d", e.Host, uint32(e.Time.Unix()), e.ThreadID, e.Type, e.Name, e.Value)
	}
	if s.onEvents {
		q.OnProfileEvents = func(ctx context.Context, es []ch.ProfileEvent) error {
			var keys []string
			for _, e := range es {
				keys = append(keys, pek(e))
			}
			out.trace = append(out.trace, "events:"+strings.Join(keys, ","))
			return fail("events")
		}
	}
	if s.onEvent {
		q.OnProfileEvent = func(ctx context.Context, e ch.ProfileEvent) error {
			out.trace = append(out.trace, "event:"+pek(e))
			return fail("event")
		}
	}
	lk := func(l ch.Log) string {
		return fmt.Sprintf("%d|%s|%s|%d|%d|%s|%q", uint32(l.Time.Unix()), l.Host, l.QueryID, l.ThreadID, l.Priority, l.Source, l.Text)
	}
	if s.onLogs {
		q.OnLogs = func(ctx context.Context, ls []ch.Log) error {
			var keys []string
			for _, l := range ls {
				keys = append(keys, lk(l))
			}
			out.trace = append(out.trace, "logs:"+strings.Join(keys, ","))
			return fail("logs")
		}
	}
	if s.onLog {
		q.OnLog = func(ctx context.Context, l ch.Log) error {
			out.trace = append(out.trace, "log:"+lk(l))
			return fail("log")
		}
	}
	ctx := context.Background()
	if s.ctxDeadline {
		var cancel context.CancelFunc
		ctx, cancel = context.WithTimeout(ctx, time.Hour)
		defer cancel()
	}
	if s.tight && len(s.pauseIn) == 0 {
		var total time.Duration
		if gapAfter != nil {
			for i := range s.items {
				total += gapAfter(i)
			}
		}
		var cancel context.CancelFunc
		ctx, cancel = context.WithTimeout(ctx, total+30*time.Millisecond)
		defer cancel()
	}
	out.err = doBounded(rt, e, client, ctx, q, 5*time.Minute, "script "+s.describe())
	_ = client
	return out, e
}

func (s c03script) describe() string {
	var items []string
	for _, it := range s.items {
		items = append(items, it.String())
	}
	return fmt.Sprintf("[%s] earlier-exchange=%q ctx-deadline=%v binding=%s comp=%s client=%d server=%d callbacks(result=%v progress=%v profile=%v events=%v event=%v logs=%v log=%v) failAt=%v",
		strings.Join(items, " "), s.warm, s.ctxDeadline, s.binding, s.comp.Name, s.clientRev, s.serverRev, s.onResult, s.onProgress, s.onProfile, s.onEvents, s.onEvent, s.onLogs, s.onLog, s.failAt)
}

func judgeC03(rt *rapid.T, s c03script, out c03outcome) {
	N := min(s.clientRev, s.serverRev)
	x := s.model(N)
	if len(out.snapErrs) > 0 {
		rt.Fatalf("%s\nscript %s", strings.Join(out.snapErrs, "\n"), s.describe())
	}
	if strings.Join(out.trace, "\n") != strings.Join(x.trace, "\n") {
		rt.Fatalf("callback trace differs.\n got: %q\nwant: %q\nscript %s\nerr: %v", out.trace, x.trace, s.describe(), out.err)
	}
	switch x.err {
	case "":
		if out.err != nil {
			rt.Fatalf("stream ended with end-of-stream and no callback failed, but Do returned %v\nscript %s", out.err, s.describe())
		}
	case "sentinel":
		// "Returns nil exactly when ... no callback failed": the failing callback makes the call fail. Which
		// error it fails with is not part of the statement: the library cancels the query when a callback
		// fails, and on a loaded machine the sender's write on the connection closed by that cancellation
		// can be recorded before the callback's own error (seen once in a thorough run; counted here).
		if out.err == nil {
			rt.Fatalf("a callback failed, Do returned nil\nscript %s", s.describe())
		}
		if !errors.Is(out.err, errSentinel) {
			stats.G().Label("callback-error-replaced-by-a-transport-error")
		}
	case "no-onresult", "rows-without-target":
		if out.err == nil {
			rt.Fatalf("expected failure (%s), Do returned nil\nscript %s", x.err, s.describe())
		}
	case "exception":
		if out.err == nil {
			rt.Fatalf("server exception, Do returned nil\nscript %s", s.describe())
		}
		var ex *ch.Exception
		if !errors.As(out.err, &ex) {
			rt.Fatalf("exception not recoverable with errors.As from %q", out.err)
		}
		top := x.chain[0]
		if int32(ex.Code) != top.Code || ex.Name != top.Name || ex.Message != top.Message || ex.Stack != top.Stack {
			rt.Fatalf("top exception %+v, server sent %+v", ex, top)
		}
		if len(ex.Next) != len(x.chain)-1 {
			rt.Fatalf("exception chain has %d nested causes, server sent %d", len(ex.Next), len(x.chain)-1)
		}
		for i, nx := range ex.Next {
			w := x.chain[i+1]
			if int32(nx.Code) != w.Code || nx.Name != w.Name || nx.Message != w.Message || nx.Stack != w.Stack {
				rt.Fatalf("nested cause %d = %+v, server sent %+v", i, nx, w)
			}
		}
		for _, c := range x.chain {
			if !errors.Is(out.err, proto.Error(c.Code)) {
				rt.Fatalf("errors.Is(err, code %d) is false although the chain contains it", c.Code)
			}
		}
		if !ch.IsErr(out.err, proto.Error(top.Code)) || !ch.IsException(out.err) {
			rt.Fatalf("IsErr/IsException false for %v", out.err)
		}
	}
}

func c03nontrivial(s c03script) bool {
	nonEmpty, telemetry, sawData, interleaved := 0, false, false, false
	for _, it := range s.items {
		switch it.Kind {
		case "data", "totals":
			if it.Block.Rows() > 0 {
				nonEmpty++
			}
			if telemetry {
				interleaved = true
			}
			sawData = true
		case "progress", "profile", "profileevents", "log":
			telemetry = true
			if sawData {
				interleaved = true
			}
		case "exception":
			if len(it.Exc) >= 2 {
				return true
			}
		}
	}
	return nonEmpty >= 2 || interleaved
}

func TestC03Delivery(t *testing.T) {
	st := stats.G()
	rapid.Check(t, func(rt *rapid.T) {
		rapid.SyncTest(rt, func(rt *rapid.T) {
			s := drawScript(rt)
			if rapid.IntRange(0, 5).Draw(rt, "slow-server") == 0 {
				// A slow but well-formed stream: the server pauses inside one packet for longer
				// than the read timeout (which bounds the wait for a packet, not its transfer).
				s.pauseIn = map[int]int{rapid.IntRange(0, len(s.items)-1).Draw(rt, "paused-item"): rapid.IntRange(0, 1000).Draw(rt, "pause-at")}
				s.pauseGap = ch.DefaultReadTimeout + 500*time.Millisecond
				st.Label("pause-inside-a-packet")
			}
			out, e := runScript(rt, s, nil, nil)
			defer e.conn.ForceClose()
			judgeC03(rt, s, out)
			st.Case(stats.Hash("c03", s.describe(), string(e.conn.WrittenBytes())), c03nontrivial(s), func() any {
				return map[string]any{"kind": "server-script", "script": s.describe()}
			})
			st.Label("binding:" + s.binding)
			if s.large {
				st.Label("large-block")
			}
			st.Label("ends:" + s.items[len(s.items)-1].Kind)
			if len(s.failAt) > 0 {
				st.Label("failing-callback")
			}
		})
	})
}

// TestC08ClientSegmentation: the outcome of reading a server stream does not
// depend on how the bytes arrive, nor on idle gaps between packets that fire
// the read deadline.
func TestC08ClientSegmentation(t *testing.T) {
	st := stats.G()
	rapid.Check(t, func(rt *rapid.T) {
		s := drawScript(rt)
		s.earlyPong = rapid.IntRange(0, 3).Draw(rt, "stream-continues-with-the-next-answer") == 0
		family := rapid.SampledFrom([]string{"one-byte", "two-piece", "random", "gaps", "gaps+one-byte", "pause-inside-packet", "pause-inside-packet", "no-timeout"}).Draw(rt, "family")
		pauses := map[int]int{}
		for i, n := 0, rapid.IntRange(1, 3).Draw(rt, "paused-packets"); i < n; i++ {
			pauses[rapid.IntRange(0, len(s.items)-1).Draw(rt, "paused-item")] = rapid.SampledFrom([]int{0, 1, 500, 999, 1000, rapid.IntRange(2, 998).Draw(rt, "pm")}).Draw(rt, "pause-at")
		}
		splitAt := rapid.IntRange(1, 40).Draw(rt, "split")
		randSegs := rapid.SliceOfN(rapid.IntRange(0, 30), 1, 10).Draw(rt, "segs") // 0 = an empty read (a zero-length write of the peer)
		tightDeadline := rapid.IntRange(0, 2).Draw(rt, "deadline-just-behind-the-last-packet") == 0
		gap := rapid.SampledFrom([]time.Duration{60 * time.Millisecond, 101 * time.Millisecond, 350 * time.Millisecond}).Draw(rt, "gap")
		type result struct {
			out      c03outcome
			ping     string
			timeouts int
		}
		run := func(segs func(i, n int) []int, gaps func(i int) time.Duration, short bool) result {
			var r result
			rapid.SyncTest(rt, func(rt *rapid.T) {
				s2 := s
				out, e := runScriptOpts(rt, s2, segs, gaps, short)
				defer e.conn.ForceClose()
				r.out = out
				// Follow-up ping on the same connection: same outcome <=> same number of bytes consumed.
				e.srv.AutoPong = !e.earlyPong // the early pong is the only answer the ping gets
				client := e.client
				perr := client.Ping(context.Background())
				r.ping = fmt.Sprint(perr)
				r.timeouts = e.readTimeouts()
			})
			return r
		}
		base := run(nil, nil, false)
		var got result
		switch family {
		case "one-byte":
			got = run(func(i, n int) []int { return ones(n) }, nil, false)
		case "two-piece":
			got = run(func(i, n int) []int { return []int{1 + splitAt%max(n-1, 1)} }, nil, false)
		case "random":
			got = run(func(i, n int) []int { return randSegs }, nil, false)
		case "gaps":
			s.tight = tightDeadline
			base = run(nil, nil, false)
			got = run(nil, func(i int) time.Duration { return gap }, true)
			s.tight = false
		case "gaps+one-byte":
			s.tight = tightDeadline
			base = run(nil, nil, false)
			got = run(func(i, n int) []int { return ones(n) }, func(i int) time.Duration { return gap }, true)
			s.tight = false
		case "pause-inside-packet":
			// The bytes of a packet arrive in two pieces with a pause longer than the read timeout
			// in between (and, one run in two, idle gaps between packets as well).
			saved := s
			s.pauseIn, s.pauseGap = pauses, gap
			if splitAt%2 == 0 {
				got = run(nil, func(i int) time.Duration { return gap }, true)
			} else {
				got = run(nil, nil, true)
			}
			s = saved
		case "no-timeout":
			// Reads without a timeout: idle gaps between packets and pauses inside them, each
			// longer than the (short) handshake timeout, change nothing.
			saved := s
			s.pauseIn, s.pauseGap, s.noTimeout = pauses, gap+200*time.Millisecond, true
			got = run(nil, func(i int) time.Duration { return gap + 200*time.Millisecond }, false)
			s = saved
		}
		if strings.Join(got.out.trace, "\n") != strings.Join(base.out.trace, "\n") {
			rt.Fatalf("[%s] callback trace depends on segmentation.\n single-segment: %q\n segmented:      %q\nscript %s", family, base.out.trace, got.out.trace, s.describe())
		}
		// (When a callback fails by the script's design the call fails either way; which of the errors of the
		// cancelled query it reports depends on the goroutine schedule, not on the segmentation - see judgeC03.)
		bothFailedCallback := s.model(min(s.clientRev, s.serverRev)).err == "sentinel" && got.out.err != nil && base.out.err != nil
		if fmt.Sprint(got.out.err) != fmt.Sprint(base.out.err) && !bothFailedCallback {
			rt.Fatalf("[%s] error depends on segmentation.\n single-segment: %v\n segmented:      %v\nscript %s", family, base.out.err, got.out.err, s.describe())
		}
		if len(got.out.snapErrs) > 0 || len(base.out.snapErrs) > 0 {
			rt.Fatalf("[%s] values differ: %v / %v", family, base.out.snapErrs, got.out.snapErrs)
		}
		if got.ping != base.ping {
			rt.Fatalf("[%s] follow-up Ping differs (bytes consumed differ): single-segment %q, segmented %q\nscript %s", family, base.ping, got.ping, s.describe())
		}
		nt := family != "gaps" || got.timeouts > 0
		st.Case(stats.Hash("c08c", s.describe(), family, splitAt, fmt.Sprint(randSegs), gap, fmt.Sprint(pauses)), nt && len(s.items) > 1, func() any {
			return map[string]any{"kind": "client-segmentation", "family": family, "script": s.describe(), "read_deadline_expiries": got.timeouts}
		})
		st.Label("family:" + family)
		if got.timeouts > 0 {
			st.LabelN("read-deadline-expiries", int64(got.timeouts))
		}
	})
}

func ones(n int) []int {
	s := make([]int, n)
	for i := range s {
		s[i] = 1
	}
	return s
}

// TestC03ExceptionInsteadOfColumnInfo (a plain loop, no generator: what varies is the runtime's
// schedule): an INSERT whose input column needs the server's column description (an enum given
// by names) is answered by an exception instead of that description - an unknown table, say.
// Every time, the error of Do carries the server's exception with its code. The sender is parked
// waiting for the description when the receiver gives up; what it does on waking must not replace
// the exception (it cannot prepare its column: it never learnt the enum's definition).
func TestC03ExceptionInsteadOfColumnInfo(t *testing.T) {
	st := stats.G()
	n := 20000
	if stats.Thorough() {
		n = 300000
	}
	const perConn = 200
	var lost, closed int64
	var firstLost string
	for done := 0; done < n; done += perConn {
		e := newEnv(54460)
		for i := 1; i <= perConn; i++ {
			e.srv.Steps = append(e.srv.Steps, itemStep(Item{Kind: "exception", Exc: []ref.Exception{{Code: 60, Name: "DB::Exception", Message: "Table default.nowhere doesn't exist"}}}, simnet.AfterQuery(i), 0, nil))
		}
		client, err := e.connect(context.Background(), baseOptions(54460, compModes[0]))
		if err != nil {
			t.Fatalf("connect: %v", err)
		}
		for i := 0; i < perConn; i++ {
			if client.IsClosed() {
				break
			}
			var col proto.ColEnum
			col.Append("a")
			col.Append("b")
			ctx, cancel := context.WithTimeout(context.Background(), 30*time.Second)
			err := client.Do(ctx, ch.Query{Body: "INSERT INTO nowhere VALUES", Input: proto.Input{{Name: "v", Data: &col}}})
			cancel()
			if !ch.IsErr(err, 60) {
				lost++
				if firstLost == "" {
					firstLost = fmt.Sprint(err)
				}
			}
			if client.IsClosed() {
				closed++
			}
			st.Case(stats.Hash("c03exc", done, i), true, nil)
		}
		_ = client.Close()
		e.conn.ForceClose()
	}
	st.Sample(map[string]any{"kind": "exception-instead-of-column-info", "queries": n, "exception_lost": lost, "client_closed_after_exception": closed})
	if lost > 0 {
		p := st.Violate("exception-lost-on-insert", fmt.Sprintf("%d of %d INSERTs answered by exception 60 returned an error without it, e.g. %s", lost, n, firstLost), []byte(firstLost))
		t.Fatalf("%d of %d INSERTs answered by a server exception (code 60) instead of the column description returned an error that does not carry the exception, e.g. %q (replay %s)", lost, n, firstLost, p)
	}
}
