package client

// C09 — streamed INSERT sends one faithful block per input round, then
// exactly one terminator; later rounds never change earlier blocks.

import (
	"context"
	"errors"
	"fmt"
	"io"
	"strings"
	"testing"
	"time"

	"github.com/ClickHouse/ch-go"
	"github.com/ClickHouse/ch-go/proto"
	"pgregory.net/rapid"

	"verif/harness/gen"
	"verif/harness/ref"
	"verif/harness/simnet"
	"verif/harness/stats"
)

type c09round struct {
	action string // append | reset-append | overwrite | unchanged
	rows   [][]ref.Val
	ret    string // nil | eof | wrapped-eof | error
}

func TestC09StreamedInsert(t *testing.T) {
	st := stats.G()
	rapid.Check(t, func(rt *rapid.T) {
		rapid.SyncTest(rt, func(rt *rapid.T) { runC09(rt, st) })
	})
}

func runC09(rt *rapid.T, st *stats.Collector) {
	clientRev, serverRev := drawRevs(rt)
	comp := drawComp(rt)
	ncols := rapid.IntRange(1, 3).Draw(rt, "ncols")
	// One history in sixty has a round of exactly 127..129 or 16383..16385 rows (the counts in the
	// block header change width there), over one or two plain columns.
	manyRows := rapid.IntRange(0, 59).Draw(rt, "many-rows") == 0
	if manyRows {
		ncols = rapid.IntRange(1, 2).Draw(rt, "ncols-many-rows")
	}
	var cols []inputCol
	zc, prep := false, false
	for i := 0; i < ncols; i++ {
		k := gen.DrawKind(rt, "kind")
		if manyRows {
			k = gen.ByName[rapid.SampledFrom([]string{"UInt8|X|UInt8", "String|X|String", "UInt64|X|UInt64"}).Draw(rt, "plain-kind")]
			zc = zc || k.ZeroCopy
			cols = append(cols, inputCol{name: fmt.Sprintf("c%d", i), kind: k, col: k.New()})
			continue
		}
		switch rapid.IntRange(0, 5).Draw(rt, "prefer-zero-copy") {
		case 0, 1:
			var zs []*gen.Kind
			for _, x := range gen.Kinds {
				if x.ZeroCopy && (x.Shape == "X" || x.Shape == "Array(X)" || x.Shape == "Nullable(X)") {
					zs = append(zs, x)
				}
			}
			k = zs[rapid.IntRange(0, len(zs)-1).Draw(rt, "zc-kind")]
		case 2:
			// Columns that derive what they send in Prepare (Enum names -> raw values,
			// LowCardinality values -> dictionary + keys): the derived state survives rounds.
			var ps []*gen.Kind
			for _, x := range gen.Kinds {
				if x.Prep && (x.Shape == "X" || x.Shape == "LowCardinality(X)") {
					ps = append(ps, x)
				}
			}
			k = ps[rapid.IntRange(0, len(ps)-1).Draw(rt, "prep-kind")]
		}
		zc = zc || k.ZeroCopy
		prep = prep || k.Prep
		cols = append(cols, inputCol{name: fmt.Sprintf("c%d", i), kind: k, col: k.New()})
	}
	// One history in thirty carries a block of more than a mebibyte (an incompressible String
	// value), mostly as the tail sent together with io.EOF: size thresholds in the write path.
	huge := rapid.IntRange(0, 29).Draw(rt, "huge-block") == 0
	var hugeVal []byte
	if huge {
		k := gen.ByName["String|X|String"]
		cols[0] = inputCol{name: "c0", kind: k, col: k.New()}
		x := rapid.Uint64().Draw(rt, "huge-seed") | 1
		// sizes around the buffer sizes and thresholds of the write path (4 KiB .. 1 MiB and more)
		hugeVal = make([]byte, rapid.SampledFrom([]int{1 << 20, 1 << 20, 1 << 20, 4 << 10, 16 << 10, 64 << 10, 128 << 10, 512 << 10}).Draw(rt, "huge-size")+rapid.IntRange(-40, 300_000).Draw(rt, "huge-extra"))
		for i := range hugeVal {
			x ^= x << 13
			x ^= x >> 7
			x ^= x << 17
			hugeVal[i] = byte(x >> 32)
		}
	}
	drawRows := func(n int) [][]ref.Val {
		out := make([][]ref.Val, ncols)
		for i, c := range cols {
			out[i] = gen.DrawRows(rt, c.kind, n)
		}
		return out
	}
	initial := rapid.SampledFrom([]int{0, 0, 1, 2, 3}).Draw(rt, "initial-rows")
	model := drawRows(initial)
	for i, c := range cols {
		c.col.AppendBulk(model[i])
	}
	withResult := rapid.Bool().Draw(rt, "result-bound")
	nrounds := rapid.IntRange(1, 5).Draw(rt, "rounds")
	var rounds []c09round
	for r := 0; r < nrounds; r++ {
		rd := c09round{action: rapid.SampledFrom([]string{"append", "reset-append", "overwrite", "unchanged", "reset-append"}).Draw(rt, "action")}
		switch rd.action {
		case "append", "reset-append":
			n := rapid.IntRange(0, 3).Draw(rt, "n")
			if manyRows && rapid.IntRange(0, 1).Draw(rt, "this-round") == 0 {
				n = rapid.SampledFrom([]int{127, 128, 129, 16383, 16384, 16385}).Draw(rt, "row-count")
				rd.action = "reset-append"
			}
			rd.rows = drawRows(n)
		}
		rd.ret = "nil"
		if r == nrounds-1 {
			rd.ret = rapid.SampledFrom([]string{"eof", "eof", "wrapped-eof", "error"}).Draw(rt, "return")
		}
		rounds = append(rounds, rd)
	}
	if huge {
		hr := nrounds - 1
		if rapid.IntRange(0, 2).Draw(rt, "huge-round-anywhere") == 0 {
			hr = rapid.IntRange(0, nrounds-1).Draw(rt, "huge-round")
		}
		rd := &rounds[hr]
		if rd.action != "append" && rd.action != "reset-append" {
			rd.action = "reset-append"
		}
		if rd.rows == nil || len(rd.rows[0]) == 0 {
			rd.rows = drawRows(1)
		}
		rd.rows[0][0] = hugeVal
	}

	snapshot := func() [][]ref.Val {
		out := make([][]ref.Val, ncols)
		for i := range model {
			out[i] = append([]ref.Val(nil), model[i]...)
		}
		return out
	}
	// Expected blocks per the statement.
	var want [][][]ref.Val
	if initial > 0 {
		want = append(want, snapshot())
	}
	errCallback := errors.New("input callback failed")
	round := 0
	inPlace := 0
	overwriteSeen, resetSeen := false, false
	var expectErr bool
	// Pre-compute what each round does to the model (the callback replays it on the columns).
	type planned struct {
		rd   c09round
		post [][]ref.Val
	}
	var plan []planned
	{
		cur := snapshot()
		for ri, rd := range rounds {
			switch rd.action {
			case "append":
				for i := range cur {
					cur[i] = append(cur[i], rd.rows[i]...)
				}
			case "reset-append":
				for i := range cur {
					cur[i] = append([]ref.Val(nil), rd.rows[i]...)
				}
				resetSeen = resetSeen || ri > 0 || initial > 0
			case "overwrite":
				// same number of rows, new values, written over the same memory
				n := len(cur[0])
				fresh := drawRows(n)
				for i := range cur {
					cur[i] = fresh[i]
				}
				rd.rows = fresh
				overwriteSeen = overwriteSeen || n > 0
			}
			cp := make([][]ref.Val, ncols)
			for i := range cur {
				cp[i] = append([]ref.Val(nil), cur[i]...)
			}
			plan = append(plan, planned{rd: rd, post: cp})
			rows := len(cur[0])
			switch rd.ret {
			case "nil":
				want = append(want, cp)
			case "eof", "wrapped-eof":
				if rows > 0 {
					want = append(want, cp)
				}
			case "error":
				expectErr = true
			}
		}
	}

	e := newEnv(serverRev)
	e.warm = rapid.SampledFrom(warmKinds).Draw(rt, "earlier-exchange")
	defer e.conn.ForceClose()
	if !withResult {
		e.srv.Steps = append(e.srv.Steps, itemStep(headerItem(cols), simnet.AfterQuery(1), comp.Method, nil))
	}
	e.srv.Steps = append(e.srv.Steps, itemStep(Item{Kind: "eos"}, simnet.AfterInputEnd, 0, nil))
	client, err := e.connect(context.Background(), baseOptions(clientRev, comp))
	if err != nil {
		rt.Fatalf("connect: %v", err)
	}
	q := ch.Query{Body: "INSERT INTO t VALUES", Input: protoInput(cols)}
	if withResult {
		q.Result = proto.Results{}
		q.OnResult = func(ctx context.Context, b proto.Block) error { return nil }
	}
	q.OnInput = func(ctx context.Context) error {
		if round >= len(plan) {
			return io.EOF
		}
		p := plan[round]
		round++
		switch p.rd.action {
		case "append":
			for i, c := range cols {
				for _, v := range p.rd.rows[i] {
					c.col.Append(v)
				}
			}
		case "reset-append":
			for i, c := range cols {
				c.col.Column().Reset()
				c.col.AppendBulk(p.rd.rows[i])
			}
		case "overwrite":
			// A direct write into the column's own memory where its representation allows it
			// (no Reset, so caches of Preparable columns see no signal); otherwise Reset + re-append,
			// which rewrites the same backing memory.
			for i, c := range cols {
				ow, can := c.col.(gen.Overwriter)
				done := can
				if can {
					for r, v := range p.rd.rows[i] {
						if !ow.Overwrite(r, v) {
							done = false
							break
						}
					}
				}
				if done {
					inPlace++
					continue
				}
				c.col.Column().Reset()
				c.col.AppendBulk(p.rd.rows[i])
			}
		}
		switch p.rd.ret {
		case "eof":
			return io.EOF
		case "wrapped-eof":
			return fmt.Errorf("no more data: %w", io.EOF)
		case "error":
			return errCallback
		}
		return nil
	}
	derr := doBounded(rt, e, client, context.Background(), q, 2*time.Minute, "streamed insert")

	describe := func() string {
		var rs []string
		for _, p := range plan {
			rs = append(rs, fmt.Sprintf("%s→%s(%d rows after)", p.rd.action, p.rd.ret, len(p.post[0])))
		}
		return fmt.Sprintf("types %v, initial rows %d, rounds [%s], %s, result-bound=%v, negotiated %d", typeList(cols), initial, strings.Join(rs, ", "), comp.Name, withResult, min(clientRev, serverRev))
	}
	if expectErr {
		if !errors.Is(derr, errCallback) {
			rt.Fatalf("callback failed, Do returned %v (callback error not reachable)\n%s", derr, describe())
		}
	} else if derr != nil {
		rt.Fatalf("Do: %v\n%s", derr, describe())
	}
	// Judge the client stream (Cancel byte after a callback error is parsed as a packet).
	e.srv.WithStream(func(cs *ref.ClientStream) {
		if cs.Err != nil && !expectErr {
			rt.Fatalf("client stream not well-formed: %v\n%s", cs.Err, describe())
		}
		data := cs.DataSinceQuery()
		if len(data) == 0 {
			rt.Fatalf("no data packets\n%s", describe())
		}
		data = data[1:] // end of external data
		var blocks []ref.Packet
		terminators := 0
		for _, p := range data {
			if len(p.Block.Columns) == 0 && p.Block.Rows() == 0 {
				terminators++
				continue
			}
			if terminators > 0 {
				rt.Fatalf("a data block follows the terminator\n%s", describe())
			}
			blocks = append(blocks, p)
		}
		if expectErr {
			if terminators != 0 {
				rt.Fatalf("after a callback error %d terminator(s) were written\n%s", terminators, describe())
			}
		} else if terminators != 1 {
			rt.Fatalf("%d terminator blocks written, want exactly 1\n%s", terminators, describe())
		}
		if len(blocks) != len(want) {
			var got []int
			for _, b := range blocks {
				got = append(got, b.Block.Rows())
			}
			var w []int
			for _, b := range want {
				w = append(w, len(b[0]))
			}
			rt.Fatalf("server received %d blocks (rows %v), want %d (rows %v)\n%s", len(blocks), got, len(want), w, describe())
		}
		for bi, p := range blocks {
			mb := &ref.Block{}
			for i, c := range cols {
				mb.Columns = append(mb.Columns, ref.Column{Name: c.name, T: c.kind.T, Rows: want[bi][i]})
			}
			if err := ref.BlockEqual(mb, p.Block); err != nil {
				rt.Fatalf("block %d on the wire differs from the column contents when that round began: %v\n%s", bi, err, describe())
			}
			if p.Compressed != (comp.Method != 0) {
				rt.Fatalf("block %d compressed=%v with %s", bi, p.Compressed, comp.Name)
			}
		}
	})
	nt := len(plan) >= 2 && (resetSeen || overwriteSeen) && zc
	st.Case(stats.Hash("c09", describe(), string(e.conn.WrittenBytes())), nt, func() any {
		return map[string]any{"kind": "insert-history", "history": describe()}
	})
	if huge {
		st.Label("large-block")
	}
	st.Label("earlier-exchange:" + e.warm)
	if zc {
		st.Label("zero-copy-column")
	}
	if prep {
		st.Label("preparable-column")
	}
	if expectErr {
		st.Label("callback-error")
	}
	if inPlace > 0 {
		st.Label("true-in-place-overwrite")
	}
	if initial == 0 {
		st.Label("initial-rows=0")
	}
}
