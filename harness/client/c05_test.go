package client

// C05 (client level) — a corrupted compressed Data packet surfaces as
// *ch.CorruptedDataErr and no row of the corrupted block reaches the caller.

import (
	"context"
	"errors"
	"fmt"
	"testing"
	"time"

	"github.com/ClickHouse/ch-go"
	"github.com/ClickHouse/ch-go/proto"
	"pgregory.net/rapid"

	"verif/harness/gen"
	"verif/harness/ref"
	"verif/harness/simnet"
	"verif/harness/stats"
)

func TestC05ClientCorruptedFrame(t *testing.T) {
	st := stats.G()
	rapid.Check(t, func(rt *rapid.T) {
		rapid.SyncTest(rt, func(rt *rapid.T) {
			comp := compModes[rapid.IntRange(1, len(compModes)-1).Draw(rt, "compression")]
			clientRev, serverRev := drawRevs(rt)
			N := min(clientRev, serverRev)
			kinds, blk := drawBlockFor(rt, 2, 4)
			if blk.Rows() == 0 {
				for i := range blk.Columns {
					blk.Columns[i].Rows = gen.DrawRows(rt, kinds[i], 1)
				}
			}
			// the altered frame belongs to a Data or to a Totals packet (both carry compressed blocks)
			badKind := rapid.SampledFrom([]string{"data", "data", "totals"}).Draw(rt, "altered-packet")
			good := Item{Kind: "data", Block: blk}.Encode(N, comp.Method)
			goodBad := Item{Kind: badKind, Block: blk}.Encode(N, comp.Method)
			// Alter one byte of the frame (after code byte and empty table name = 2 bytes), length fields intact.
			frameStart := 2
			off := rapid.IntRange(0, len(good)-frameStart-1).Draw(rt, "offset")
			for off >= 17 && off <= 24 {
				off = (off + 9) % (len(good) - frameStart)
			}
			mask := byte(rapid.IntRange(1, 255).Draw(rt, "mask"))
			bad := append([]byte(nil), goodBad...)
			bad[frameStart+off] ^= mask
			e := newEnv(serverRev)
			defer e.conn.ForceClose()
			nGood := rapid.IntRange(0, 2).Draw(rt, "good-blocks-before")
			for i := 0; i < nGood; i++ {
				var when func(*ref.ClientStream) bool
				if i == 0 {
					when = simnet.AfterQuery(1)
				}
				e.srv.Steps = append(e.srv.Steps, simnet.Step{Name: "data", When: when, Bytes: func(*ref.ClientStream) []byte { return good }})
			}
			var when func(*ref.ClientStream) bool
			if nGood == 0 {
				when = simnet.AfterQuery(1)
			}
			e.srv.Steps = append(e.srv.Steps, simnet.Step{Name: "corrupted", When: when, Bytes: func(*ref.ClientStream) []byte { return bad },
				Then: func(cn *simnet.Conn) { cn.FailReads(errors.New("EOF")) }})
			client, err := e.connect(context.Background(), baseOptions(clientRev, comp))
			if err != nil {
				rt.Fatalf("connect: %v", err)
			}
			var res proto.Results
			var cols []gen.Col
			for i, k := range kinds {
				c := k.New()
				cols = append(cols, c)
				res = append(res, proto.ResultColumn{Name: blk.Columns[i].Name, Data: c.Column()})
			}
			calls := 0
			q := ch.Query{Body: "SELECT x", Result: res, OnResult: func(ctx context.Context, b proto.Block) error { calls++; return nil }}
			derr := doBounded(rt, e, client, context.Background(), q, time.Minute, "corrupted frame")
			if derr == nil {
				rt.Fatalf("Do returned nil although a compressed block was altered at frame offset %d (mask %#x, %s)", off, mask, comp.Name)
			}
			var ce *ch.CorruptedDataErr
			if !errors.As(derr, &ce) {
				rt.Fatalf("altered frame (offset %d, length fields intact) surfaces as %q, want *ch.CorruptedDataErr", off, derr)
			}
			if ce.Actual == ce.Reference {
				rt.Fatalf("CorruptedDataErr carries equal checksums")
			}
			if calls != nGood {
				rt.Fatalf("OnResult ran %d times, %d intact blocks preceded the corrupted one", calls, nGood)
			}
			st.Case(stats.Hash("c05c", string(bad), comp.Name, N), true, func() any {
				return map[string]any{"kind": "client-corrupted-frame", "compression": comp.Name, "negotiated": N, "frame_offset": off, "mask": fmt.Sprintf("%#x", mask), "good_blocks_before": nGood, "altered_packet": badKind}
			})
		})
	})
}

// TestC05ClientProducedFrames: the frames the client writes - blocks with a large incompressible
// value among them, external data and streamed input included - are each one checksummed frame that
// verifies and decompresses to the block that was encoded (the reference parser of the client
// stream checks every frame; the blocks are compared with the model as in C02).
func TestC05ClientProducedFrames(t *testing.T) {
	st := stats.G()
	c02BigCompressed = true
	defer func() { c02BigCompressed = false }()
	rapid.Check(t, func(rt *rapid.T) {
		rapid.SyncTest(rt, func(rt *rapid.T) { runC02(rt, st) })
	})
}
