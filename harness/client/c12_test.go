package client

// C12 — no data race inside the library. The scenario generators of the other
// client checks are re-run UNGATED (a channel hand-off per gate would add
// happens-before edges and hide races) on the direction-independent simulated
// connection, in a binary built with -race; the driver parses the detector's
// reports and keeps those with a ch-go (non-test) frame.

import (
	"context"
	"fmt"
	"io"
	"runtime"
	"sync"
	"sync/atomic"
	"testing"
	"time"

	"github.com/ClickHouse/ch-go"
	"github.com/ClickHouse/ch-go/proto"
	"pgregory.net/rapid"

	"verif/harness/gen"
	"verif/harness/ref"
	"verif/harness/simnet"
	"verif/harness/stats"
)

// raceZones: many zone names, so that "first use of a zone" keeps happening during a run.
var raceZones = []string{"Asia/Kathmandu", "Atlantic/Reykjavik", "America/St_Johns", "Pacific/Chatham", "Europe/Berlin", "Asia/Tokyo", "Asia/Kolkata",
	"Europe/Moscow", "Europe/London", "Europe/Paris", "Europe/Madrid", "Europe/Rome", "Europe/Vienna", "Europe/Warsaw", "Europe/Kyiv", "Europe/Istanbul",
	"America/New_York", "America/Chicago", "America/Denver", "America/Los_Angeles", "America/Anchorage", "America/Sao_Paulo", "America/Bogota", "America/Lima",
	"America/Mexico_City", "America/Toronto", "America/Vancouver", "America/Halifax", "America/Caracas", "America/Santiago", "Africa/Cairo", "Africa/Lagos",
	"Africa/Nairobi", "Africa/Johannesburg", "Africa/Casablanca", "Asia/Dubai", "Asia/Tehran", "Asia/Karachi", "Asia/Dhaka", "Asia/Bangkok", "Asia/Jakarta",
	"Asia/Shanghai", "Asia/Hong_Kong", "Asia/Singapore", "Asia/Seoul", "Asia/Manila", "Asia/Yangon", "Asia/Tashkent", "Asia/Almaty", "Asia/Vladivostok",
	"Australia/Sydney", "Australia/Perth", "Australia/Adelaide", "Australia/Lord_Howe", "Pacific/Auckland", "Pacific/Honolulu", "Pacific/Fiji", "Pacific/Apia",
	"Atlantic/Azores", "Indian/Maldives"}

func TestC12ClientRaces(t *testing.T) {
	st := stats.G()
	defer func() { otelOn = false }()
	rapid.Check(t, func(rt *rapid.T) {
		otelOn = rapid.Bool().Draw(rt, "otel")
		scen := rapid.SampledFrom([]string{"script", "script", "stream-insert-telemetry", "stream-insert-telemetry", "foreign-close", "cancel", "ping-after",
			"surplus-headers", "cancel+foreign-close", "nested-queries", "string-consumer"}).Draw(rt, "scenario")
		rapid.SyncTest(rt, func(rt *rapid.T) {
			switch scen {
			case "script":
				s := drawScript(rt)
				out, e := runScript(rt, s, nil, nil)
				_ = out
				e.conn.ForceClose()
			case "string-consumer":
				raceStrings(rt)
			default:
				raceInsert(rt, scen)
			}
		})
		st.Case(stats.Hash("c12", scen, otelOn, rapid.Uint64().Draw(rt, "salt")), scen != "script", func() any {
			return map[string]any{"kind": "race-scenario", "scenario": scen, "otel": otelOn}
		})
		st.Label("scenario:" + scen)
		if otelOn {
			st.Label("otel")
		}
	})
}

// raceInsert: streamed insert while the server streams progress and telemetry,
// optionally with Close from a foreign goroutine or a cancellation.
func raceInsert(rt *rapid.T, scen string) {
	comp := compModes[rapid.SampledFrom([]int{0, 2, 3}).Draw(rt, "compression")]
	e := newEnv(54460)
	e.warm = rapid.SampledFrom(warmKinds).Draw(rt, "earlier-exchange")
	defer e.conn.ForceClose()
	cols := drawInput(rt, "col", 2, 1)
	// One run in three: zone-parameterised time types on both sides at once - an input column the
	// sender infers from the column info, telemetry time columns the receiver infers.
	zone, zoneIn := "", ""
	if rapid.IntRange(0, 2).Draw(rt, "zoned-times") == 0 {
		zone = rapid.SampledFrom(raceZones).Draw(rt, "zone")
		zoneIn = rapid.SampledFrom(raceZones).Draw(rt, "input-zone")
		k := gen.ByName["DateTime('UTC')|X|DateTime"]
		if k != nil {
			rows := gen.DrawRows(rt, k, len(cols[0].rows))
			cols[0] = inputCol{name: cols[0].name, kind: k, rows: rows, col: k.New()}
			cols[0].col.AppendBulk(rows)
		}
	}
	rounds := rapid.IntRange(2, 5).Draw(rt, "rounds")
	m := comp.Method
	hdr := headerItem(cols)
	if zoneIn != "" && cols[0].kind.Scalar == "DateTime" {
		// the server announces its own zone for the column; the sender adopts it
		hdr.Block.Columns[0].T = ref.Fixed("DateTime('"+zoneIn+"')", 4)
	}
	e.srv.Steps = append(e.srv.Steps,
		itemStep(hdr, simnet.AfterQuery(1), m, nil))
	if scen == "surplus-headers" {
		// redundant column-info blocks right behind the first one, while the sender is still using it
		for i := 0; i < 3; i++ {
			e.srv.Steps = append(e.srv.Steps, itemStep(headerItem(cols), nil, m, nil))
		}
	}
	for i := 1; i <= rounds; i++ {
		e.srv.Steps = append(e.srv.Steps,
			itemStep(Item{Kind: "progress", Progress: ref.Progress{Rows: uint64(i), Bytes: 10}}, simnet.AfterDataBlocks(i), 0, nil),
			itemStep(Item{Kind: "profileevents", Zone: zone, Events: []profEvent{{Host: "h", Type: 1, Name: "InsertedRows", Value: uint64(i)}}}, nil, 0, nil),
			itemStep(Item{Kind: "log", Zone: zone, Logs: []logRow{{Time: 1, Host: "h", QueryID: "q", Source: "s", Text: "t"}}}, nil, 0, nil))
	}
	e.srv.Steps = append(e.srv.Steps, itemStep(Item{Kind: "eos"}, simnet.AfterInputEnd, 0, nil))
	opt := baseOptions(54460, comp)
	opt.ReadTimeout = 200 * time.Millisecond
	// nested-queries: the callbacks of this (instrumented) query run queries of their own on other
	// clients - one client per calling goroutine, not instrumented - under the context they were given.
	var nested [2]*ch.Client
	if scen == "nested-queries" {
		opt.OpenTelemetryInstrumentation = true
		for i := range nested {
			e2 := newEnv(54460)
			defer e2.conn.ForceClose()
			for j := 1; j <= 16; j++ {
				e2.srv.Steps = append(e2.srv.Steps,
					itemStep(Item{Kind: "data", Block: &ref.Block{Columns: []ref.Column{{Name: "n", T: ref.Fixed("UInt8", 1), Rows: []ref.Val{[]byte{byte(j)}}}}}}, simnet.AfterQuery(j), 0, nil),
					itemStep(Item{Kind: "progress", Progress: ref.Progress{Rows: 1, Bytes: 1}}, nil, 0, nil),
					itemStep(Item{Kind: "eos"}, nil, 0, nil))
			}
			o2 := baseOptions(54460, compModes[0])
			o2.OpenTelemetryInstrumentation = false
			c2, err := e2.connect(context.Background(), o2)
			if err != nil {
				rt.Fatalf("connect (nested client): %v", err)
			}
			defer c2.Close()
			nested[i] = c2
		}
	}
	var nestedRuns [2]int
	runNested := func(ctx context.Context, i int) {
		if nested[i] == nil || nestedRuns[i] >= 15 {
			return
		}
		nestedRuns[i]++
		var res proto.Results
		_ = nested[i].Do(ctx, ch.Query{Body: "SELECT n FROM other", Result: res.Auto(), OnProgress: func(context.Context, proto.Progress) error { return nil }})
	}
	client, err := e.connect(context.Background(), opt)
	if err != nil {
		rt.Fatalf("connect: %v", err)
	}
	ctx, cancel := context.WithCancel(context.Background())
	defer cancel()
	// rapid.T is not goroutine-safe: the yield decisions are drawn up front.
	yields := rapid.SliceOfN(rapid.Bool(), 64, 64).Draw(rt, "yields")
	var yi atomic.Int64
	jitter := func() {
		if yields[int(yi.Add(1))%len(yields)] {
			runtime.Gosched()
		}
	}
	round := 0
	q := ch.Query{Body: "INSERT INTO t VALUES", Input: protoInput(cols),
		OnInput: func(ctx context.Context) error {
			jitter()
			runNested(ctx, 0)
			round++
			if round >= rounds {
				for _, c := range cols {
					c.col.Column().Reset()
				}
				return io.EOF
			}
			for _, c := range cols {
				c.col.Column().Reset()
				c.col.AppendBulk(c.rows)
			}
			return nil
		},
		OnProgress:      func(ctx context.Context, p proto.Progress) error { jitter(); runNested(ctx, 1); return nil },
		OnProfileEvents: func(ctx context.Context, e []ch.ProfileEvent) error { jitter(); runNested(ctx, 1); return nil },
		OnLogs:          func(ctx context.Context, l []ch.Log) error { return nil },
	}
	if rapid.Bool().Draw(rt, "rich-query") {
		// per-query settings, parameters and an external table the client has to name itself
		q.Settings = drawChSettings(rt, "query-setting")
		q.Parameters = []proto.Parameter{{Key: "p", Value: "1"}}
		ext := drawInput(rt, "ext", 1, 1)
		q.ExternalData = protoInput(ext)
		q.ExternalTable = rapid.SampledFrom([]string{"", "", "_x"}).Draw(rt, "ext-table")
		q.QuotaKey, q.InitialUser, q.Secret = "qk", "u", "s"
	}
	var wg sync.WaitGroup
	foreign := time.Duration(rapid.IntRange(0, 2000).Draw(rt, "foreign-delay-us")) * time.Microsecond
	switch scen {
	case "foreign-close":
		wg.Add(1)
		go func() { defer wg.Done(); time.Sleep(foreign); _ = client.Close() }()
	case "cancel":
		wg.Add(1)
		go func() { defer wg.Done(); time.Sleep(foreign); cancel() }()
	case "cancel+foreign-close":
		// cancellation (the library closes the client itself) and a foreign Close at the same instant
		wg.Add(2)
		go func() { defer wg.Done(); time.Sleep(foreign); cancel() }()
		go func() { defer wg.Done(); time.Sleep(foreign); _ = client.Close(); _ = client.IsClosed() }()
	}
	done := make(chan struct{})
	go func() { defer close(done); _ = client.Do(ctx, q) }()
	select {
	case <-done:
	case <-time.After(2 * time.Minute):
		e.conn.ForceClose()
		cancel()
		<-done
		rt.Fatalf("race scenario %s: Do did not return", scen)
	}
	wg.Wait()
	if scen == "ping-after" && !client.IsClosed() {
		e.srv.AutoPong = true
		_ = client.Ping(context.Background())
		_ = client.IsClosed()
		_ = client.ServerInfo()
	}
	_ = client.Close()
	_ = fmt.Sprint
}

// raceStrings: a result of several blocks with String columns; OnResult walks the rows with the
// columns' accessors (ForEach, Row, First) and hands the strings it gets - Go strings, immutable
// values - to a worker goroutine that reads them while the query goes on decoding later blocks.
func raceStrings(rt *rapid.T) {
	comp := compModes[rapid.SampledFrom([]int{0, 2}).Draw(rt, "compression")]
	e := newEnv(54460)
	defer e.conn.ForceClose()
	nblocks := rapid.IntRange(2, 5).Draw(rt, "blocks")
	rows := rapid.IntRange(1, 4).Draw(rt, "rows")
	width := rapid.SampledFrom([]int{1, 8, 40, 300}).Draw(rt, "value-bytes")
	k := gen.ByName["String|X|String"]
	for b := 0; b < nblocks; b++ {
		var vals []ref.Val
		for i := 0; i < rows; i++ {
			vals = append(vals, gen.Expand(uint64(b*100+i+1), width))
		}
		var when func(*ref.ClientStream) bool
		if b == 0 {
			when = simnet.AfterQuery(1)
		}
		e.srv.Steps = append(e.srv.Steps, itemStep(Item{Kind: "data", Block: &ref.Block{Columns: []ref.Column{{Name: "s", T: k.T, Rows: vals}}}}, when, comp.Method, nil))
	}
	e.srv.Steps = append(e.srv.Steps, itemStep(Item{Kind: "eos"}, nil, 0, nil))
	client, err := e.connect(context.Background(), baseOptions(54460, comp))
	if err != nil {
		rt.Fatalf("connect: %v", err)
	}
	defer client.Close()
	var col proto.ColStr
	work := make(chan string, 1024)
	var sum atomic.Int64
	var wg sync.WaitGroup
	wg.Add(1)
	go func() {
		defer wg.Done()
		for s := range work {
			runtime.Gosched()
			// (a copy, not indexing: the compiler does not instrument loads from string data,
			// the runtime's copy routines do)
			own := append([]byte(nil), s...)
			sum.Add(int64(len(own)))
		}
	}()
	how := rapid.SampledFrom([]string{"ForEach", "Row", "First"}).Draw(rt, "accessor")
	q := ch.Query{Body: "SELECT s FROM t", Result: proto.Results{{Name: "s", Data: &col}},
		OnResult: func(ctx context.Context, b proto.Block) error {
			switch how {
			case "ForEach":
				return col.ForEach(func(i int, s string) error { work <- s; return nil })
			case "Row":
				for i := 0; i < col.Rows(); i++ {
					work <- col.Row(i)
				}
			case "First":
				if col.Rows() > 0 {
					work <- col.First()
				}
			}
			return nil
		}}
	done := make(chan struct{})
	var derr error
	go func() { defer close(done); derr = client.Do(context.Background(), q) }()
	select {
	case <-done:
	case <-time.After(2 * time.Minute):
		e.conn.ForceClose()
		<-done
		rt.Fatalf("string-consumer: Do did not return")
	}
	close(work)
	wg.Wait()
	if derr != nil {
		rt.Fatalf("string-consumer: %d blocks of %d rows: %v", nblocks, rows, derr)
	}
}
