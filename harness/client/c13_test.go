package client

// C13 — handshake negotiates min(client, server) and fails cleanly.

import (
	"context"
	"errors"
	"fmt"
	"net"
	"strings"
	"testing"
	"testing/synctest"
	"time"

	"github.com/ClickHouse/ch-go"
	"github.com/ClickHouse/ch-go/proto"
	"pgregory.net/rapid"

	"verif/harness/ref"
	"verif/harness/simnet"
	"verif/harness/stats"
)

type simDialer struct {
	conn   *simnet.Conn
	dials  int
	onDial func() // runs just before the connection is handed to the library
}

func (d *simDialer) DialContext(ctx context.Context, network, address string) (net.Conn, error) {
	d.dials++
	if d.onDial != nil {
		d.onDial()
	}
	return d.conn, nil
}

var credStr = rapid.OneOf(
	rapid.Just(""), rapid.StringMatching(`[a-zA-Z0-9_]{1,12}`),
	rapid.Map(rapid.SliceOfN(rapid.Byte(), 1, 24), func(b []byte) string { return string(b) }),
	rapid.Map(rapid.IntRange(127, 300), func(n int) string { return strings.Repeat("p", n) }),
)

type c13case struct {
	clientRev, serverRev        int
	answer                      string
	delay                       time.Duration
	closeFails                  bool
	readTimeout, handshakeTO    time.Duration
	db, user, pass, quota, name string
	viaDial                     bool
	chain                       []ref.Exception
	comp                        compMode
	splitAt                     []int           // hello-split: cut positions as per-mille of the hello's length
	gaps                        []time.Duration // hello-split: pause before each later piece
}

func drawExceptionChain(rt *rapid.T, maxDepth int) []ref.Exception {
	n := rapid.IntRange(1, maxDepth).Draw(rt, "chain-depth")
	var out []ref.Exception
	for i := 0; i < n; i++ {
		out = append(out, ref.Exception{
			Code:    rapid.OneOf(rapid.Int32Range(1, 1100), rapid.Int32()).Draw(rt, "code"),
			Name:    rapid.SampledFrom([]string{"DB::Exception", "DB::NetException", "", "std::exception"}).Draw(rt, "ename"),
			Message: rapid.SampledFrom([]string{"DB::Exception: Table x doesn't exist", "boom", "", "DB::NetException: \xff\xfe broken pipe"}).Draw(rt, "emsg"),
			Stack:   rapid.SampledFrom([]string{"", "0. main()\n1. start()"}).Draw(rt, "estack"),
		})
	}
	// Rarely a text longer than any read buffer (servers do send stack traces and messages of any length).
	if rapid.IntRange(0, 15).Draw(rt, "very-long-exception-text") == 0 {
		long := strings.Repeat("#7 DB::executeQuery(...) @ 0x0000000012345678\n", rapid.SampledFrom([]int{2900, 2915, 5000}).Draw(rt, "stack-lines"))
		if rapid.Bool().Draw(rt, "in-message") {
			out[len(out)-1].Message = long[:rapid.SampledFrom([]int{131071, 131072, 131073, len(long)}).Draw(rt, "message-bytes")]
		} else {
			out[0].Stack = long
		}
	}
	return out
}

func TestC13Handshake(t *testing.T) {
	st := stats.G()
	rapid.Check(t, func(rt *rapid.T) {
		cr, sr := drawRevs(rt)
		c := c13case{
			clientRev: cr, serverRev: sr,
			answer: rapid.SampledFrom([]string{"hello", "hello", "hello-delayed", "hello-delayed", "hello-split", "hello-split", "exception", "wrong-packet", "garbage",
				"truncated-hello-cut", "truncated-then-silence", "cut", "silence"}).Draw(rt, "answer"),
			readTimeout: rapid.SampledFrom([]time.Duration{0, 50 * time.Millisecond, time.Second}).Draw(rt, "read-timeout"),
			handshakeTO: rapid.SampledFrom([]time.Duration{0, 10 * time.Second, 2 * time.Second}).Draw(rt, "handshake-timeout"),
			db:          credStr.Draw(rt, "db"), user: credStr.Draw(rt, "user"), pass: credStr.Draw(rt, "pass"), quota: credStr.Draw(rt, "quota"),
			name:       rapid.SampledFrom([]string{"", "myapp", "x y"}).Draw(rt, "client-name"),
			viaDial:    rapid.Bool().Draw(rt, "via-dial"),
			comp:       drawComp(rt),
			closeFails: rapid.IntRange(0, 3).Draw(rt, "close-returns-error") == 0,
		}
		effRead := c.readTimeout
		if effRead == 0 {
			effRead = ch.DefaultReadTimeout
		}
		effHS := c.handshakeTO
		if effHS == 0 {
			effHS = ch.DefaultHandshakeTimeout
		}
		if c.answer == "hello-delayed" {
			c.delay = rapid.SampledFrom([]time.Duration{effRead - time.Millisecond, effRead, effRead + time.Millisecond, 2 * effRead, effHS - time.Millisecond, effHS / 2}).Draw(rt, "delay")
			if c.delay >= effHS {
				c.delay = effHS - time.Millisecond
			}
		}
		if c.answer == "hello-split" {
			// The hello arrives in 2-3 pieces with pauses longer than the read timeout between
			// them; all of it is there before the handshake timeout.
			pieces := rapid.IntRange(2, 3).Draw(rt, "pieces")
			budget := effHS - 2*time.Millisecond
			for i := 1; i < pieces; i++ {
				c.splitAt = append(c.splitAt, rapid.SampledFrom([]int{0, 1, 500, 999, 1000, rapid.IntRange(2, 998).Draw(rt, "cut-pm")}).Draw(rt, "cut"))
				g := rapid.SampledFrom([]time.Duration{time.Millisecond, effRead + time.Millisecond, 2 * effRead, 5 * effRead, effHS / 3}).Draw(rt, "gap")
				g = min(g, budget/time.Duration(pieces-1))
				c.gaps = append(c.gaps, g)
			}
		}
		if c.answer == "exception" {
			c.chain = drawExceptionChain(rt, 4)
		}
		rapid.SyncTest(rt, func(rt *rapid.T) { runC13(rt, c, st) })
	})
}

func runC13(rt *rapid.T, c c13case, st *stats.Collector) {
	e := newEnv(c.serverRev)
	defer e.conn.ForceClose()
	N := min(c.clientRev, c.serverRev)
	hello := e.helloStep()
	switch c.answer {
	case "hello":
	case "hello-delayed":
		hello.Delay = c.delay
	case "hello-split":
	case "exception":
		hello = simnet.Step{Name: "exception", When: simnet.AfterHello, Bytes: func(*ref.ClientStream) []byte { return Item{Kind: "exception", Exc: c.chain}.Encode(N, 0) }}
	case "wrong-packet":
		hello = simnet.Step{Name: "wrong", When: simnet.AfterHello, Bytes: func(*ref.ClientStream) []byte {
			return Item{Kind: []string{"pong", "eos", "progress"}[c.clientRev%3]}.Encode(N, 0)
		}}
	case "garbage":
		hello = simnet.Step{Name: "garbage", When: simnet.AfterHello, Bytes: func(*ref.ClientStream) []byte {
			return []byte{0xff, 0xff, 0xff, 0xff, 0xff, 0xff, 0xff, 0xff, 0xff, 0xff, 0x7f, 1, 2, 3}
		}}
	case "truncated-hello-cut":
		inner := hello.Bytes
		hello.Bytes = func(cs *ref.ClientStream) []byte { b := inner(cs); return b[:len(b)/2] }
		hello.Then = func(cn *simnet.Conn) { cn.FailReads(fmt.Errorf("EOF")) }
	case "truncated-then-silence":
		// A strict prefix of a hello or of an exception (at least the packet code), then nothing
		// more, with the connection left open: only the handshake timeout can end this.
		inner := hello.Bytes
		exc := c.clientRev%2 == 0
		hello.Bytes = func(cs *ref.ClientStream) []byte {
			b := inner(cs)
			if exc {
				b = Item{Kind: "exception", Exc: []ref.Exception{{Code: 516, Name: "DB::Exception", Message: "Authentication failed"}}}.Encode(N, 0)
			}
			return b[:1+(c.serverRev+len(c.user))%(len(b)-1)]
		}
	case "cut":
		hello = simnet.Step{Name: "cut", When: simnet.AfterHello, Then: func(cn *simnet.Conn) { cn.FailReads(fmt.Errorf("connection reset by peer")) }}
	case "silence":
		hello = simnet.Step{Name: "never", When: func(*ref.ClientStream) bool { return false }}
	}
	e.srv.Steps = []simnet.Step{hello}
	if c.answer == "hello-split" {
		// piece i of the hello: bytes [cut(i-1), cut(i)), the first byte (packet code) always in piece 0
		inner := hello.Bytes
		cutAt := func(cs *ref.ClientStream, i int) int {
			b := inner(cs)
			if i < 0 {
				return 0
			}
			if i >= len(c.splitAt) {
				return len(b)
			}
			pos := make([]int, len(c.splitAt))
			for j, pm := range c.splitAt {
				pos[j] = min(len(b)-1, max(1, 1+pm*(len(b)-2)/1000))
			}
			if len(pos) == 2 && pos[0] > pos[1] {
				pos[0], pos[1] = pos[1], pos[0]
			}
			return pos[i]
		}
		e.srv.Steps = nil
		for i := 0; i <= len(c.splitAt); i++ {
			i := i
			s := simnet.Step{Name: fmt.Sprintf("hello-piece-%d", i), Bytes: func(cs *ref.ClientStream) []byte { return inner(cs)[cutAt(cs, i-1):cutAt(cs, i)] }}
			if i == 0 {
				s.When = simnet.AfterHello
			} else {
				s.Delay = c.gaps[i-1]
			}
			e.srv.Steps = append(e.srv.Steps, s)
		}
	}
	e.srv.Start()

	opt := baseOptions(c.clientRev, c.comp)
	opt.Database, opt.User, opt.Password, opt.QuotaKey, opt.ClientName = c.db, c.user, c.pass, c.quota, c.name
	opt.ReadTimeout, opt.HandshakeTimeout = c.readTimeout, c.handshakeTO
	effHS := c.handshakeTO
	if effHS == 0 {
		effHS = ch.DefaultHandshakeTimeout
	}
	d := &simDialer{conn: e.conn}
	if c.closeFails {
		// the transport closes, but Close reports an error (TLS close_notify to a peer that is gone, a second close)
		e.conn.CloseErr = errors.New("close: broken pipe")
	}
	start := time.Now()
	var client *ch.Client
	var err error
	done := make(chan struct{})
	go func() {
		defer close(done)
		if c.viaDial {
			opt.Dialer = d
			client, err = ch.Dial(context.Background(), opt)
		} else {
			client, err = ch.Connect(context.Background(), e.conn, opt)
		}
	}()
	// Bounded response on the virtual clock.
	select {
	case <-done:
	case <-time.After(effHS + time.Second):
		e.conn.ForceClose()
		<-done
		rt.Fatalf("handshake (%s) did not return within HandshakeTimeout+1s = %v of virtual time", c.answer, effHS+time.Second)
	}
	elapsed := time.Since(start)
	nt := c.answer != "hello" || (c.clientRev != c.serverRev && thresholdBetween(c.clientRev, c.serverRev))
	st.Case(stats.Hash("c13", fmt.Sprintf("%+v", c)), nt, func() any {
		return map[string]any{"kind": "handshake", "client_rev": c.clientRev, "server_rev": c.serverRev, "answer": c.answer, "delay": c.delay.String(),
			"read_timeout": c.readTimeout.String(), "handshake_timeout": c.handshakeTO.String(), "via_dial": c.viaDial}
	})
	st.Label("answer:" + c.answer)

	success := c.answer == "hello" || c.answer == "hello-delayed" || c.answer == "hello-split"
	if !success {
		if err == nil || client != nil {
			rt.Fatalf("handshake answered by %s returned client=%v err=%v", c.answer, client != nil, err)
		}
		if c.answer == "exception" {
			var ex *ch.Exception
			if !errors.As(err, &ex) {
				rt.Fatalf("handshake exception not recoverable from error %q", err)
			}
			if int32(ex.Code) != c.chain[0].Code || ex.Name != c.chain[0].Name || ex.Message != c.chain[0].Message || len(ex.Next) != len(c.chain)-1 {
				rt.Fatalf("handshake exception differs: got %+v want chain %+v", ex, c.chain)
			}
		}
		if c.viaDial {
			synctest.Wait()
			if e.conn.NumCloseCalls() == 0 {
				rt.Fatalf("Dial failed (%s: %v) but the connection it dialed was never closed", c.answer, err)
			}
		}
		_ = elapsed
		return
	}
	if err != nil {
		rt.Fatalf("handshake with hello after %v (pieces cut at %v per mille, pauses %v; read timeout %v, handshake timeout %v) failed: %v", c.delay, c.splitAt, c.gaps, c.readTimeout, effHS, err)
	}
	defer client.Close()
	// Client hello as written.
	var hs *ref.ClientHello
	var addendum *string
	var parseErr error
	e.srv.WithStream(func(cs *ref.ClientStream) {
		parseErr = cs.Err
		for _, p := range cs.Packets {
			if p.Kind == ref.PHello {
				hs = p.Hello
			}
			if p.Kind == ref.PAddendum {
				q := p.QuotaKey
				addendum = &q
			}
		}
		if cs.Pending() != 0 && parseErr == nil {
			parseErr = fmt.Errorf("%d unparsed bytes after the handshake", cs.Pending())
		}
	})
	if parseErr != nil || hs == nil {
		rt.Fatalf("client handshake bytes do not parse: %v", parseErr)
	}
	wantDB, wantUser := c.db, c.user
	if wantDB == "" {
		wantDB = "default"
	}
	if wantUser == "" {
		wantUser = "default"
	}
	if hs.Database != wantDB || hs.User != wantUser || hs.Pass != c.pass || int(hs.Revision) != c.clientRev || !strings.HasPrefix(hs.Name, "clickhouse/ch-go") {
		rt.Fatalf("client hello %+v does not carry the configured credentials/revision (%q %q %q %d)", hs, wantDB, wantUser, c.pass, c.clientRev)
	}
	if c.name != "" && !strings.HasSuffix(hs.Name, c.name) {
		rt.Fatalf("client hello name %q lacks the configured client name %q", hs.Name, c.name)
	}
	if (addendum != nil) != (N >= ref.RevAddendum) {
		rt.Fatalf("negotiated %d (client %d, server %d): addendum written = %v", N, c.clientRev, c.serverRev, addendum != nil)
	}
	if addendum != nil && *addendum != c.quota {
		rt.Fatalf("addendum carries %q want quota key %q", *addendum, c.quota)
	}
	si := client.ServerInfo()
	want := proto.ServerHello{Name: e.hello.Name, Major: int(e.hello.Major), Minor: int(e.hello.Minor), Revision: c.serverRev,
		Timezone: e.hello.Timezone, DisplayName: e.hello.DisplayName, Patch: int(e.hello.Patch)}
	if si != want {
		rt.Fatalf("ServerInfo() = %+v, server sent %+v", si, want)
	}
	// Follow-up query: encoded with the fields of N, reply encoded at N decodes.
	prog := ref.Progress{Rows: 7, Bytes: 8, TotalRows: 9, WroteRows: 10, WroteBytes: 11, ElapsedNs: 12}
	vcol := func(vals ...byte) *ref.Block {
		c := ref.Column{Name: "v", T: ref.Fixed("UInt8", 1)}
		for _, x := range vals {
			c.Rows = append(c.Rows, []byte{x})
		}
		return &ref.Block{Info: ref.BlockInfo{BucketNum: -1}, Columns: []ref.Column{c}}
	}
	e.srv.Steps = append(e.srv.Steps,
		itemStep(Item{Kind: "progress", Progress: prog}, simnet.AfterQuery(1), 0, nil),
		itemStep(Item{Kind: "data", Block: vcol()}, nil, c.comp.Method, nil),
		itemStep(Item{Kind: "data", Block: vcol(1, 2)}, nil, c.comp.Method, nil),
		itemStep(Item{Kind: "data", Block: vcol(3)}, nil, c.comp.Method, nil),
		itemStep(Item{Kind: "eos"}, nil, 0, nil))
	var got []proto.Progress
	// result blocks (header, then two with rows) are decoded with the fields of N too, through
	// inferred targets that are reused from the second block on
	var auto proto.Results
	var seen []string
	q := ch.Query{Body: "SELECT 1", QueryID: "q-1", OnProgress: func(ctx context.Context, p proto.Progress) error { got = append(got, p); return nil },
		Result: auto.Auto(), OnResult: func(ctx context.Context, b proto.Block) error {
			if len(auto) == 1 {
				if cv, ok := auto[0].Data.(*proto.ColUInt8); ok {
					seen = append(seen, fmt.Sprint([]uint8(*cv)))
				}
			}
			return nil
		}}
	if err := doBounded(rt, e, client, context.Background(), q, time.Minute, fmt.Sprintf("follow-up query at negotiated revision %d (client %d, server %d)", N, c.clientRev, c.serverRev)); err != nil {
		rt.Fatalf("follow-up query at negotiated revision %d: %v", N, err)
	}
	wantP := proto.Progress{Rows: 7, Bytes: 8, TotalRows: 9, WroteRows: 10, WroteBytes: 11}
	if N >= ref.RevServerQueryTimeInProg {
		wantP.ElapsedNs = 12
	}
	if len(got) != 1 || got[0] != wantP {
		rt.Fatalf("progress decoded at negotiated revision %d: %+v want %+v", N, got, wantP)
	}
	if strings.Join(seen, ";") != "[];[1 2];[3]" {
		rt.Fatalf("result blocks decoded at negotiated revision %d (client %d, server %d): %v, want [] then [1 2] then [3]", N, c.clientRev, c.serverRev, seen)
	}
	e.srv.WithStream(func(cs *ref.ClientStream) {
		if cs.Err != nil || cs.Pending() != 0 {
			rt.Fatalf("follow-up query bytes do not parse at the negotiated revision %d: %v (pending %d)", N, cs.Err, cs.Pending())
		}
		qq := cs.LastQuery()
		if qq == nil || qq.ID != "q-1" || qq.Body != "SELECT 1" || int(qq.Info.Revision) != N {
			rt.Fatalf("follow-up query packet %+v (want id q-1, client-info revision %d)", qq, N)
		}
	})
	// An INSERT (blocks are encoded per revision too, compressed or not): what the server
	// receives parses at N and carries the rows.
	insCol := ref.Column{Name: "v", T: ref.Fixed("UInt8", 1)}
	e.srv.Steps = append(e.srv.Steps,
		itemStep(Item{Kind: "data", Block: &ref.Block{Columns: []ref.Column{insCol}}}, simnet.AfterQuery(2), c.comp.Method, nil),
		itemStep(Item{Kind: "eos"}, simnet.AfterInputEnd, 0, nil))
	ins := proto.ColUInt8{1, 2, 3}
	if err := doBounded(rt, e, client, context.Background(), ch.Query{Body: "INSERT INTO t VALUES", Input: proto.Input{{Name: "v", Data: &ins}}}, time.Minute, fmt.Sprintf("follow-up INSERT at negotiated revision %d (%s)", N, c.comp.Name)); err != nil {
		rt.Fatalf("follow-up INSERT at negotiated revision %d (client %d, server %d, %s): %v", N, c.clientRev, c.serverRev, c.comp.Name, err)
	}
	e.srv.WithStream(func(cs *ref.ClientStream) {
		if cs.Err != nil || cs.Pending() != 0 {
			rt.Fatalf("follow-up INSERT bytes do not parse at the negotiated revision %d with %s: %v (pending %d)", N, c.comp.Name, cs.Err, cs.Pending())
		}
		var rows int
		for _, p := range cs.DataSinceQuery() {
			if len(p.Block.Columns) == 1 {
				rows += p.Block.Rows()
				if len(p.Block.Columns[0].Rows) != 3 || p.Block.Columns[0].Rows[2].([]byte)[0] != 3 {
					rt.Fatalf("follow-up INSERT block decoded at revision %d holds %v", N, p.Block.Columns[0].Rows)
				}
			}
		}
		if rows != 3 {
			rt.Fatalf("follow-up INSERT: the server parsed %d rows at revision %d, 3 were sent", rows, N)
		}
	})
	// A statement the caller binds nothing to (no result, no input) whose answer opens with a schema
	// block of several columns: the descriptors are skipped with the fields of revision N, and the
	// connection has idled past the handshake timeout by then - nothing of the handshake (a deadline
	// on the connection, say) concerns a later request.
	time.Sleep(effHS + time.Second)
	hdrCols := []ref.Column{{Name: "a", T: ref.Fixed("UInt8", 1)}, {Name: "bb", T: ref.Fixed("UInt64", 8)}, {Name: "", T: ref.Fixed("Int16", 2)}}
	e.srv.Steps = append(e.srv.Steps,
		itemStep(Item{Kind: "data", Block: &ref.Block{Columns: hdrCols[:2+N%2]}}, simnet.AfterQuery(3), c.comp.Method, nil),
		itemStep(Item{Kind: "eos"}, nil, 0, nil))
	if err := doBounded(rt, e, client, context.Background(), ch.Query{Body: "INSERT INTO t SELECT a, bb FROM s"}, time.Minute, "follow-up statement without result or input"); err != nil {
		rt.Fatalf("follow-up statement without result or input, answered by a %d-column schema block and end of stream at negotiated revision %d, %v after the handshake: %v", 2+N%2, N, effHS+time.Second, err)
	}
	// A query with an external table that has columns but no rows: the block the client writes for it
	// has the per-column fields of revision N like any other (the reference parser reads it at N).
	e.srv.Steps = append(e.srv.Steps, itemStep(Item{Kind: "eos"}, simnet.AfterQuery(4), 0, nil))
	emptyExt := proto.Input{{Name: "k", Data: new(proto.ColUInt64)}, {Name: "s", Data: new(proto.ColStr)}}
	if err := doBounded(rt, e, client, context.Background(), ch.Query{Body: "SELECT count() FROM ext", ExternalData: emptyExt, ExternalTable: "ext"}, time.Minute, "query with an empty external table"); err != nil {
		rt.Fatalf("query with an empty external table at negotiated revision %d: %v", N, err)
	}
	e.srv.WithStream(func(cs *ref.ClientStream) {
		if cs.Err != nil || cs.Pending() != 0 {
			rt.Fatalf("query with an external table of two columns and no rows: what the client wrote does not parse at the negotiated revision %d with %s: %v (%d bytes pending)", N, c.comp.Name, cs.Err, cs.Pending())
		}
		found := false
		for _, p := range cs.DataSinceQuery() {
			if p.Block != nil && len(p.Block.Columns) == 2 && p.Block.Rows() == 0 && p.Table == "ext" {
				found = true
			}
		}
		if !found {
			rt.Fatalf("query with an empty external table: no Data packet for table ext with two columns and no rows was written at revision %d", N)
		}
	})
	// Parameters are refused iff N < 54459.
	e.srv.Steps = append(e.srv.Steps, itemStep(Item{Kind: "eos"}, simnet.AfterQuery(5), 0, nil))
	before := e.conn.NumWrites()
	perr := doBounded(rt, e, client, context.Background(), ch.Query{Body: "SELECT {a:Int8}", Parameters: []proto.Parameter{{Key: "a", Value: "1"}}}, time.Minute, "query with parameters")
	if N < ref.RevParameters {
		if perr == nil || e.conn.NumWrites() != before {
			rt.Fatalf("parameters at negotiated revision %d: err=%v, writes %d -> %d (want refusal without writing)", N, perr, before, e.conn.NumWrites())
		}
	} else if perr != nil {
		rt.Fatalf("parameters at negotiated revision %d refused: %v", N, perr)
	}
}

func thresholdBetween(a, b int) bool {
	if a > b {
		a, b = b, a
	}
	for _, t := range []int{54441, 54442, 54448, 54449, 54451, 54453, 54454, 54458, 54459, 54460} {
		if a < t && t <= b {
			return true
		}
	}
	return false
}
