module verif/harness

go 1.26.8

require (
	github.com/ClickHouse/ch-go v0.0.0
	github.com/go-faster/city v1.0.1
	github.com/google/uuid v1.6.0
	github.com/klauspost/compress v1.18.0
	github.com/pierrec/lz4/v4 v4.1.22
	go.opentelemetry.io/otel/sdk v1.35.0
	go.opentelemetry.io/otel/trace v1.35.0
	go.uber.org/zap v1.27.0
	pgregory.net/rapid v1.3.0
)

require (
	github.com/go-faster/errors v0.7.1 // indirect
	github.com/go-logr/logr v1.4.2 // indirect
	github.com/go-logr/stdr v1.2.2 // indirect
	github.com/hashicorp/go-version v1.7.0 // indirect
	github.com/jackc/puddle/v2 v2.2.2 // indirect
	github.com/segmentio/asm v1.2.0 // indirect
	go.opentelemetry.io/auto/sdk v1.1.0 // indirect
	go.opentelemetry.io/otel v1.35.0 // indirect
	go.opentelemetry.io/otel/metric v1.35.0 // indirect
	go.uber.org/multierr v1.11.0 // indirect
	golang.org/x/sync v0.13.0 // indirect
	golang.org/x/sys v0.30.0 // indirect
)

replace github.com/ClickHouse/ch-go => /repo
