package gen

import (
	"encoding/binary"
	"fmt"
	"math"
	"reflect"
	"strconv"
	"strings"
	"time"

	"github.com/ClickHouse/ch-go/proto"

	"verif/harness/ref"
)

// ReflectRows reads all rows of an arbitrary library column (e.g. one created
// by automatic inference) into erased values of type t, using only exported
// fields and the Row method, so that the values can be compared with a model.
type rowser interface{ Rows() int }

func ReflectRows(t *ref.Type, col rowser) (out []ref.Val, err error) {
	defer func() {
		if r := recover(); r != nil {
			err = fmt.Errorf("panic while reading column %T as %s: %v", col, t.Name, r)
		}
	}()
	if a, ok := col.(*proto.ColAuto); ok {
		col = a.Data
	}
	if a, ok := col.(proto.ColAuto); ok {
		col = a.Data
	}
	switch t.K {
	case ref.KArray:
		v := reflect.Indirect(reflect.ValueOf(col))
		offs, ok := v.FieldByName("Offsets").Interface().(proto.ColUInt64)
		if !ok {
			return nil, fmt.Errorf("%T: no Offsets", col)
		}
		data, ok := v.FieldByName("Data").Interface().(rowser)
		if !ok || data == nil {
			return nil, fmt.Errorf("%T: Data is not a column", col)
		}
		flat, err := ReflectRows(t.Elem[0], data)
		if err != nil {
			return nil, err
		}
		var s uint64
		for _, o := range offs {
			if o < s || o > uint64(len(flat)) {
				return nil, fmt.Errorf("%T: offset %d outside data of %d rows", col, o, len(flat))
			}
			out = append(out, append([]ref.Val{}, flat[s:o]...))
			s = o
		}
		return out, nil
	case ref.KMap:
		v := reflect.Indirect(reflect.ValueOf(col))
		offs := v.FieldByName("Offsets").Interface().(proto.ColUInt64)
		ks, err := ReflectRows(t.Elem[0], v.FieldByName("Keys").Interface().(rowser))
		if err != nil {
			return nil, err
		}
		vs, err := ReflectRows(t.Elem[1], v.FieldByName("Values").Interface().(rowser))
		if err != nil {
			return nil, err
		}
		if len(ks) != len(vs) {
			return nil, fmt.Errorf("%T: %d keys, %d values", col, len(ks), len(vs))
		}
		var s uint64
		for _, o := range offs {
			if o < s || o > uint64(len(ks)) {
				return nil, fmt.Errorf("%T: offset %d outside %d pairs", col, o, len(ks))
			}
			row := make([]ref.KV, 0, o-s)
			for j := s; j < o; j++ {
				row = append(row, ref.KV{K: ks[j], V: vs[j]})
			}
			out = append(out, row)
			s = o
		}
		return out, nil
	case ref.KNullable:
		v := reflect.Indirect(reflect.ValueOf(col))
		nulls := v.FieldByName("Nulls").Interface().(proto.ColUInt8)
		vals, err := ReflectRows(t.Elem[0], v.FieldByName("Values").Interface().(rowser))
		if err != nil {
			return nil, err
		}
		if len(nulls) != len(vals) {
			return nil, fmt.Errorf("%T: %d nulls, %d values", col, len(nulls), len(vals))
		}
		for i, n := range nulls {
			out = append(out, ref.Null{IsNull: n == 1, V: vals[i]})
		}
		return out, nil
	case ref.KTuple:
		if t.Name != "Point" {
			tup, ok := col.(proto.ColTuple)
			if !ok {
				return nil, fmt.Errorf("%T is not ColTuple", col)
			}
			if len(tup) != len(t.Elem) {
				return nil, fmt.Errorf("tuple has %d members, want %d", len(tup), len(t.Elem))
			}
			cols := make([][]ref.Val, len(tup))
			for i, m := range tup {
				c, err := ReflectRows(t.Elem[i], m)
				if err != nil {
					return nil, err
				}
				cols[i] = c
			}
			for j := 0; j < col.Rows(); j++ {
				row := make([]ref.Val, len(tup))
				for i := range tup {
					row[i] = cols[i][j]
				}
				out = append(out, row)
			}
			return out, nil
		}
	}
	inner := t
	if t.K == ref.KLowCard {
		inner = t.Elem[0]
	}
	rowM := reflect.ValueOf(col).MethodByName("Row")
	if !rowM.IsValid() {
		return nil, fmt.Errorf("%T has no Row method", col)
	}
	n := col.Rows()
	for i := 0; i < n; i++ {
		rv := rowM.Call([]reflect.Value{reflect.ValueOf(i)})[0]
		v, err := scalarVal(inner, rv)
		if err != nil {
			return nil, fmt.Errorf("%T row %d: %w", col, i, err)
		}
		out = append(out, v)
	}
	return out, nil
}

func typeBase(name string) (base, args string) {
	if i := strings.IndexByte(name, '('); i >= 0 && strings.HasSuffix(name, ")") {
		return name[:i], name[i+1 : len(name)-1]
	}
	return name, ""
}

// ParseEnum parses 'name' = value pairs of an Enum type string.
func ParseEnum(name string) (map[string]int64, error) {
	_, args := typeBase(name)
	out := map[string]int64{}
	i := 0
	for i < len(args) {
		for i < len(args) && (args[i] == ' ' || args[i] == ',') {
			i++
		}
		if i >= len(args) {
			break
		}
		if args[i] != '\'' {
			return nil, fmt.Errorf("enum: expected quote at %d in %q", i, args)
		}
		j := i + 1
		var sb strings.Builder
		start := j
		for j < len(args) && args[j] != '\'' {
			if args[j] == '\\' && j+1 < len(args) {
				j++
			}
			sb.WriteByte(args[j])
			j++
		}
		spelled := args[start:min(j, len(args))] // the name as written, escapes included (the library keeps names that way)
		if j >= len(args) {
			return nil, fmt.Errorf("enum: unterminated name in %q", args)
		}
		j++
		for j < len(args) && (args[j] == ' ' || args[j] == '=') {
			j++
		}
		k := j
		for k < len(args) && (args[k] == '-' || args[k] >= '0' && args[k] <= '9') {
			k++
		}
		v, err := strconv.ParseInt(args[j:k], 10, 64)
		if err != nil {
			return nil, fmt.Errorf("enum: bad value in %q", args)
		}
		out[sb.String()] = v
		out[spelled] = v
		i = k
	}
	return out, nil
}

func scalarVal(t *ref.Type, rv reflect.Value) (ref.Val, error) {
	if t.K == ref.KString {
		switch rv.Kind() {
		case reflect.String:
			return []byte(rv.String()), nil
		case reflect.Slice:
			return append([]byte(nil), rv.Bytes()...), nil
		}
		return nil, fmt.Errorf("string column yields %s", rv.Type())
	}
	if t.K == ref.KTuple && t.Name == "Point" {
		p, ok := rv.Interface().(proto.Point)
		if !ok {
			return nil, fmt.Errorf("Point column yields %s", rv.Type())
		}
		return []ref.Val{le(8, math.Float64bits(p.X)), le(8, math.Float64bits(p.Y))}, nil
	}
	if t.K != ref.KFixed {
		return nil, fmt.Errorf("unexpected kind for %s", t.Name)
	}
	w := t.Width
	base, args := typeBase(t.Name)
	if tm, ok := rv.Interface().(time.Time); ok {
		switch base {
		case "Date":
			return le(2, uint64(floorDiv(tm.Unix(), 86400))), nil
		case "Date32":
			return le(4, uint64(floorDiv(tm.Unix(), 86400))), nil
		case "DateTime":
			return le(4, uint64(tm.Unix())), nil
		case "DateTime64":
			pStr, _, _ := strings.Cut(args, ",")
			p, err := strconv.Atoi(strings.TrimSpace(pStr))
			if err != nil || p < 0 || p > 9 {
				return nil, fmt.Errorf("bad precision in %q", t.Name)
			}
			return le(8, uint64(tm.Unix()*pow10(p)+int64(tm.Nanosecond())/pow10(9-p))), nil
		}
		return nil, fmt.Errorf("time.Time from %s", t.Name)
	}
	switch rv.Kind() {
	case reflect.Int8, reflect.Int16, reflect.Int32, reflect.Int64, reflect.Int:
		return le(w, uint64(rv.Int())), nil
	case reflect.Uint8, reflect.Uint16, reflect.Uint32, reflect.Uint64, reflect.Uint:
		return le(w, rv.Uint()), nil
	case reflect.Float32:
		// rv.Float() widens to float64 and quiets signalling NaNs; keep the bits.
		if f, ok := rv.Interface().(float32); ok {
			return le(4, uint64(math.Float32bits(f))), nil
		}
		return le(4, uint64(math.Float32bits(float32(rv.Float())))), nil
	case reflect.Float64:
		return le(8, math.Float64bits(rv.Float())), nil
	case reflect.Bool:
		if rv.Bool() {
			return []byte{1}, nil
		}
		return []byte{0}, nil
	case reflect.String:
		if base == "Enum8" || base == "Enum16" {
			def, err := ParseEnum(t.Name)
			if err != nil {
				return nil, err
			}
			x, ok := def[rv.String()]
			if !ok {
				return nil, fmt.Errorf("enum name %q not in %s", rv.String(), t.Name)
			}
			return le(w, uint64(x)), nil
		}
		return []byte(rv.String()), nil
	case reflect.Slice:
		if rv.Type().Elem().Kind() == reflect.Uint8 {
			return append([]byte(nil), rv.Bytes()...), nil
		}
	case reflect.Array:
		if rv.Type().Elem().Kind() == reflect.Uint8 {
			b := make([]byte, rv.Len())
			for i := range b {
				b[i] = byte(rv.Index(i).Uint())
			}
			if base == "UUID" {
				return swapUUID(b), nil
			}
			return b, nil
		}
	case reflect.Struct:
		if base == "Nothing" {
			return []byte{0}, nil
		}
		if iv, ok := rv.Interface().(proto.Interval); ok {
			return le(8, uint64(iv.Value)), nil
		}
		return wideBytes(rv)
	}
	return nil, fmt.Errorf("cannot convert %s for %s", rv.Type(), t.Name)
}

// wideBytes flattens {Low, High} structs (Int128, UInt256, Decimal128, ...).
func wideBytes(rv reflect.Value) ([]byte, error) {
	switch rv.Kind() {
	case reflect.Uint64:
		return binary.LittleEndian.AppendUint64(nil, rv.Uint()), nil
	case reflect.Struct:
		lo, hi := rv.FieldByName("Low"), rv.FieldByName("High")
		if !lo.IsValid() || !hi.IsValid() {
			return nil, fmt.Errorf("struct %s has no Low/High", rv.Type())
		}
		a, err := wideBytes(lo)
		if err != nil {
			return nil, err
		}
		b, err := wideBytes(hi)
		if err != nil {
			return nil, err
		}
		return append(a, b...), nil
	}
	return nil, fmt.Errorf("wide: %s", rv.Type())
}
