package gen

import (
	"encoding/binary"
	"fmt"

	"pgregory.net/rapid"

	"verif/harness/ref"
)

// Mutation describes what was done (for classification and messages).
type Mutation struct {
	Desc   string
	Role   string // role of the targeted field, "" for untargeted mutations
	Struct bool   // targeted a count/length/offset/key/meta/version/mask/flag field
}

var hostile = []uint64{0, 1, 2, 127, 128, 255, 256, 16383, 16384, 65535, 65536, 1<<18 - 1, 1 << 18, 1<<18 + 1, 1 << 24,
	99_999_999, 100_000_000, 100_000_001, 1<<31 - 1, 1 << 31, 1<<32 - 1, 1 << 32, 1<<32 + 1, 1 << 40, 1<<62 + 1, 1<<63 - 1, 1 << 63, 1<<64 - 1}

// Mutate applies one rapid-drawn mutation to a valid encoding.
func Mutate(rt *rapid.T, data []byte, fields []ref.Field, other []byte) ([]byte, Mutation) {
	out := append([]byte(nil), data...)
	var structural []ref.Field
	for _, f := range fields {
		if f.Role != ref.RPayload && f.Role != ref.RName {
			structural = append(structural, f)
		}
	}
	op := rapid.IntRange(0, 11).Draw(rt, "mut-op")
	if len(out) == 0 {
		op = 9
	}
	switch {
	case op >= 10 && len(structural) >= 2:
		// Two fields at once, both set to values near the library's caps: a row count and a
		// length (or offset, or key count) that are each acceptable but whose product is not.
		i := rapid.IntRange(0, len(structural)-2).Draw(rt, "pair-first")
		j := rapid.IntRange(i+1, min(len(structural)-1, i+1+rapid.IntRange(0, 6).Draw(rt, "pair-gap"))).Draw(rt, "pair-second")
		big := []uint64{127, 128, 4096, 65535, 65536, 1<<18 - 1, 1 << 18, 1<<20 + 1, 1<<24 - 1, 1 << 24, 99_999_999, 100_000_000, 1<<30 - 1, 1 << 30}
		res := out
		desc := ""
		delta := 0
		for n, f := range []ref.Field{structural[i], structural[j]} {
			off := f.Off + delta
			isVar := f.Role == ref.RCount || f.Role == ref.RLength || (f.Role == ref.RInfo && f.Len != 4 && f.Len != 1)
			nv := big[rapid.IntRange(0, len(big)-1).Draw(rt, "pair-val")]
			var enc []byte
			if isVar {
				enc = binary.AppendUvarint(nil, nv)
			} else {
				var b [8]byte
				binary.LittleEndian.PutUint64(b[:], nv)
				enc = b[:f.Len]
			}
			next := append([]byte(nil), res[:off]...)
			next = append(next, enc...)
			next = append(next, res[off+f.Len:]...)
			res = next
			delta += len(enc) - f.Len
			if n > 0 {
				desc += " and "
			}
			desc += fmt.Sprintf("%s field at %d -> %d", f.Role, f.Off, nv)
		}
		if rapid.Bool().Draw(rt, "pair-truncate") {
			// drop what follows the second field: the amplified allocation must not need the data
			end := structural[j].Off + delta + structural[j].Len
			if end > 0 && end <= len(res) {
				res = res[:end]
			}
		}
		return res, Mutation{Desc: "pair: " + desc, Role: structural[i].Role.String() + "+" + structural[j].Role.String(), Struct: true}
	case op <= 4 && len(structural) > 0:
		f := structural[rapid.IntRange(0, len(structural)-1).Draw(rt, "mut-field")]
		var old uint64
		isVar := f.Role == ref.RCount || f.Role == ref.RLength || (f.Role == ref.RInfo && f.Len != 4 && f.Len != 1)
		if isVar {
			old, _ = binary.Uvarint(out[f.Off : f.Off+f.Len])
		} else {
			var b [8]byte
			copy(b[:], out[f.Off:f.Off+f.Len])
			old = binary.LittleEndian.Uint64(b[:])
		}
		var nv uint64
		switch rapid.IntRange(0, 3).Draw(rt, "mut-val") {
		case 0:
			nv = old + 1
		case 1:
			nv = old - 1
		case 2:
			nv = rapid.Uint64().Draw(rt, "mut-rand")
		default:
			nv = hostile[rapid.IntRange(0, len(hostile)-1).Draw(rt, "mut-hostile")]
		}
		var enc []byte
		if isVar {
			enc = binary.AppendUvarint(nil, nv)
		} else {
			var b [8]byte
			binary.LittleEndian.PutUint64(b[:], nv)
			enc = b[:f.Len]
		}
		res := append([]byte(nil), out[:f.Off]...)
		res = append(res, enc...)
		res = append(res, out[f.Off+f.Len:]...)
		return res, Mutation{Desc: fmt.Sprintf("%s field at %d: %d -> %d", f.Role, f.Off, old, nv), Role: f.Role.String(), Struct: true}
	case op == 5:
		i := rapid.IntRange(0, len(out)-1).Draw(rt, "flip-pos")
		bit := rapid.IntRange(0, 7).Draw(rt, "flip-bit")
		out[i] ^= 1 << bit
		return out, classify(fields, i, fmt.Sprintf("flip bit %d of byte %d", bit, i))
	case op == 6:
		i := rapid.IntRange(0, len(out)-1).Draw(rt, "del-pos")
		n := rapid.IntRange(1, min(8, len(out)-i)).Draw(rt, "del-n")
		res := append(append([]byte(nil), out[:i]...), out[i+n:]...)
		return res, classify(fields, i, fmt.Sprintf("delete %d bytes at %d", n, i))
	case op == 7:
		i := rapid.IntRange(0, len(out)-1).Draw(rt, "dup-pos")
		n := rapid.IntRange(1, min(16, len(out)-i)).Draw(rt, "dup-n")
		res := append(append(append([]byte(nil), out[:i+n]...), out[i:i+n]...), out[i+n:]...)
		return res, classify(fields, i, fmt.Sprintf("duplicate %d bytes at %d", n, i))
	case op == 8 && len(other) > 0:
		i := rapid.IntRange(0, len(out)).Draw(rt, "splice-at")
		j := rapid.IntRange(0, len(other)-1).Draw(rt, "splice-from")
		res := append(append([]byte(nil), out[:i]...), other[j:]...)
		return res, Mutation{Desc: fmt.Sprintf("splice: first %d bytes + other[%d:]", i, j)}
	default:
		i := rapid.IntRange(0, len(out)).Draw(rt, "trunc-at")
		pad := rapid.SliceOfN(rapid.Byte(), 0, 24).Draw(rt, "pad")
		res := append(append([]byte(nil), out[:i]...), pad...)
		return res, Mutation{Desc: fmt.Sprintf("truncate at %d and pad with %x", i, pad)}
	}
}

func classify(fields []ref.Field, pos int, desc string) Mutation {
	for _, f := range fields {
		if pos >= f.Off && pos < f.Off+f.Len {
			return Mutation{Desc: desc + " (" + f.Role.String() + ")", Role: f.Role.String(), Struct: f.Role != ref.RPayload && f.Role != ref.RName}
		}
	}
	return Mutation{Desc: desc}
}

// FieldAt returns the field covering byte pos.
func FieldAt(fields []ref.Field, pos int) (ref.Field, bool) {
	lo, hi := 0, len(fields)
	for lo < hi {
		m := (lo + hi) / 2
		if fields[m].Off+fields[m].Len <= pos {
			lo = m + 1
		} else {
			hi = m
		}
	}
	if lo < len(fields) && pos >= fields[lo].Off && pos < fields[lo].Off+fields[lo].Len {
		return fields[lo], true
	}
	return ref.Field{}, false
}
