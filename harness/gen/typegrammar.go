package gen

import (
	"fmt"
	"strings"

	"pgregory.net/rapid"
)

var plainScalars = []string{
	"Int8", "Int16", "Int32", "Int64", "Int128", "Int256", "UInt8", "UInt16", "UInt32", "UInt64", "UInt128", "UInt256",
	"Float32", "Float64", "String", "Bool", "UUID", "IPv4", "IPv6", "Date", "Date32", "DateTime", "Point", "Nothing", "JSON",
	"IntervalSecond", "IntervalMinute", "IntervalHour", "IntervalDay", "IntervalWeek", "IntervalMonth", "IntervalQuarter", "IntervalYear",
	"Decimal32", "Decimal64", "Decimal128", "Decimal256",
}

var zones = []string{"UTC", "Europe/Berlin", "America/New_York", "Asia/Tokyo"}

func enumDef(rt *rapid.T, base string) string {
	n := rapid.IntRange(1, 4).Draw(rt, "enum-n")
	names := []string{"a", "b", "hello", "w d", "x,y", ""}
	var parts []string
	used := map[int]bool{}
	for i := 0; i < n; i++ {
		lim := 127
		if base == "Enum16" {
			lim = 32767
		}
		v := rapid.IntRange(-lim-1, lim).Draw(rt, "enum-v")
		if used[v] {
			continue
		}
		used[v] = true
		eq := rapid.SampledFrom([]string{" = ", "="}).Draw(rt, "enum-eq")
		parts = append(parts, fmt.Sprintf("'%s'%s%d", names[i%len(names)]+fmt.Sprint(i), eq, v))
	}
	sep := rapid.SampledFrom([]string{", ", ","}).Draw(rt, "enum-sep")
	return base + "(" + strings.Join(parts, sep) + ")"
}

// ScalarType draws a scalar type string with legal parameters.
func ScalarType(rt *rapid.T) string {
	switch rapid.IntRange(0, 9).Draw(rt, "scalar-class") {
	case 0:
		return fmt.Sprintf("FixedString(%d)", rapid.SampledFrom([]int{1, 2, 8, 16, 20, 32, 64, 100, 128, 256, 512}).Draw(rt, "fs-n"))
	case 1:
		return fmt.Sprintf("DateTime('%s')", rapid.SampledFrom(zones).Draw(rt, "tz"))
	case 2:
		p := rapid.IntRange(0, 9).Draw(rt, "p")
		if rapid.Bool().Draw(rt, "dt64-tz") {
			sp := rapid.SampledFrom([]string{", ", ","}).Draw(rt, "sp")
			return fmt.Sprintf("DateTime64(%d%s'%s')", p, sp, rapid.SampledFrom(zones).Draw(rt, "tz"))
		}
		return fmt.Sprintf("DateTime64(%d)", p)
	case 3:
		return enumDef(rt, rapid.SampledFrom([]string{"Enum8", "Enum16"}).Draw(rt, "enum-base"))
	case 4:
		p := rapid.IntRange(1, 76).Draw(rt, "dec-p")
		s := rapid.IntRange(0, p).Draw(rt, "dec-s")
		sp := rapid.SampledFrom([]string{", ", ","}).Draw(rt, "sp")
		return fmt.Sprintf("Decimal(%d%s%d)", p, sp, s)
	case 5:
		b := rapid.SampledFrom([]string{"Decimal32", "Decimal64", "Decimal128", "Decimal256"}).Draw(rt, "decN")
		return fmt.Sprintf("%s(%d)", b, rapid.IntRange(0, 9).Draw(rt, "dec-s"))
	}
	return rapid.SampledFrom(plainScalars).Draw(rt, "scalar")
}

// WellFormedType draws a well-formed type string of nesting depth <= depth.
func WellFormedType(rt *rapid.T, depth int) string {
	if depth <= 0 {
		return ScalarType(rt)
	}
	sp := rapid.SampledFrom([]string{", ", ","}).Draw(rt, "sp")
	switch rapid.IntRange(0, 7).Draw(rt, "shape") {
	case 0, 1:
		return "Array(" + WellFormedType(rt, depth-1) + ")"
	case 2:
		return "Nullable(" + ScalarType(rt) + ")"
	case 3:
		return "LowCardinality(" + ScalarType(rt) + ")"
	case 4:
		k := rapid.SampledFrom([]string{"String", "Int32", "UInt64", "UUID", "Date", "FixedString(4)", "LowCardinality(String)"}).Draw(rt, "mapkey")
		return "Map(" + k + sp + WellFormedType(rt, depth-1) + ")"
	case 5:
		n := rapid.IntRange(1, 3).Draw(rt, "tuple-n")
		var parts []string
		isNamed := rapid.Bool().Draw(rt, "tuple-named")
		for i := 0; i < n; i++ {
			p := WellFormedType(rt, depth-1)
			if isNamed {
				p = fmt.Sprintf("f%d %s", i, p)
			}
			parts = append(parts, p)
		}
		return "Tuple(" + strings.Join(parts, sp) + ")"
	}
	return ScalarType(rt)
}

// MalformedType draws a string that is not a well-formed type.
func MalformedType(rt *rapid.T) string {
	switch rapid.IntRange(0, 8).Draw(rt, "malformed") {
	case 0:
		return strings.Repeat("Array(", rapid.IntRange(1, 2000).Draw(rt, "depth")) + "Int8"
	case 1:
		n := rapid.IntRange(1, 2000).Draw(rt, "depth")
		return strings.Repeat("Array(", n) + "Int8" + strings.Repeat(")", n)
	case 2:
		return rapid.SampledFrom([]string{"Array()", "Nullable()", "LowCardinality()", "Map()", "Map(String)", "Map(,)", "Tuple()", "DateTime64()", "DateTime64(x)",
			"DateTime64(300)", "DateTime64(-1)", "DateTime('')", "DateTime('No/Where')", "Decimal()", "Decimal(x)", "Decimal(0)", "Decimal(77)", "Decimal(-5, 2)",
			"Decimal(99999999999999999999)", "Enum8()", "Enum8(a)", "Enum8('a')", "Enum8('a'=)", "Enum8('a'=x)", "Enum8(=1)", "Enum16('a'=1,)", "FixedString()",
			"FixedString(x)", "FixedString(-1)", "FixedString(0)", "Interval", "IntervalFortnight", "(", ")", "()", ")(", "Array(Int8", "Array)Int8(", "Int8)",
			"Array(Int8))", "Nullable(Array(Int8)", " Int8", "Int8 ", "int8", "", ",", "Map(String,String,String)", "Array(,)", "LowCardinality(Nullable(String))",
			"Nullable(LowCardinality(String))", "Nullable(Array(Int8))", "Nested(a Int8)", "AggregateFunction(sum, Int8)", "Enum8('a'=1)extra", "\x00", "Array(\xff)",
			// names that collapse to a lone quote, to nothing, or keep an escape
			"Enum8('=1)", "Enum8(' = 1)", "Enum16('a' = 1, '= 2, 'c' = 3)", "Enum8('' = 1, ' = 2)", "Enum8(''' = 1)", "Enum8('a = 1)", "Enum8(a' = 1)",
			"Tuple(' Int8)", "Tuple(a)", "Tuple(a b c)", "Map('', Int8)", "DateTime64(3, ')", "DateTime64(3, '')", "DateTime(')", "FixedString(99999999999)"}).Draw(rt, "bad")
	case 3:
		return string(rapid.SliceOfN(rapid.Byte(), 0, 40).Draw(rt, "bytes"))
	case 5:
		// a known base followed by a token soup as parameters
		base := rapid.SampledFrom([]string{"Enum8", "Enum16", "DateTime", "DateTime64", "Decimal", "Decimal32", "Decimal128", "FixedString", "Map", "Tuple", "Array",
			"Nullable", "LowCardinality", "Interval", "IntervalSecond", "Nothing", "Point", "String", "Int8"}).Draw(rt, "soup-base")
		toks := rapid.SliceOfN(rapid.SampledFrom([]string{"'", "'", "=", ",", " ", "a", "1", "-", "\\", "(", ")", "''", "'=", "= ", "9", "UTC", "String", "x"}), 0, 8).Draw(rt, "soup")
		s := base + "(" + strings.Join(toks, "") + ")"
		for d := rapid.IntRange(0, 2).Draw(rt, "soup-wrap"); d > 0; d-- {
			s = rapid.SampledFrom([]string{"Array", "Nullable", "LowCardinality"}).Draw(rt, "soup-wrapper") + "(" + s + ")"
		}
		return s
	case 4:
		return rapid.StringMatching(`[A-Za-z(),' 0-9=]{0,30}`).Draw(rt, "soup")
	default:
		// single edit of a well-formed string
		s := WellFormedType(rt, rapid.IntRange(0, 3).Draw(rt, "wf-depth"))
		if len(s) == 0 {
			return s
		}
		i := rapid.IntRange(0, len(s)-1).Draw(rt, "edit-pos")
		switch rapid.IntRange(0, 2).Draw(rt, "edit") {
		case 0:
			return s[:i] + s[i+1:]
		case 1:
			return s[:i] + string(rapid.SampledFrom([]byte("(),' x0=")).Draw(rt, "ins")) + s[i:]
		default:
			return s[:i] + string(rapid.SampledFrom([]byte("(),' x0=")).Draw(rt, "sub")) + s[i+1:]
		}
	}
}
