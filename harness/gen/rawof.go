//go:build !purego

package gen

import (
	"github.com/ClickHouse/ch-go/proto"
	"pgregory.net/rapid"

	"verif/harness/ref"
)

type raw12 [12]byte

type rawOfCol struct{ c *proto.ColRawOf[raw12] }

func (c *rawOfCol) Column() proto.Column { return c.c }
func (c *rawOfCol) Append(v ref.Val)     { c.c.Append(raw12(v.([]byte))) }
func (c *rawOfCol) AppendBulk(vs []ref.Val) {
	arr := make([]raw12, len(vs))
	for i, v := range vs {
		arr[i] = raw12(v.([]byte))
	}
	c.c.AppendArr(arr)
}
func (c *rawOfCol) Row(i int) ref.Val { r := c.c.Row(i); return append([]byte(nil), r[:]...) }

// ColRawOf exists only in the default build.
func addRawOf() {
	var _ *rapid.T
	add(&Kind{Name: "FixedString(12)", T: ref.Fixed("FixedString(12)", 12), Scalar: "RawOf", Shape: "X", ZeroCopy: true,
		Value: bytesGen(12),
		New:   func() Col { return &rawOfCol{c: new(proto.ColRawOf[raw12])} }})
}
