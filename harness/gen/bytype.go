package gen

import (
	"strconv"
	"strings"

	"pgregory.net/rapid"

	"verif/harness/ref"
)

// ValueFor returns a generator of valid values for an arbitrary parsed type
// (used where the type comes from a grammar rather than from the catalog).
func ValueFor(t *ref.Type) *rapid.Generator[ref.Val] {
	switch t.K {
	case ref.KString:
		return strGen()
	case ref.KFixed:
		base, args := typeBase(t.Name)
		switch base {
		case "Bool":
			return rapid.Custom(func(rt *rapid.T) ref.Val { return []byte{byte(rapid.IntRange(0, 1).Draw(rt, "bool"))} })
		case "Nothing":
			return rapid.Custom(func(rt *rapid.T) ref.Val { rapid.Bool().Draw(rt, "nothing"); return []byte{0} })
		case "Enum8", "Enum16":
			def, err := ParseEnum(t.Name)
			var raws []int64
			for _, v := range def {
				raws = append(raws, v)
			}
			if err != nil || len(raws) == 0 {
				return bytesGen(t.Width)
			}
			// stable order
			for i := range raws {
				for j := i + 1; j < len(raws); j++ {
					if raws[j] < raws[i] {
						raws[i], raws[j] = raws[j], raws[i]
					}
				}
			}
			w := t.Width
			return rapid.Custom(func(rt *rapid.T) ref.Val {
				return le(w, uint64(raws[rapid.IntRange(0, len(raws)-1).Draw(rt, "enum")]))
			})
		case "Date32":
			return rapid.Custom(func(rt *rapid.T) ref.Val {
				return le(4, uint64(rapid.Int32Range(date32Lo, date32Hi).Draw(rt, "date32")))
			})
		case "DateTime64":
			pStr, _, _ := strings.Cut(args, ",")
			p, err := strconv.Atoi(strings.Trim(strings.TrimSpace(pStr), "'"))
			if err != nil || p < 0 || p > 9 {
				p = 9
			}
			tps := pow10(p)
			return rapid.Custom(func(rt *rapid.T) ref.Val {
				x := rapid.Int64Range(-2208988800*tps, 9223372035*tps).Draw(rt, "dt64")
				return le(8, uint64(x))
			})
		}
		return bytesGen(t.Width)
	case ref.KArray:
		el := ValueFor(t.Elem[0])
		return rapid.Custom(func(rt *rapid.T) ref.Val {
			n := lenGen().Draw(rt, "arrlen")
			out := make([]ref.Val, n)
			for i := range out {
				out[i] = el.Draw(rt, "elem")
			}
			return out
		})
	case ref.KNullable:
		el := ValueFor(t.Elem[0])
		return rapid.Custom(func(rt *rapid.T) ref.Val {
			return ref.Null{IsNull: rapid.Bool().Draw(rt, "null"), V: el.Draw(rt, "nv")}
		})
	case ref.KLowCard:
		el := ValueFor(t.Elem[0])
		isFloat := strings.HasPrefix(t.Elem[0].Name, "Float")
		return rapid.Custom(func(rt *rapid.T) ref.Val {
			v := el.Draw(rt, "lcv")
			if b, ok := v.([]byte); ok && isFloat && len(b) > 0 {
				b[len(b)-1] &^= 0x80 // see lcOf: no negative zero under LowCardinality(Float*)
			}
			return v
		})
	case ref.KMap:
		kg, vg := ValueFor(t.Elem[0]), ValueFor(t.Elem[1])
		return rapid.Custom(func(rt *rapid.T) ref.Val {
			n := lenGen().Draw(rt, "maplen")
			out := make([]ref.KV, 0, n)
			for i := 0; i < n; i++ {
				out = append(out, ref.KV{K: kg.Draw(rt, "mk"), V: vg.Draw(rt, "mv")})
			}
			return out
		})
	case ref.KTuple:
		var gs []*rapid.Generator[ref.Val]
		for _, e := range t.Elem {
			gs = append(gs, ValueFor(e))
		}
		return rapid.Custom(func(rt *rapid.T) ref.Val {
			out := make([]ref.Val, len(gs))
			for i, g := range gs {
				out[i] = g.Draw(rt, "member")
			}
			return out
		})
	}
	return bytesGen(1)
}
