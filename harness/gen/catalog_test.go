package gen

import "testing"

func TestCatalogSize(t *testing.T) {
	t.Logf("%d kinds, %d scalars", len(Kinds), len(Scalars))
	shapes := map[string]int{}
	for _, k := range Kinds {
		shapes[k.Shape]++
	}
	t.Logf("%v", shapes)
}
