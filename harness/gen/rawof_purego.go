//go:build purego

package gen

func addRawOf() {}
