// Package gen holds the type catalog: for every supported column type and
// composition a constructor of the library column, a rapid value generator
// with boundary bias, and erased append / row access that go through the
// library's public typed API.
package gen

import (
	"encoding/binary"
	"fmt"
	"math"
	"reflect"
	"sort"
	"strings"
	"time"

	"github.com/ClickHouse/ch-go/proto"
	"github.com/google/uuid"
	"pgregory.net/rapid"

	"verif/harness/ref"
)

// Col is an erased live library column.
type Col interface {
	Column() proto.Column
	Append(v ref.Val)
	AppendBulk(vs []ref.Val) // AppendArr where the typed API offers it
	Row(i int) ref.Val
}

// Kind is one entry of the catalog.
type Kind struct {
	Name     string
	T        *ref.Type
	New      func() Col
	Value    *rapid.Generator[ref.Val]
	Scalar   string                // scalar family the kind is built over
	Shape    string                // X, Array(X), ...
	ZeroCopy bool                  // WriteColumn chains the column's own memory (default build)
	Prep     bool                  // contains a Preparable column (LC / Enum)
	NewNamed func(name string) Col // member of a named tuple (proto.Named); nil for erased-only kinds
	key      string
}

func (k *Kind) String() string { return k.Name }

// ---- typed kinds ---------------------------------------------------------

type tk[T any] struct {
	t      *ref.Type
	mk     func() proto.ColumnOf[T]
	to     func(ref.Val) T
	from   func(T) ref.Val
	val    *rapid.Generator[ref.Val]
	manual bool // contains Map: append/row bypass Go maps to keep pair order
	app    func(c proto.ColumnOf[T], v ref.Val)
	row    func(c proto.ColumnOf[T], i int) ref.Val
	zc     bool
	prep   bool
	scalar string
}

type tcol[T any] struct {
	scratch []T
	k   tk[T]
	c   proto.ColumnOf[T]
	raw proto.ColumnOf[T] // c without the ColNamed wrapper
}

func (c *tcol[T]) Column() proto.Column { return c.c }
func (c *tcol[T]) Append(v ref.Val) {
	if c.k.manual {
		c.k.app(c.raw, v)
		return
	}
	c.c.Append(c.k.to(v))
}
func (c *tcol[T]) AppendBulk(vs []ref.Val) {
	if c.k.manual {
		for _, v := range vs {
			c.k.app(c.raw, v)
		}
		return
	}
	// The caller's batch slice is reused between calls and cleared after each,
	// the way a caller with one scratch slice per column works: AppendArr has
	// to copy what it keeps.
	arr := c.scratch[:0]
	for _, v := range vs {
		arr = append(arr, c.k.to(v))
	}
	c.c.AppendArr(arr)
	var z T
	for i := range arr {
		arr[i] = z
	}
	c.scratch = arr
}
func (c *tcol[T]) Row(i int) ref.Val {
	if c.k.manual {
		return c.k.row(c.raw, i)
	}
	return c.k.from(c.c.Row(i))
}

func erase[T any](k tk[T], shape string) *Kind {
	return &Kind{
		Name: k.t.Name, T: k.t, Value: k.val, Scalar: k.scalar, Shape: shape, ZeroCopy: k.zc, Prep: k.prep,
		New: func() Col { c := k.mk(); return &tcol[T]{k: k, c: c, raw: c} },
		NewNamed: func(name string) Col {
			c := k.mk()
			return &tcol[T]{k: k, c: proto.Named[T](c, name), raw: c}
		},
	}
}

func lenGen() *rapid.Generator[int] {
	return rapid.OneOf(
		rapid.IntRange(0, 3), rapid.IntRange(0, 3), rapid.IntRange(0, 12), rapid.Just(0),
	)
}

func arrayOf[T any](k tk[T]) tk[[]T] {
	r := tk[[]T]{
		t:      ref.Array(k.t),
		mk:     func() proto.ColumnOf[[]T] { return proto.NewArray[T](k.mk()) },
		manual: k.manual, zc: k.zc, prep: k.prep, scalar: k.scalar,
		val: rapid.Custom(func(t *rapid.T) ref.Val {
			n := lenGen().Draw(t, "arrlen")
			out := make([]ref.Val, n)
			for i := range out {
				out[i] = k.val.Draw(t, "elem")
			}
			return out
		}),
	}
	if !k.manual {
		r.to = func(v ref.Val) []T {
			vs := v.([]ref.Val)
			out := make([]T, len(vs))
			for i, e := range vs {
				out[i] = k.to(e)
			}
			return out
		}
		r.from = func(v []T) ref.Val {
			out := make([]ref.Val, len(v))
			for i, e := range v {
				out[i] = k.from(e)
			}
			return out
		}
	} else {
		r.app = func(c proto.ColumnOf[[]T], v ref.Val) {
			arr := c.(*proto.ColArr[T])
			for _, e := range v.([]ref.Val) {
				k.app(arr.Data, e)
			}
			arr.Offsets = append(arr.Offsets, uint64(arr.Data.Rows()))
		}
		r.row = func(c proto.ColumnOf[[]T], i int) ref.Val {
			arr := c.(*proto.ColArr[T])
			var start int
			if i > 0 {
				start = int(arr.Offsets[i-1])
			}
			end := int(arr.Offsets[i])
			out := make([]ref.Val, 0, end-start)
			for j := start; j < end; j++ {
				out = append(out, k.row(arr.Data, j))
			}
			return out
		}
	}
	return r
}

func nullableOf[T any](k tk[T]) tk[proto.Nullable[T]] {
	return tk[proto.Nullable[T]]{
		t:  ref.Nullable(k.t),
		mk: func() proto.ColumnOf[proto.Nullable[T]] { return proto.NewColNullable[T](k.mk()) },
		zc: k.zc, prep: k.prep, scalar: k.scalar,
		to: func(v ref.Val) proto.Nullable[T] {
			n := v.(ref.Null)
			return proto.Nullable[T]{Set: !n.IsNull, Value: k.to(n.V)}
		},
		from: func(v proto.Nullable[T]) ref.Val {
			return ref.Null{IsNull: !v.Set, V: k.from(v.Value)}
		},
		val: rapid.Custom(func(t *rapid.T) ref.Val {
			return ref.Null{IsNull: rapid.Bool().Draw(t, "null"), V: k.val.Draw(t, "nv")}
		}),
	}
}

func lcOf[T comparable](k tk[T]) tk[T] {
	r := k
	r.t = ref.LowCard(k.t)
	r.mk = func() proto.ColumnOf[T] { return proto.NewLowCardinality[T](k.mk()) }
	r.prep = true
	r.zc = false
	// Repeat values often so that dictionaries are smaller than the row count.
	isFloat := k.t.Name == "Float32" || k.t.Name == "Float64"
	norm := func(v ref.Val) ref.Val {
		// LowCardinality keys its dictionary by Go equality, under which -0.0 == +0.0:
		// whether merging them "changes the value" is ambiguous, so negative zero is
		// not generated for LowCardinality(Float*) (excluded by construction).
		if b, ok := v.([]byte); ok && isFloat && b[len(b)-1] == 0x80 {
			zero := true
			for _, x := range b[:len(b)-1] {
				zero = zero && x == 0
			}
			if zero {
				return make([]byte, len(b))
			}
		}
		return v
	}
	r.val = rapid.Custom(func(t *rapid.T) ref.Val {
		if rapid.IntRange(0, 3).Draw(t, "lcpick") > 0 {
			return norm(smallPool(k)[rapid.IntRange(0, 5).Draw(t, "lcpool")])
		}
		return norm(k.val.Draw(t, "lcv"))
	})
	return r
}

var pools = map[string][]ref.Val{}

// smallPool returns six fixed values of the kind (generated deterministically).
func smallPool[T any](k tk[T]) []ref.Val {
	if p, ok := pools[k.t.Name]; ok {
		return p
	}
	var p []ref.Val
	for i := 0; i < 6; i++ {
		p = append(p, k.val.Example(i+1))
	}
	pools[k.t.Name] = p
	return p
}

// mapOf builds Map(K, V). Keys of one row are made unique (by wire bytes).
func mapOf[K comparable, V any](kk tk[K], vk tk[V]) tk[map[K]V] {
	r := tk[map[K]V]{
		t:      ref.Map(kk.t, vk.t),
		mk:     func() proto.ColumnOf[map[K]V] { return proto.NewMap[K, V](kk.mk(), vk.mk()) },
		manual: true, prep: kk.prep || vk.prep, scalar: vk.scalar,
		val: rapid.Custom(func(t *rapid.T) ref.Val {
			n := lenGen().Draw(t, "maplen")
			out := make([]ref.KV, 0, n)
			seen := map[string]bool{}
			for i := 0; i < n; i++ {
				key := kk.val.Draw(t, "mk")
				id := string(key.([]byte))
				if seen[id] {
					continue
				}
				seen[id] = true
				out = append(out, ref.KV{K: key, V: vk.val.Draw(t, "mv")})
			}
			return out
		}),
	}
	r.app = func(c proto.ColumnOf[map[K]V], v ref.Val) {
		m := c.(*proto.ColMap[K, V])
		kvs := v.([]ref.KV)
		if !vk.manual {
			arr := make([]proto.KV[K, V], len(kvs))
			for i, kv := range kvs {
				arr[i] = proto.KV[K, V]{Key: kk.to(kv.K), Value: vk.to(kv.V)}
			}
			m.AppendKV(arr)
			return
		}
		for _, kv := range kvs {
			m.Keys.Append(kk.to(kv.K))
			vk.app(m.Values, kv.V)
		}
		m.Offsets.Append(uint64(m.Keys.Rows()))
	}
	r.row = func(c proto.ColumnOf[map[K]V], i int) ref.Val {
		m := c.(*proto.ColMap[K, V])
		if !vk.manual {
			kvs := m.RowKV(i)
			out := make([]ref.KV, len(kvs))
			for j, kv := range kvs {
				out[j] = ref.KV{K: kk.from(kv.Key), V: vk.from(kv.Value)}
			}
			return out
		}
		var start int
		if i > 0 {
			start = int(m.Offsets[i-1])
		}
		end := int(m.Offsets[i])
		out := make([]ref.KV, 0, end-start)
		for j := start; j < end; j++ {
			out = append(out, ref.KV{K: kk.from(m.Keys.Row(j)), V: vk.row(m.Values, j)})
		}
		return out
	}
	return r
}

func named[T any](k tk[T], name string) tk[T] {
	r := k
	r.mk = func() proto.ColumnOf[T] { return proto.Named[T](k.mk(), name) }
	return r
}

// ---- scalars ---------------------------------------------------------------

func bytesGen(width int, boundaries ...[]byte) *rapid.Generator[ref.Val] {
	zero := make([]byte, width)
	ones := make([]byte, width)
	for i := range ones {
		ones[i] = 0xff
	}
	one := make([]byte, width)
	one[0] = 1
	minv := make([]byte, width)
	minv[width-1] = 0x80
	maxv := make([]byte, width)
	for i := range maxv {
		maxv[i] = 0xff
	}
	maxv[width-1] = 0x7f
	b := [][]byte{zero, ones, one, minv, maxv}
	b = append(b, boundaries...)
	return rapid.Custom(func(t *rapid.T) ref.Val {
		if rapid.IntRange(0, 3).Draw(t, "bias") == 0 {
			return append([]byte(nil), b[rapid.IntRange(0, len(b)-1).Draw(t, "boundary")]...)
		}
		return rapid.SliceOfN(rapid.Byte(), width, width).Draw(t, "bytes")
	})
}

func le(width int, v uint64) []byte {
	b := make([]byte, 8)
	binary.LittleEndian.PutUint64(b, v)
	return b[:width]
}

func leU(b []byte) uint64 {
	var x [8]byte
	copy(x[:], b)
	return binary.LittleEndian.Uint64(x[:])
}

type integer interface {
	~int8 | ~int16 | ~int32 | ~int64 | ~uint8 | ~uint16 | ~uint32 | ~uint64
}

func intKind[T integer](name string, width int, mk func() proto.ColumnOf[T], zc bool) tk[T] {
	return tk[T]{
		t: ref.Fixed(name, width), mk: mk, zc: zc, scalar: name,
		to:   func(v ref.Val) T { return T(leU(v.([]byte))) },
		from: func(v T) ref.Val { return le(width, uint64(v)) },
		val:  bytesGen(width),
	}
}

func u128(b []byte) proto.UInt128 {
	return proto.UInt128{Low: binary.LittleEndian.Uint64(b[:8]), High: binary.LittleEndian.Uint64(b[8:16])}
}
func b128(v proto.UInt128) []byte {
	b := make([]byte, 16)
	binary.LittleEndian.PutUint64(b[:8], v.Low)
	binary.LittleEndian.PutUint64(b[8:], v.High)
	return b
}
func u256(b []byte) proto.UInt256 { return proto.UInt256{Low: u128(b[:16]), High: u128(b[16:32])} }
func b256(v proto.UInt256) []byte { return append(b128(v.Low), b128(v.High)...) }

func swapUUID(b []byte) []byte {
	out := make([]byte, 16)
	for i := 0; i < 8; i++ {
		out[i] = b[7-i]
		out[8+i] = b[15-i]
	}
	return out
}

func strLenGen(thorough bool) *rapid.Generator[int] {
	gens := []*rapid.Generator[int]{
		rapid.IntRange(0, 8), rapid.IntRange(0, 8), rapid.IntRange(0, 40),
		rapid.SampledFrom([]int{0, 1, 127, 128, 129, 255, 256}),
		// rarely (1 value in 40): the second boundary of the length prefix
		rapid.OneOf(rapid.IntRange(0, 8), rapid.IntRange(0, 8), rapid.IntRange(0, 8), rapid.IntRange(0, 8), rapid.IntRange(0, 8), rapid.IntRange(0, 8), rapid.IntRange(0, 8),
			rapid.SampledFrom([]int{4095, 4096, 4097, 16383, 16384, 16385, 65535, 65536, 65537})),
	}
	return rapid.OneOf(gens...)
}

// Expand deterministically expands (seed, n) into n bytes.
func Expand(seed uint64, n int) []byte {
	out := make([]byte, n)
	x := seed | 1
	for i := range out {
		x ^= x << 13
		x ^= x >> 7
		x ^= x << 17
		out[i] = byte(x >> 24)
	}
	return out
}

func strGen() *rapid.Generator[ref.Val] {
	return rapid.Custom(func(t *rapid.T) ref.Val {
		n := strLenGen(false).Draw(t, "strlen")
		if n <= 40 {
			return rapid.SliceOfN(rapid.Byte(), n, n).Draw(t, "str")
		}
		return Expand(rapid.Uint64().Draw(t, "strseed"), n)
	})
}

// BigStr draws strings around the 16383/16384 varint boundary.
func BigStr() *rapid.Generator[ref.Val] {
	return rapid.Custom(func(t *rapid.T) ref.Val {
		n := rapid.SampledFrom([]int{16382, 16383, 16384, 16385, 20000}).Draw(t, "biglen")
		return Expand(rapid.Uint64().Draw(t, "strseed"), n)
	})
}

func fixedStrKind(n int) tk[[]byte] {
	name := fmt.Sprintf("FixedString(%d)", n)
	return tk[[]byte]{
		t: ref.Fixed(name, n), scalar: "FixedString", zc: true,
		mk:   func() proto.ColumnOf[[]byte] { return &proto.ColFixedStr{Size: n} },
		to:   func(v ref.Val) []byte { return append([]byte(nil), v.([]byte)...) },
		from: func(v []byte) ref.Val { return append([]byte(nil), v...) },
		val:  bytesGen(n),
	}
}

// Documented ranges used for the time.Time-valued columns.
const (
	date32Lo = -25567 // 1900-01-01
	date32Hi = 120529 // 2299-12-31
)

func pow10(n int) int64 {
	v := int64(1)
	for i := 0; i < n; i++ {
		v *= 10
	}
	return v
}

func floorDiv(a, b int64) int64 {
	q := a / b
	if a%b != 0 && (a < 0) != (b < 0) {
		q--
	}
	return q
}

func dt64Kind(p int, loc *time.Location, locName string) tk[time.Time] {
	name := fmt.Sprintf("DateTime64(%d)", p)
	if loc != nil {
		name = fmt.Sprintf("DateTime64(%d, '%s')", p, locName)
	}
	tps := pow10(p)
	scale := pow10(9 - p)
	// Documented range, kept inside what int64 nanoseconds can hold so that
	// block-level checks are not polluted by conversion defects (those belong to C20).
	lo := int64(-2208988800) * tps
	hi := int64(9223372035) * tps
	return tk[time.Time]{
		t: ref.Fixed(name, 8), scalar: "DateTime64", zc: true,
		mk: func() proto.ColumnOf[time.Time] {
			c := new(proto.ColDateTime64).WithPrecision(proto.Precision(p))
			if loc != nil {
				c.WithLocation(loc)
			}
			return c
		},
		to: func(v ref.Val) time.Time {
			x := int64(leU(v.([]byte)))
			if x == 0 {
				return time.Time{} // the library maps the zero time to 0 and back to the epoch
			}
			sec := floorDiv(x, tps)
			return time.Unix(sec, (x-sec*tps)*scale)
		},
		from: func(v time.Time) ref.Val {
			if v.IsZero() {
				return le(8, 0)
			}
			return le(8, uint64(v.Unix()*tps+int64(v.Nanosecond())/scale))
		},
		val: rapid.Custom(func(t *rapid.T) ref.Val {
			x := rapid.OneOf(rapid.Int64Range(lo, hi), rapid.Int64Range(-5, 5), rapid.SampledFrom([]int64{lo, hi, 0})).Draw(t, "dt64")
			return le(8, uint64(x))
		}),
	}
}

const enum8Def = "Enum8('a' = 1, 'b' = 2, 'c' = -3, 'dd' = 127, '' = -128)"
// (one member name ends in an escaped backslash, the way the server prints the name y\ : the quote
// behind it closes the name; the library keeps member names in their escaped spelling)
const enum16Def = `Enum16('x' = 1000, 'y\\' = -1000, 'zz' = 32767, 'w' = 0)`

func enumKind(def string, width int, names map[int64]string) tk[string] {
	rev := map[string]int64{}
	var raws []int64
	for r, n := range names {
		rev[n] = r
		raws = append(raws, r)
	}
	sort.Slice(raws, func(i, j int) bool { return raws[i] < raws[j] })
	return tk[string]{
		t: ref.Fixed(def, width), scalar: "Enum", prep: true,
		mk: func() proto.ColumnOf[string] {
			c := new(proto.ColEnum)
			if err := c.Infer(proto.ColumnType(def)); err != nil {
				panic(err)
			}
			return c
		},
		to: func(v ref.Val) string {
			b := v.([]byte)
			var x int64
			if width == 1 {
				x = int64(int8(b[0]))
			} else {
				x = int64(int16(binary.LittleEndian.Uint16(b)))
			}
			return names[x]
		},
		from: func(s string) ref.Val { return le(width, uint64(rev[s])) },
		val: rapid.Custom(func(t *rapid.T) ref.Val {
			return le(width, uint64(raws[rapid.IntRange(0, len(raws)-1).Draw(t, "enum")]))
		}),
	}
}

// Kinds is the catalog; Scalars the scalar subset (used for tuple members).
var (
	Kinds   []*Kind
	ByName  = map[string]*Kind{}
	Scalars []*Kind
)

func add(k *Kind) {
	if _, dup := ByName[k.Name+"|"+k.Shape+"|"+k.Scalar]; dup {
		return
	}
	ByName[k.Name+"|"+k.Shape+"|"+k.Scalar] = k
	Kinds = append(Kinds, k)
}

var strK = tk[string]{
	t: ref.String("String"), scalar: "String",
	mk:   func() proto.ColumnOf[string] { return new(proto.ColStr) },
	to:   func(v ref.Val) string { return string(v.([]byte)) },
	from: func(s string) ref.Val { return []byte(s) },
	val:  strGen(),
}

func lcStrK() tk[string] { return lcOf(strK) }

// regAny registers every shape that needs no comparable T.
func regAny[T any](s tk[T]) {
	k := erase(s, "X")
	add(k)
	Scalars = append(Scalars, k)
	add(erase(arrayOf(s), "Array(X)"))
	add(erase(arrayOf(arrayOf(s)), "Array(Array(X))"))
	add(erase(arrayOf(arrayOf(arrayOf(s))), "Array(Array(Array(X)))"))
	if s.t.Name != "Nothing" || true {
		add(erase(nullableOf(s), "Nullable(X)"))
		add(erase(arrayOf(nullableOf(s)), "Array(Nullable(X))"))
	}
	add(erase(mapOf(strK, s), "Map(String,X)"))
	add(erase(mapOf(strK, arrayOf(s)), "Map(String,Array(X))"))
	add(erase(arrayOf(mapOf(strK, s)), "Array(Map(String,X))"))
	add(erase(mapOf(strK, mapOf(strK, s)), "Map(String,Map(String,X))"))
	add(erase(mapOf(strK, nullableOf(s)), "Map(String,Nullable(X))"))
	add(erase(mapOf(lcStrK(), s), "Map(LowCardinality(String),X)"))
}

// reg registers every shape over a comparable scalar.
func reg[T comparable](s tk[T], lc bool) {
	regAny(s)
	add(erase(mapOf(s, strK), "Map(X,String)"))
	if lc {
		add(erase(lcOf(s), "LowCardinality(X)"))
		add(erase(arrayOf(lcOf(s)), "Array(LowCardinality(X))"))
		add(erase(mapOf(strK, lcOf(s)), "Map(String,LowCardinality(X))"))
		add(erase(arrayOf(arrayOf(lcOf(s))), "Array(Array(LowCardinality(X)))"))
	}
}

func init() {
	reg(intKind[int8]("Int8", 1, func() proto.ColumnOf[int8] { return new(proto.ColInt8) }, true), true)
	reg(intKind[int16]("Int16", 2, func() proto.ColumnOf[int16] { return new(proto.ColInt16) }, true), true)
	reg(intKind[int32]("Int32", 4, func() proto.ColumnOf[int32] { return new(proto.ColInt32) }, true), true)
	reg(intKind[int64]("Int64", 8, func() proto.ColumnOf[int64] { return new(proto.ColInt64) }, true), true)
	reg(intKind[uint8]("UInt8", 1, func() proto.ColumnOf[uint8] { return new(proto.ColUInt8) }, true), true)
	reg(intKind[uint16]("UInt16", 2, func() proto.ColumnOf[uint16] { return new(proto.ColUInt16) }, true), true)
	reg(intKind[uint32]("UInt32", 4, func() proto.ColumnOf[uint32] { return new(proto.ColUInt32) }, true), true)
	reg(intKind[uint64]("UInt64", 8, func() proto.ColumnOf[uint64] { return new(proto.ColUInt64) }, true), true)
	reg(intKind[proto.Enum8]("Enum8", 1, func() proto.ColumnOf[proto.Enum8] { return new(proto.ColEnum8) }, true), true)
	reg(intKind[proto.Enum16]("Enum16", 2, func() proto.ColumnOf[proto.Enum16] { return new(proto.ColEnum16) }, true), true)
	reg(intKind[proto.IPv4]("IPv4", 4, func() proto.ColumnOf[proto.IPv4] { return new(proto.ColIPv4) }, true), true)
	reg(intKind[proto.Decimal32]("Decimal32", 4, func() proto.ColumnOf[proto.Decimal32] { return new(proto.ColDecimal32) }, true), true)
	reg(intKind[proto.Decimal64]("Decimal64", 8, func() proto.ColumnOf[proto.Decimal64] { return new(proto.ColDecimal64) }, true), true)

	reg(tk[proto.Int128]{t: ref.Fixed("Int128", 16), scalar: "Int128", zc: true,
		mk:   func() proto.ColumnOf[proto.Int128] { return new(proto.ColInt128) },
		to:   func(v ref.Val) proto.Int128 { return proto.Int128(u128(v.([]byte))) },
		from: func(v proto.Int128) ref.Val { return b128(proto.UInt128(v)) }, val: bytesGen(16)}, true)
	reg(tk[proto.UInt128]{t: ref.Fixed("UInt128", 16), scalar: "UInt128", zc: true,
		mk:   func() proto.ColumnOf[proto.UInt128] { return new(proto.ColUInt128) },
		to:   func(v ref.Val) proto.UInt128 { return u128(v.([]byte)) },
		from: func(v proto.UInt128) ref.Val { return b128(v) }, val: bytesGen(16)}, true)
	reg(tk[proto.Int256]{t: ref.Fixed("Int256", 32), scalar: "Int256", zc: true,
		mk:   func() proto.ColumnOf[proto.Int256] { return new(proto.ColInt256) },
		to:   func(v ref.Val) proto.Int256 { return proto.Int256(u256(v.([]byte))) },
		from: func(v proto.Int256) ref.Val { return b256(proto.UInt256(v)) }, val: bytesGen(32)}, true)
	reg(tk[proto.UInt256]{t: ref.Fixed("UInt256", 32), scalar: "UInt256", zc: true,
		mk:   func() proto.ColumnOf[proto.UInt256] { return new(proto.ColUInt256) },
		to:   func(v ref.Val) proto.UInt256 { return u256(v.([]byte)) },
		from: func(v proto.UInt256) ref.Val { return b256(v) }, val: bytesGen(32)}, true)
	reg(tk[proto.Decimal128]{t: ref.Fixed("Decimal128", 16), scalar: "Decimal128", zc: true,
		mk:   func() proto.ColumnOf[proto.Decimal128] { return new(proto.ColDecimal128) },
		to:   func(v ref.Val) proto.Decimal128 { return proto.Decimal128(u128(v.([]byte))) },
		from: func(v proto.Decimal128) ref.Val { return b128(proto.UInt128(v)) }, val: bytesGen(16)}, true)
	reg(tk[proto.Decimal256]{t: ref.Fixed("Decimal256", 32), scalar: "Decimal256", zc: true,
		mk:   func() proto.ColumnOf[proto.Decimal256] { return new(proto.ColDecimal256) },
		to:   func(v ref.Val) proto.Decimal256 { return proto.Decimal256(u256(v.([]byte))) },
		from: func(v proto.Decimal256) ref.Val { return b256(proto.UInt256(v)) }, val: bytesGen(32)}, true)

	f32specials := [][]byte{le(4, uint64(math.Float32bits(float32(math.NaN())))), le(4, 0x7fc00001), le(4, 0x7f800000), le(4, 0xff800000), le(4, 0x80000000), le(4, 1), le(4, uint64(math.Float32bits(math.MaxFloat32)))}
	reg(tk[float32]{t: ref.Fixed("Float32", 4), scalar: "Float32", zc: true,
		mk:   func() proto.ColumnOf[float32] { return new(proto.ColFloat32) },
		to:   func(v ref.Val) float32 { return math.Float32frombits(uint32(leU(v.([]byte)))) },
		from: func(v float32) ref.Val { return le(4, uint64(math.Float32bits(v))) }, val: bytesGen(4, f32specials...)}, true)
	f64specials := [][]byte{le(8, math.Float64bits(math.NaN())), le(8, 0x7ff8000000000001), le(8, 0x7ff0000000000000), le(8, 0xfff0000000000000), le(8, 0x8000000000000000), le(8, 1), le(8, math.Float64bits(math.MaxFloat64))}
	reg(tk[float64]{t: ref.Fixed("Float64", 8), scalar: "Float64", zc: true,
		mk:   func() proto.ColumnOf[float64] { return new(proto.ColFloat64) },
		to:   func(v ref.Val) float64 { return math.Float64frombits(leU(v.([]byte))) },
		from: func(v float64) ref.Val { return le(8, math.Float64bits(v)) }, val: bytesGen(8, f64specials...)}, true)

	reg(strK, true)
	regAny(tk[[]byte]{t: ref.String("String"), scalar: "Bytes",
		mk:   func() proto.ColumnOf[[]byte] { return new(proto.ColBytes) },
		to:   func(v ref.Val) []byte { return append([]byte(nil), v.([]byte)...) },
		from: func(v []byte) ref.Val { return append([]byte(nil), v...) }, val: strGen()})
	jsonT := ref.String("JSON")
	jsonT.JSON = true
	regAny(tk[string]{t: jsonT, scalar: "JSON",
		mk:   func() proto.ColumnOf[string] { return new(proto.ColJSONStr) },
		to:   func(v ref.Val) string { return string(v.([]byte)) },
		from: func(s string) ref.Val { return []byte(s) }, val: strGen()})

	for _, n := range []int{1, 3, 20} {
		regAny(fixedStrKind(n))
	}
	reg(tk[[8]byte]{t: ref.Fixed("FixedString(8)", 8), scalar: "FixedStr8", zc: true,
		mk:   func() proto.ColumnOf[[8]byte] { return new(proto.ColFixedStr8) },
		to:   func(v ref.Val) [8]byte { return [8]byte(v.([]byte)) },
		from: func(v [8]byte) ref.Val { return append([]byte(nil), v[:]...) }, val: bytesGen(8)}, true)
	reg(tk[[16]byte]{t: ref.Fixed("FixedString(16)", 16), scalar: "FixedStr16", zc: true,
		mk:   func() proto.ColumnOf[[16]byte] { return new(proto.ColFixedStr16) },
		to:   func(v ref.Val) [16]byte { return [16]byte(v.([]byte)) },
		from: func(v [16]byte) ref.Val { return append([]byte(nil), v[:]...) }, val: bytesGen(16)}, true)
	reg(tk[[64]byte]{t: ref.Fixed("FixedString(64)", 64), scalar: "FixedStr64", zc: true,
		mk:   func() proto.ColumnOf[[64]byte] { return new(proto.ColFixedStr64) },
		to:   func(v ref.Val) [64]byte { return [64]byte(v.([]byte)) },
		from: func(v [64]byte) ref.Val { return append([]byte(nil), v[:]...) }, val: bytesGen(64)}, false)
	reg(tk[[512]byte]{t: ref.Fixed("FixedString(512)", 512), scalar: "FixedStr512", zc: true,
		mk:   func() proto.ColumnOf[[512]byte] { return new(proto.ColFixedStr512) },
		to:   func(v ref.Val) [512]byte { return [512]byte(v.([]byte)) },
		from: func(v [512]byte) ref.Val { return append([]byte(nil), v[:]...) }, val: bytesGen(512)}, false)

	reg(tk[bool]{t: ref.Fixed("Bool", 1), scalar: "Bool", zc: true,
		mk: func() proto.ColumnOf[bool] { return new(proto.ColBool) },
		to: func(v ref.Val) bool { return v.([]byte)[0] == 1 },
		from: func(v bool) ref.Val {
			if v {
				return []byte{1}
			}
			return []byte{0}
		},
		val: rapid.Custom(func(t *rapid.T) ref.Val { return []byte{byte(rapid.IntRange(0, 1).Draw(t, "bool"))} })}, false)

	reg(tk[uuid.UUID]{t: ref.Fixed("UUID", 16), scalar: "UUID",
		mk:   func() proto.ColumnOf[uuid.UUID] { return new(proto.ColUUID) },
		to:   func(v ref.Val) uuid.UUID { return uuid.UUID(swapUUID(v.([]byte))) },
		from: func(v uuid.UUID) ref.Val { return swapUUID(v[:]) }, val: bytesGen(16)}, false)
	reg(tk[proto.IPv6]{t: ref.Fixed("IPv6", 16), scalar: "IPv6", zc: true,
		mk:   func() proto.ColumnOf[proto.IPv6] { return new(proto.ColIPv6) },
		to:   func(v ref.Val) proto.IPv6 { return proto.IPv6(v.([]byte)) },
		from: func(v proto.IPv6) ref.Val { return append([]byte(nil), v[:]...) }, val: bytesGen(16)}, true)

	reg(tk[time.Time]{t: ref.Fixed("Date", 2), scalar: "Date", zc: true,
		mk: func() proto.ColumnOf[time.Time] { return new(proto.ColDate) },
		to: func(v ref.Val) time.Time {
			return zeroTimeFor0(int64(leU(v.([]byte))), time.Unix(int64(leU(v.([]byte)))*86400, 0).UTC())
		},
		from: func(v time.Time) ref.Val { return le(2, uint64(floorDiv(unixOrZero(v), 86400))) }, val: bytesGen(2)}, true)
	reg(tk[time.Time]{t: ref.Fixed("Date32", 4), scalar: "Date32", zc: true,
		mk: func() proto.ColumnOf[time.Time] { return new(proto.ColDate32) },
		to: func(v ref.Val) time.Time {
			return zeroTimeFor0(int64(int32(leU(v.([]byte)))), time.Unix(int64(int32(leU(v.([]byte))))*86400, 0).UTC())
		},
		from: func(v time.Time) ref.Val { return le(4, uint64(floorDiv(unixOrZero(v), 86400))) },
		val: rapid.Custom(func(t *rapid.T) ref.Val {
			d := rapid.OneOf(rapid.Int32Range(date32Lo, date32Hi), rapid.Int32Range(-3, 3), rapid.SampledFrom([]int32{date32Lo, date32Hi})).Draw(t, "date32")
			return le(4, uint64(d))
		})}, true)
	dtK := func(name string, loc *time.Location) tk[time.Time] {
		return tk[time.Time]{t: ref.Fixed(name, 4), scalar: "DateTime", zc: true,
			mk: func() proto.ColumnOf[time.Time] { return &proto.ColDateTime{Location: loc} },
			to: func(v ref.Val) time.Time {
				return zeroTimeFor0(int64(leU(v.([]byte))), time.Unix(int64(leU(v.([]byte))), 0))
			},
			from: func(v time.Time) ref.Val { return le(4, uint64(unixOrZero(v))) }, val: bytesGen(4)}
	}
	reg(dtK("DateTime", nil), true)
	regAny(dtK("DateTime('UTC')", time.UTC))
	regAny(dt64Kind(0, nil, ""))
	regAny(dt64Kind(3, nil, ""))
	regAny(dt64Kind(9, nil, ""))
	regAny(dt64Kind(6, time.UTC, "UTC"))
	reg(tk[proto.DateTime64]{t: ref.Fixed("DateTime64(3)", 8), scalar: "DateTime64Raw", zc: true,
		mk: func() proto.ColumnOf[proto.DateTime64] {
			return new(proto.ColDateTime64).WithPrecision(3).Raw()
		},
		to:   func(v ref.Val) proto.DateTime64 { return proto.DateTime64(leU(v.([]byte))) },
		from: func(v proto.DateTime64) ref.Val { return le(8, uint64(v)) }, val: bytesGen(8)}, false)

	regAny(enumKind(enum8Def, 1, map[int64]string{1: "a", 2: "b", -3: "c", 127: "dd", -128: ""}))
	regAny(enumKind(enum16Def, 2, map[int64]string{1000: "x", -1000: `y\\`, 32767: "zz", 0: "w"}))

	f64 := ref.Fixed("Float64", 8)
	pointT := &ref.Type{K: ref.KTuple, Name: "Point", Elem: []*ref.Type{f64, f64}, Names: []string{"", ""}}
	f64gen := bytesGen(8, f64specials...)
	regAny(tk[proto.Point]{t: pointT, scalar: "Point", zc: true,
		mk: func() proto.ColumnOf[proto.Point] { return new(proto.ColPoint) },
		to: func(v ref.Val) proto.Point {
			p := v.([]ref.Val)
			return proto.Point{X: math.Float64frombits(leU(p[0].([]byte))), Y: math.Float64frombits(leU(p[1].([]byte)))}
		},
		from: func(p proto.Point) ref.Val {
			return []ref.Val{le(8, math.Float64bits(p.X)), le(8, math.Float64bits(p.Y))}
		},
		val: rapid.Custom(func(t *rapid.T) ref.Val {
			return []ref.Val{f64gen.Draw(t, "x"), f64gen.Draw(t, "y")}
		})})
	regAny(tk[proto.Nothing]{t: ref.Fixed("Nothing", 1), scalar: "Nothing",
		mk:   func() proto.ColumnOf[proto.Nothing] { return new(proto.ColNothing) },
		to:   func(ref.Val) proto.Nothing { return proto.Nothing{} },
		from: func(proto.Nothing) ref.Val { return []byte{0} },
		val:  rapid.Custom(func(t *rapid.T) ref.Val { rapid.Bool().Draw(t, "nothing"); return []byte{0} })})

	// Erased-only kinds.
	for s := 0; s < 8; s++ {
		scale := proto.IntervalScale(s)
		add(&Kind{Name: scale.String(), T: ref.Fixed(scale.String(), 8), Scalar: "Interval", Shape: "X", ZeroCopy: true,
			Value: bytesGen(8),
			New:   func() Col { return &intervalCol{c: &proto.ColInterval{Scale: scale}} }})
	}
	addRawOf()
	// Decimal(P, S) spellings (what a server prints), carried by the DecimalN columns through proto.Alias.
	for _, ps := range [][2]int{{1, 0}, {9, 2}, {10, 3}, {18, 4}, {19, 4}, {38, 10}, {39, 5}, {76, 20}} {
		p, sc := ps[0], ps[1]
		name := fmt.Sprintf("Decimal(%d, %d)", p, sc)
		width := 4
		switch {
		case p > 38:
			width = 32
		case p > 18:
			width = 16
		case p > 9:
			width = 8
		}
		w := width
		add(&Kind{Name: name, T: ref.Fixed(name, w), Scalar: "DecimalPS", Shape: "X", ZeroCopy: true, Value: bytesGen(w),
			New: func() Col { return newAliasDecimal(name, w) }})
	}
}

// aliasDecimalCol is a DecimalN column aliased to its Decimal(P, S) type name.
type aliasDecimalCol struct {
	col   proto.Column
	w     int
	app   func(b []byte)
	rowFn func(i int) []byte
}

func newAliasDecimal(name string, w int) *aliasDecimalCol {
	a := &aliasDecimalCol{w: w}
	switch w {
	case 4:
		c := new(proto.ColDecimal32)
		a.app = func(b []byte) { c.Append(proto.Decimal32(int32(leU(b)))) }
		a.rowFn = func(i int) []byte { return le(4, uint64(uint32(c.Row(i)))) }
		a.col = proto.Alias(c, proto.ColumnType(name))
	case 8:
		c := new(proto.ColDecimal64)
		a.app = func(b []byte) { c.Append(proto.Decimal64(int64(leU(b)))) }
		a.rowFn = func(i int) []byte { return le(8, uint64(c.Row(i))) }
		a.col = proto.Alias(c, proto.ColumnType(name))
	case 16:
		c := new(proto.ColDecimal128)
		a.app = func(b []byte) { c.Append(proto.Decimal128(u128(b))) }
		a.rowFn = func(i int) []byte { return b128(proto.UInt128(c.Row(i))) }
		a.col = proto.Alias(c, proto.ColumnType(name))
	default:
		c := new(proto.ColDecimal256)
		a.app = func(b []byte) { c.Append(proto.Decimal256(u256(b))) }
		a.rowFn = func(i int) []byte { return b256(proto.UInt256(c.Row(i))) }
		a.col = proto.Alias(c, proto.ColumnType(name))
	}
	return a
}

func (a *aliasDecimalCol) Column() proto.Column { return a.col }
func (a *aliasDecimalCol) Append(v ref.Val)     { a.app(v.([]byte)) }
func (a *aliasDecimalCol) AppendBulk(vs []ref.Val) {
	for _, v := range vs {
		a.Append(v)
	}
}
func (a *aliasDecimalCol) Row(i int) ref.Val { return a.rowFn(i) }

type intervalCol struct{ c *proto.ColInterval }

func (c *intervalCol) Column() proto.Column { return c.c }
func (c *intervalCol) Append(v ref.Val) {
	c.c.Append(proto.Interval{Scale: c.c.Scale, Value: int64(leU(v.([]byte)))})
}
func (c *intervalCol) AppendBulk(vs []ref.Val) {
	for _, v := range vs {
		c.Append(v)
	}
}
func (c *intervalCol) Row(i int) ref.Val { return le(8, uint64(c.c.Row(i).Value)) }

// TupleOf builds an erased Tuple kind over member kinds (top level only).
func TupleOf(names []string, members ...*Kind) *Kind {
	var ts []*ref.Type
	zc, prep := false, false
	for _, m := range members {
		ts = append(ts, m.T)
		zc = zc || m.ZeroCopy
		prep = prep || m.Prep
	}
	t := ref.Tuple(names, ts...)
	key := "tuple:" + strings.Join(names, ",")
	for _, m := range members {
		key += "||" + m.Key()
	}
	return &Kind{
		Name: t.Name, T: t, Scalar: "Tuple", Shape: "Tuple", ZeroCopy: zc, Prep: prep, key: key,
		Value: rapid.Custom(func(rt *rapid.T) ref.Val {
			out := make([]ref.Val, len(members))
			for i, m := range members {
				out[i] = m.Value.Draw(rt, "member")
			}
			return out
		}),
		New: func() Col {
			tc := &tupleCol{}
			for i, m := range members {
				isNamed := names != nil && names[i] != ""
				var c Col
				if isNamed && m.NewNamed != nil {
					c = m.NewNamed(names[i])
				} else {
					c = m.New()
				}
				tc.members = append(tc.members, c)
				col := c.Column()
				if isNamed && m.NewNamed == nil {
					col = namedColumn{Column: col, name: names[i]}
				}
				tc.col = append(tc.col, col)
			}
			return tc
		},
	}
}

// namedColumn gives a tuple member a name the way proto.ColNamed does
// ("name Type"), for erased members; state/prepare/infer are forwarded.
type namedColumn struct {
	proto.Column
	name string
}

func (n namedColumn) Type() proto.ColumnType {
	return proto.ColumnType(n.name + " " + n.Column.Type().String())
}
func (n namedColumn) EncodeState(b *proto.Buffer) {
	if s, ok := n.Column.(proto.StateEncoder); ok {
		s.EncodeState(b)
	}
}
func (n namedColumn) DecodeState(r *proto.Reader) error {
	if s, ok := n.Column.(proto.StateDecoder); ok {
		return s.DecodeState(r)
	}
	return nil
}
func (n namedColumn) Prepare() error {
	if s, ok := n.Column.(proto.Preparable); ok {
		return s.Prepare()
	}
	return nil
}

type tupleCol struct {
	col     proto.ColTuple
	members []Col
}

func (c *tupleCol) Column() proto.Column { return c.col }
func (c *tupleCol) Append(v ref.Val) {
	for i, m := range c.members {
		m.Append(v.([]ref.Val)[i])
	}
}
func (c *tupleCol) AppendBulk(vs []ref.Val) {
	for _, v := range vs {
		c.Append(v)
	}
}
func (c *tupleCol) Row(i int) ref.Val {
	out := make([]ref.Val, len(c.members))
	for j, m := range c.members {
		out[j] = m.Row(i)
	}
	return out
}

// DrawKind picks a kind: mostly from the catalog, sometimes a tuple.
func DrawKind(t *rapid.T, label string) *Kind {
	if rapid.IntRange(0, 9).Draw(t, label+":tuple?") == 0 {
		n := rapid.IntRange(1, 4).Draw(t, "tuple-arity")
		var ms []*Kind
		var names []string
		isNamed := rapid.Bool().Draw(t, "tuple-named")
		for i := 0; i < n; i++ {
			ms = append(ms, Kinds[rapid.IntRange(0, len(Kinds)-1).Draw(t, "tuple-member")])
			if isNamed {
				names = append(names, fmt.Sprintf("f%d", i))
			}
		}
		return TupleOf(names, ms...)
	}
	return Kinds[rapid.IntRange(0, len(Kinds)-1).Draw(t, label)]
}

// DrawRows draws n values of kind k.
// zeroTimeFor0: the raw value 0 of a date/time column is handed to the library as the zero
// time.Time (which it documents as 0), every other value as the instant itself.
func zeroTimeFor0(raw int64, t time.Time) time.Time {
	if raw == 0 {
		return time.Time{}
	}
	return t
}

// unixOrZero: a column that keeps the caller's values (LowCardinality) hands the zero time back as it is.
func unixOrZero(v time.Time) int64 {
	if v.IsZero() {
		return 0
	}
	return v.Unix()
}

func DrawRows(t *rapid.T, k *Kind, n int) []ref.Val {
	out := make([]ref.Val, n)
	if n > 1100 {
		// Thousands of rows: one drawn seed, values expanded from it (a draw per value would
		// make the case, and above all its shrinking, too slow). A few values are still drawn.
		seed := rapid.IntRange(1, 1<<30).Draw(t, "rows-seed")
		for i := range out {
			out[i] = k.Value.Example(seed + i%997)
		}
		for j := 0; j < 4; j++ {
			out[rapid.IntRange(0, n-1).Draw(t, "drawn-row")] = k.Value.Draw(t, "v")
		}
		return out
	}
	for i := range out {
		out[i] = k.Value.Draw(t, "v")
	}
	return out
}

func RowCount() *rapid.Generator[int] {
	return rapid.OneOf(rapid.IntRange(0, 4), rapid.IntRange(0, 4), rapid.IntRange(0, 30), rapid.Just(0), rapid.Just(1))
}

// RowCountWide is RowCount plus, one draw in ten, a count on or next to a
// power-of-two boundary (chunked or batched decoders tend to break there).
func RowCountWide() *rapid.Generator[int] {
	boundary := rapid.OneOf(rapid.SampledFrom([]int{31, 32, 33, 63, 64, 65, 127, 128, 129, 192, 255, 256, 257, 512, 1023, 1024, 1025}),
		rapid.SampledFrom([]int{31, 32, 33, 63, 64, 65, 127, 128, 129, 192, 255, 256, 257, 512, 1023, 1024, 1025}),
		rapid.SampledFrom([]int{31, 32, 33, 63, 64, 65, 127, 128, 129, 192, 255, 256, 257, 512, 1023, 1024, 1025}),
		// one boundary draw in four (one case in forty): thousands of rows, on and around page-sized chunks
		rapid.SampledFrom([]int{4095, 4096, 4097, 8192, 10000}))
	return rapid.OneOf(rapid.IntRange(0, 4), rapid.IntRange(0, 4), rapid.IntRange(0, 4), rapid.IntRange(0, 30), rapid.IntRange(0, 30),
		rapid.Just(0), rapid.Just(0), rapid.Just(1), rapid.Just(1), boundary)
}

// Key identifies a kind across processes (for replay files).
func (k *Kind) Key() string {
	if k.key != "" {
		return k.key
	}
	return k.Name + "|" + k.Shape + "|" + k.Scalar
}

// KindByKey finds a kind from its Key (also rebuilds tuple kinds).
func KindByKey(key string) (*Kind, error) {
	if rest, ok := strings.CutPrefix(key, "tuple:"); ok {
		parts := strings.Split(rest, "||")
		var names []string
		if parts[0] != "" {
			names = strings.Split(parts[0], ",")
		}
		var ms []*Kind
		for _, p := range parts[1:] {
			m, err := KindByKey(p)
			if err != nil {
				return nil, err
			}
			ms = append(ms, m)
		}
		return TupleOf(names, ms...), nil
	}
	if k, ok := ByName[key]; ok {
		return k, nil
	}
	return nil, fmt.Errorf("unknown kind %q", key)
}

// Overwriter is implemented by erased columns that can overwrite row i in place
// (a direct write into the column's own memory, without Reset).
type Overwriter interface {
	Overwrite(i int, v ref.Val) bool
}

// Overwrite writes v over row i of a typed column through its exported
// representation: slice-typed columns (`*ColInt32` = `*[]int32`), columns with a
// `Values []T` field (ColEnum, ColLowCardinality) and ColFixedStr's `Buf`.
func (c *tcol[T]) Overwrite(i int, v ref.Val) (ok bool) {
	if c.k.manual || c.k.t.K == ref.KArray || c.k.t.K == ref.KNullable || c.k.t.K == ref.KMap || c.k.t.K == ref.KTuple {
		return false
	}
	defer func() {
		if recover() != nil {
			ok = false
		}
	}()
	val := reflect.ValueOf(c.k.to(v))
	rv := reflect.ValueOf(c.raw)
	if rv.Kind() != reflect.Pointer {
		return false
	}
	el := rv.Elem()
	switch el.Kind() {
	case reflect.Slice:
		if i >= el.Len() || !val.Type().AssignableTo(el.Type().Elem()) {
			return false
		}
		el.Index(i).Set(val)
		return true
	case reflect.Struct:
		if f := el.FieldByName("Values"); f.IsValid() && f.Kind() == reflect.Slice && f.CanSet() {
			if i >= f.Len() || !val.Type().AssignableTo(f.Type().Elem()) {
				return false
			}
			f.Index(i).Set(val)
			return true
		}
		if fs, isFS := any(c.raw).(*proto.ColFixedStr); isFS {
			b, isBytes := any(c.k.to(v)).([]byte)
			if !isBytes || len(b) != fs.Size || (i+1)*fs.Size > len(fs.Buf) {
				return false
			}
			copy(fs.Buf[i*fs.Size:], b)
			return true
		}
	}
	return false
}
