package simnet

import (
	"sync"
)

// Sched parks client goroutines at gates until the harness releases them.
type Sched struct {
	mu      sync.Mutex
	On      bool
	waiting []*Waiter
	Trace   []string
}

type Waiter struct {
	Name string
	ch   chan struct{}
}

// Gate blocks the calling goroutine until released (no-op when off).
func (s *Sched) Gate(name string) {
	s.mu.Lock()
	if !s.On {
		s.mu.Unlock()
		return
	}
	w := &Waiter{Name: name, ch: make(chan struct{})}
	s.waiting = append(s.waiting, w)
	s.mu.Unlock()
	<-w.ch
}

// Pending returns the goroutines currently parked at gates (in arrival order).
func (s *Sched) Pending() []*Waiter {
	s.mu.Lock()
	defer s.mu.Unlock()
	return append([]*Waiter(nil), s.waiting...)
}

// Release lets the i-th parked goroutine continue.
func (s *Sched) Release(w *Waiter) {
	s.mu.Lock()
	for i, x := range s.waiting {
		if x == w {
			s.waiting = append(s.waiting[:i], s.waiting[i+1:]...)
			break
		}
	}
	s.Trace = append(s.Trace, "release:"+w.Name)
	s.mu.Unlock()
	close(w.ch)
}

// Off disables gating and releases everything parked.
func (s *Sched) Off() {
	s.mu.Lock()
	s.On = false
	ws := s.waiting
	s.waiting = nil
	s.mu.Unlock()
	for _, w := range ws {
		close(w.ch)
	}
}
