package simnet

import (
	"sync"
	"time"

	"verif/harness/ref"
)

// Step is one scripted server emission.
type Step struct {
	Name  string
	When  func(s *ref.ClientStream) bool    // causal precondition on what the client has written (nil = none)
	Bytes func(cs *ref.ClientStream) []byte // encoded lazily: the negotiated revision is known only after the client hello
	Segs  []int                             // segmentation of the bytes (nil = one segment)
	Delay time.Duration                     // virtual delay between precondition and emission (free-running mode)
	Then  func(c *Conn)                     // e.g. cut the connection after emitting
}

// Server is a reactive scripted server: its emissions are a function of the
// bytes the client has written so far.
type Server struct {
	mu     sync.Mutex
	Conn   *Conn
	Stream *ref.ClientStream
	Steps  []Step
	next   int
	busy   bool
	// Manual = true: steps are not emitted automatically; the scheduler calls
	// Ready/EmitNext (gated mode).
	Manual bool
	// OnPing answers Ping with Pong automatically (after all steps are done).
	AutoPong bool
	pongs    int
	Emitted  []string
	// Responder, when set, is called after every chunk of client bytes has been parsed (outside
	// the server lock) and may deliver responses itself (request/response servers).
	Responder func(s *Server)
}

func NewServer(c *Conn, serverRev int) *Server {
	s := &Server{Conn: c, Stream: &ref.ClientStream{ServerRev: serverRev}}
	c.Server = s
	return s
}

func (s *Server) onClientBytes(b []byte) {
	s.mu.Lock()
	s.Stream.Feed(b)
	s.mu.Unlock()
	if !s.Manual {
		s.pump()
	}
	if s.Responder != nil {
		s.Responder(s)
	}
}

// Ready reports whether the next step's precondition holds.
func (s *Server) Ready() bool {
	s.mu.Lock()
	defer s.mu.Unlock()
	if s.next < len(s.Steps) {
		st := s.Steps[s.next]
		return st.When == nil || st.When(s.Stream)
	}
	return s.AutoPong && s.Stream.Count(ref.PPing) > s.pongs
}

// Remaining reports how many scripted steps are left.
func (s *Server) Remaining() int {
	s.mu.Lock()
	defer s.mu.Unlock()
	return len(s.Steps) - s.next
}

// EmitNext emits the next step regardless of delay (gated mode).
func (s *Server) EmitNext() string {
	s.mu.Lock()
	if s.next >= len(s.Steps) {
		if s.AutoPong && s.Stream.Count(ref.PPing) > s.pongs {
			s.pongs++
			s.mu.Unlock()
			s.Conn.Deliver([]byte{ref.ServerPongCode}, nil)
			return "pong"
		}
		s.mu.Unlock()
		return ""
	}
	st := s.Steps[s.next]
	s.next++
	s.Emitted = append(s.Emitted, st.Name)
	var out []byte
	if st.Bytes != nil {
		out = st.Bytes(s.Stream)
	}
	s.mu.Unlock()
	if len(out) > 0 {
		s.Conn.Deliver(out, st.Segs)
	}
	if st.Then != nil {
		st.Then(s.Conn)
	}
	return st.Name
}

// pump emits every step whose precondition holds (free-running mode).
func (s *Server) pump() {
	for {
		s.mu.Lock()
		if s.busy {
			s.mu.Unlock()
			return
		}
		if s.next >= len(s.Steps) {
			if s.AutoPong && s.Stream.Count(ref.PPing) > s.pongs {
				s.pongs++
				s.mu.Unlock()
				s.Conn.Deliver([]byte{ref.ServerPongCode}, nil)
				continue
			}
			s.mu.Unlock()
			return
		}
		st := s.Steps[s.next]
		if st.When != nil && !st.When(s.Stream) {
			s.mu.Unlock()
			return
		}
		if st.Delay > 0 {
			s.busy = true
			s.mu.Unlock()
			time.AfterFunc(st.Delay, func() {
				s.mu.Lock()
				s.busy = false
				s.mu.Unlock()
				s.EmitNext()
				s.pump()
			})
			return
		}
		s.mu.Unlock()
		s.EmitNext()
	}
}

// Start begins emitting steps without preconditions (free-running mode).
func (s *Server) Start() {
	if !s.Manual {
		s.pump()
	}
}

// Common preconditions.

func AfterHello(s *ref.ClientStream) bool { return s.Count(ref.PHello) > 0 }

// AfterQuery: the query packet and the end-of-external-data marker were received.
func AfterQuery(n int) func(s *ref.ClientStream) bool {
	return func(s *ref.ClientStream) bool {
		if s.Count(ref.PQuery) < n {
			return false
		}
		for _, p := range s.DataSinceQuery() {
			if len(p.Block.Columns) == 0 && p.Block.Rows() == 0 {
				return true
			}
		}
		return false
	}
}

// AfterInputEnd: after the query, two empty data packets were received
// (end of external data, end of input).
func AfterInputEnd(s *ref.ClientStream) bool {
	n := 0
	for _, p := range s.DataSinceQuery() {
		if len(p.Block.Columns) == 0 && p.Block.Rows() == 0 {
			n++
		}
	}
	return n >= 2
}

// AfterDataBlocks: at least n non-empty data blocks since the last query.
func AfterDataBlocks(n int) func(s *ref.ClientStream) bool {
	return func(s *ref.ClientStream) bool {
		k := 0
		for _, p := range s.DataSinceQuery() {
			if len(p.Block.Columns) > 0 {
				k++
			}
		}
		return k >= n
	}
}

func AfterPing(n int) func(s *ref.ClientStream) bool {
	return func(s *ref.ClientStream) bool { return s.Count(ref.PPing) >= n }
}

// Snapshot of the parsed stream (under the server lock).
func (s *Server) WithStream(f func(cs *ref.ClientStream)) {
	s.mu.Lock()
	defer s.mu.Unlock()
	f(s.Stream)
}
