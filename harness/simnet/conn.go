// Package simnet provides a simulated net.Conn with a scripted, reactive
// server and an optional gate scheduler, for driving ch.Client offline inside
// testing/synctest bubbles (virtual time).
package simnet

import (
	"fmt"
	"net"
	"os"
	"sync"
	"time"

	"verif/harness/ref"
)

type Addr string

func (a Addr) Network() string { return "sim" }
func (a Addr) String() string  { return string(a) }

// WriteRec is one Write call of the client.
type WriteRec struct {
	Seq       int    // global order among writes and other recorded calls
	Attempt   []byte // what the caller tried to write
	Data      []byte // what was accepted
	At        time.Time
	Err       error
	AfterStop bool // issued after Close
}

// Call is one recorded method call on the connection (for "no further call").
type Call struct {
	Seq int
	Op  string
	At  time.Time
}

type Conn struct {
	mu   sync.Mutex
	wake chan struct{}

	// server -> client
	rq        [][]byte // queued segments
	rerr      error    // delivered once the queue is empty
	rdeadline time.Time
	delivered int // bytes handed to the client so far

	// client -> server
	Writes     []WriteRec
	written    int
	writeErrAt int // a write that would pass this total fails (short write + error); -1 = never
	wdeadline  time.Time

	closed     bool
	CloseCalls int
	Calls      []Call
	Local      Addr

	Sched  *Sched  // optional gates
	Server *Server // optional reactive server

	// StallReads makes Read block even when data is queued (used by faults).
	readsAfterClose int
	timeouts        int
	cut             bool
	seq             int
}

// ReadTimeouts returns how many reads ended with a deadline expiry.
func (c *Conn) ReadTimeouts() int {
	c.mu.Lock()
	defer c.mu.Unlock()
	return c.timeouts
}

func NewConn() *Conn {
	return &Conn{wake: make(chan struct{}), writeErrAt: -1, Local: "10.1.2.3:45678"}
}

func (c *Conn) signal() {
	close(c.wake)
	c.wake = make(chan struct{})
}

func (c *Conn) note(op string) {
	c.seq++
	c.Calls = append(c.Calls, Call{Seq: c.seq, Op: op, At: time.Now()})
}

// Deliver queues bytes from the server, in the given segments (nil = one).
func (c *Conn) Deliver(b []byte, segs []int) {
	c.mu.Lock()
	defer c.mu.Unlock()
	if c.cut {
		return
	}
	rest := b
	for _, s := range segs {
		if s <= 0 || len(rest) == 0 {
			continue
		}
		if s > len(rest) {
			s = len(rest)
		}
		c.rq = append(c.rq, append([]byte(nil), rest[:s]...))
		rest = rest[s:]
	}
	if len(rest) > 0 {
		c.rq = append(c.rq, append([]byte(nil), rest...))
	}
	c.signal()
}

// FailReads makes reads return err once queued data is consumed (io.EOF = orderly close).
func (c *Conn) FailReads(err error) {
	c.mu.Lock()
	c.rerr = err
	c.signal()
	c.mu.Unlock()
}

// CutReads drops everything queued and makes reads fail with err from now on.
func (c *Conn) CutReads(err error) {
	c.mu.Lock()
	c.rq = nil
	c.rerr = err
	c.cut = true
	c.signal()
	c.mu.Unlock()
}

// FailWritesAfter makes the write that would exceed total n bytes fail.
func (c *Conn) FailWritesAfter(n int) {
	c.mu.Lock()
	c.writeErrAt = n
	c.mu.Unlock()
}

func (c *Conn) gate(name string) {
	if c.Sched != nil {
		c.Sched.Gate(name)
	}
}

type timeoutErr struct{}

func (timeoutErr) Error() string   { return "i/o timeout" }
func (timeoutErr) Timeout() bool   { return true }
func (timeoutErr) Temporary() bool { return true }
func (timeoutErr) Is(t error) bool { return t == os.ErrDeadlineExceeded }

func (c *Conn) Read(p []byte) (int, error) {
	c.gate("read")
	for {
		c.mu.Lock()
		if c.closed {
			c.readsAfterClose++
			c.note("read-after-close")
			c.mu.Unlock()
			return 0, &net.OpError{Op: "read", Net: "sim", Err: net.ErrClosed}
		}
		if len(c.rq) > 0 {
			if len(p) == 0 {
				c.mu.Unlock()
				return 0, nil
			}
			seg := c.rq[0]
			n := copy(p, seg)
			if n == len(seg) {
				c.rq = c.rq[1:]
			} else {
				c.rq[0] = seg[n:]
			}
			c.delivered += n
			c.mu.Unlock()
			return n, nil
		}
		if c.rerr != nil {
			err := c.rerr
			c.mu.Unlock()
			return 0, err
		}
		dl := c.rdeadline
		wake := c.wake
		c.mu.Unlock()
		if dl.IsZero() {
			<-wake
			continue
		}
		d := time.Until(dl)
		if d <= 0 {
			c.mu.Lock()
			c.timeouts++
			c.mu.Unlock()
			return 0, &net.OpError{Op: "read", Net: "sim", Err: timeoutErr{}}
		}
		t := time.NewTimer(d)
		select {
		case <-wake:
			t.Stop()
		case <-t.C:
		}
	}
}

func (c *Conn) Write(p []byte) (int, error) {
	c.gate("write")
	c.mu.Lock()
	c.seq++
	rec := WriteRec{Seq: c.seq, Data: append([]byte(nil), p...), Attempt: append([]byte(nil), p...), At: time.Now()}
	if c.closed {
		rec.AfterStop = true
		rec.Err = net.ErrClosed
		c.Writes = append(c.Writes, rec)
		c.note("write-after-close")
		c.mu.Unlock()
		return 0, &net.OpError{Op: "write", Net: "sim", Err: net.ErrClosed}
	}
	if !c.wdeadline.IsZero() && !time.Now().Before(c.wdeadline) {
		rec.Data = nil
		rec.Err = timeoutErr{}
		c.Writes = append(c.Writes, rec)
		c.mu.Unlock()
		return 0, &net.OpError{Op: "write", Net: "sim", Err: timeoutErr{}}
	}
	n := len(p)
	var err error
	if c.writeErrAt >= 0 && c.written+n > c.writeErrAt {
		n = c.writeErrAt - c.written
		if n < 0 {
			n = 0
		}
		err = &net.OpError{Op: "write", Net: "sim", Err: fmt.Errorf("connection reset by peer")}
		rec.Data = rec.Data[:n]
		rec.Err = err
	}
	c.written += n
	c.Writes = append(c.Writes, rec)
	srv := c.Server
	c.mu.Unlock()
	if srv != nil && n > 0 {
		srv.onClientBytes(rec.Data[:n])
	}
	return n, err
}

func (c *Conn) Close() error {
	// No gate here: ch.Client.Close calls conn.Close while holding its mutex, and a goroutine
	// waiting for that mutex is not durably blocked, so synctest.Wait would never return.
	c.mu.Lock()
	defer c.mu.Unlock()
	c.CloseCalls++
	c.note("close")
	if c.closed {
		return &net.OpError{Op: "close", Net: "sim", Err: net.ErrClosed}
	}
	c.closed = true
	c.signal()
	return nil
}

func (c *Conn) LocalAddr() net.Addr {
	c.gate("localaddr")
	return c.Local
}
func (c *Conn) RemoteAddr() net.Addr { return Addr("10.9.9.9:9000") }

func (c *Conn) SetDeadline(t time.Time) error {
	_ = c.SetReadDeadline(t)
	return c.SetWriteDeadline(t)
}

func (c *Conn) SetReadDeadline(t time.Time) error {
	c.gate("setreaddeadline")
	c.mu.Lock()
	defer c.mu.Unlock()
	if c.closed {
		c.note("setreaddeadline-after-close")
		return &net.OpError{Op: "set", Net: "sim", Err: net.ErrClosed}
	}
	c.rdeadline = t
	c.signal()
	return nil
}

func (c *Conn) SetWriteDeadline(t time.Time) error {
	c.gate("setwritedeadline")
	c.mu.Lock()
	defer c.mu.Unlock()
	if c.closed {
		c.note("setwritedeadline-after-close")
		return &net.OpError{Op: "set", Net: "sim", Err: net.ErrClosed}
	}
	c.wdeadline = t
	return nil
}

// Closed reports whether Close was called.
func (c *Conn) Closed() bool {
	c.mu.Lock()
	defer c.mu.Unlock()
	return c.closed
}

// ForceClose closes from the harness side (not counted as a client call).
func (c *Conn) ForceClose() {
	c.mu.Lock()
	if !c.closed {
		c.closed = true
		c.signal()
	}
	c.mu.Unlock()
}

// WrittenBytes returns everything the client wrote successfully, concatenated.
func (c *Conn) WrittenBytes() []byte {
	c.mu.Lock()
	defer c.mu.Unlock()
	var out []byte
	for _, w := range c.Writes {
		if !w.AfterStop {
			out = append(out, w.Data...)
		}
	}
	return out
}

// NumWrites returns the number of Write calls so far.
func (c *Conn) NumWrites() int {
	c.mu.Lock()
	defer c.mu.Unlock()
	return len(c.Writes)
}

// Snapshot returns copies of the recorded writes and calls.
func (c *Conn) Snapshot() ([]WriteRec, []Call) {
	c.mu.Lock()
	defer c.mu.Unlock()
	return append([]WriteRec(nil), c.Writes...), append([]Call(nil), c.Calls...)
}

// Unread returns server bytes queued but not yet read by the client.
func (c *Conn) Unread() int {
	c.mu.Lock()
	defer c.mu.Unlock()
	n := 0
	for _, s := range c.rq {
		n += len(s)
	}
	return n
}

// DeliveredBytes returns how many server bytes the client has read.
func (c *Conn) DeliveredBytes() int {
	c.mu.Lock()
	defer c.mu.Unlock()
	return c.delivered
}

var _ net.Conn = (*Conn)(nil)
var _ = ref.ErrShort
