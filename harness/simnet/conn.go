// Package simnet provides a simulated net.Conn with a scripted, reactive
// server and an optional gate scheduler, for driving ch.Client offline inside
// testing/synctest bubbles (virtual time).
package simnet

import (
	"errors"
	"fmt"
	"net"
	"os"
	"sync"
	"sync/atomic"
	"time"

	"verif/harness/ref"
)

type Addr string

func (a Addr) Network() string { return "sim" }
func (a Addr) String() string  { return string(a) }

// WriteRec is one Write call of the client.
type WriteRec struct {
	Seq       int    // global order among writes and other recorded calls
	Attempt   []byte // what the caller tried to write
	Data      []byte // what was accepted
	At        time.Time
	Err       error
	AfterStop bool // issued after Close
}

// Call is one recorded method call on the connection (for "no further call").
type Call struct {
	Seq int
	Op  string
	At  time.Time
}

// Conn's two directions share no lock (rmu guards the server->client side, wmu the
// client->server side, the closed flag and sequence counter are atomics), so that
// a race detector run is not blinded by happens-before edges a real socket would
// not create. The only cross-direction edge is causal: a client write is parsed
// by the reactive server, which may then queue a response.
type Conn struct {
	rmu  sync.Mutex
	wake chan struct{}

	// server -> client (rmu)
	rq        [][]byte // queued segments
	rerr      error    // delivered once the queue is empty
	rdeadline time.Time
	delivered int // bytes handed to the client so far
	timeouts  int
	lastTO    time.Time // instant of the last read timeout
	spin      int       // consecutive read timeouts at that same instant
	livelock  atomic.Bool
	// CloseDelay makes Close take this long (the connection stays open meanwhile).
	CloseDelay time.Duration
	cut        bool

	// client -> server (wmu)
	wmu        sync.Mutex
	Writes     []WriteRec
	written    int
	writeErrAt int // a write that would pass this total fails (short write + error); -1 = never
	wdeadline  time.Time

	closed     atomic.Bool
	seq        atomic.Int64
	cmu        sync.Mutex // Calls, CloseCalls
	CloseCalls int
	Calls      []Call
	Local      Addr

	Sched  *Sched  // optional gates
	Server *Server // optional reactive server

	// CloseErr, when set, is returned by the first Close although the connection
	// does get closed (like a TLS connection failing to send close_notify).
	CloseErr error

	// WriteErrTimeout makes the injected write failure (FailWritesAfter) a deadline
	// expiry (os.ErrDeadlineExceeded) instead of a reset: a blocked write that timed
	// out after part of the data went out.
	WriteErrTimeout bool

	stall          atomic.Bool   // writes block (peer not reading) until close or write deadline
	stallWake      chan struct{} // closed on Close
	stallOnce      sync.Once
	// Writes are serialised like on a socket (one writer holds the descriptor's write lock; a second
	// Write waits behind it, and that wait knows no deadline), and a blocked Write follows changes of
	// the write deadline.
	wsem       chan struct{} // capacity 1, created by NewConn
	wdlChanged chan struct{} // closed and replaced by SetWriteDeadline (wmu)
	stallCloseOnce sync.Once
}

// StallWrites makes every following Write block like a socket whose peer stopped
// reading: it returns only when the connection is closed or the write deadline passes.
func (c *Conn) StallWrites() {
	c.stallOnce.Do(func() { c.stallWake = make(chan struct{}) })
	c.stall.Store(true)
}

func NewConn() *Conn {
	return &Conn{wake: make(chan struct{}), writeErrAt: -1, Local: "10.1.2.3:45678", wsem: make(chan struct{}, 1), wdlChanged: make(chan struct{})}
}

// signal wakes blocked readers; rmu must be held.
func (c *Conn) signal() {
	close(c.wake)
	c.wake = make(chan struct{})
}

func (c *Conn) note(op string) {
	c.cmu.Lock()
	c.Calls = append(c.Calls, Call{Seq: int(c.seq.Add(1)), Op: op, At: time.Now()})
	c.cmu.Unlock()
}

// Deliver queues bytes from the server, in the given segments (nil = one).
func (c *Conn) Deliver(b []byte, segs []int) {
	c.rmu.Lock()
	defer c.rmu.Unlock()
	if c.cut {
		return
	}
	rest := b
	for _, s := range segs {
		if s == 0 && len(rest) > 0 {
			// an empty segment: the next Read returns 0 bytes and no error
			c.rq = append(c.rq, []byte{})
			continue
		}
		if s <= 0 || len(rest) == 0 {
			continue
		}
		if s > len(rest) {
			s = len(rest)
		}
		c.rq = append(c.rq, append([]byte(nil), rest[:s]...))
		rest = rest[s:]
	}
	if len(rest) > 0 {
		c.rq = append(c.rq, append([]byte(nil), rest...))
	}
	c.signal()
}

// FailReads makes reads return err once queued data is consumed (io.EOF = orderly close).
func (c *Conn) FailReads(err error) {
	c.rmu.Lock()
	c.rerr = err
	c.signal()
	c.rmu.Unlock()
}

// CutReads drops everything queued and makes reads fail with err from now on.
func (c *Conn) CutReads(err error) {
	c.rmu.Lock()
	c.rq = nil
	c.rerr = err
	c.cut = true
	c.signal()
	c.rmu.Unlock()
}

// FailWritesAfter makes the write that would exceed total n bytes fail.
func (c *Conn) FailWritesAfter(n int) {
	c.wmu.Lock()
	c.writeErrAt = n
	c.wmu.Unlock()
}

func (c *Conn) gate(name string) {
	if c.Sched != nil {
		c.Sched.Gate(name)
	}
}

type timeoutErr struct{}

func (timeoutErr) Error() string   { return "i/o timeout" }
func (timeoutErr) Timeout() bool   { return true }
func (timeoutErr) Temporary() bool { return true }
func (timeoutErr) Is(t error) bool { return t == os.ErrDeadlineExceeded }

func (c *Conn) Read(p []byte) (int, error) {
	c.gate("read")
	for {
		if c.closed.Load() {
			c.note("read-after-close")
			return 0, &net.OpError{Op: "read", Net: "sim", Err: net.ErrClosed}
		}
		c.rmu.Lock()
		if len(c.rq) > 0 {
			if len(p) == 0 {
				c.rmu.Unlock()
				return 0, nil
			}
			seg := c.rq[0]
			n := copy(p, seg)
			if n == len(seg) {
				c.rq = c.rq[1:]
			} else {
				c.rq[0] = seg[n:]
			}
			c.delivered += n
			c.rmu.Unlock()
			return n, nil
		}
		if c.rerr != nil {
			err := c.rerr
			c.rmu.Unlock()
			return 0, err
		}
		dl := c.rdeadline
		wake := c.wake
		c.rmu.Unlock()
		if dl.IsZero() {
			<-wake
			continue
		}
		d := time.Until(dl)
		if d <= 0 {
			now := time.Now()
			c.rmu.Lock()
			c.timeouts++
			if now.Equal(c.lastTO) {
				c.spin++
			} else {
				c.lastTO, c.spin = now, 0
			}
			spinning := c.spin >= SpinLimit
			c.rmu.Unlock()
			if spinning {
				// The caller keeps reading against a deadline that has already passed without
				// ever re-arming it: on the virtual clock this never ends. Break the loop with
				// a hard error and report it.
				if !c.livelock.Swap(true) && OnLivelock != nil {
					OnLivelock(fmt.Sprintf("%d consecutive reads failed with i/o timeout at the same instant (read deadline %v in the past, never re-armed)", SpinLimit, -d))
				}
				return 0, &net.OpError{Op: "read", Net: "sim", Err: errors.New("simnet: livelock - reads spin on an expired deadline")}
			}
			return 0, &net.OpError{Op: "read", Net: "sim", Err: timeoutErr{}}
		}
		t := time.NewTimer(d)
		select {
		case <-wake:
			t.Stop()
		case <-t.C:
		}
	}
}

func (c *Conn) Write(p []byte) (int, error) {
	c.gate("write")
	if c.wsem != nil {
		c.wsem <- struct{}{}
		defer func() { <-c.wsem }()
	}
	for c.stall.Load() && !c.closed.Load() {
		c.wmu.Lock()
		dl := c.wdeadline
		changed := c.wdlChanged
		c.wmu.Unlock()
		if !dl.IsZero() && !time.Now().Before(dl) {
			break // reported as a timeout below
		}
		var timer <-chan time.Time
		var t *time.Timer
		if !dl.IsZero() {
			t = time.NewTimer(time.Until(dl))
			timer = t.C
		}
		select {
		case <-c.stallWake:
		case <-timer:
		case <-changed:
		}
		if t != nil {
			t.Stop()
		}
	}
	c.wmu.Lock()
	rec := WriteRec{Seq: int(c.seq.Add(1)), Data: append([]byte(nil), p...), Attempt: append([]byte(nil), p...), At: time.Now()}
	if c.closed.Load() {
		rec.AfterStop = true
		rec.Err = net.ErrClosed
		c.Writes = append(c.Writes, rec)
		c.wmu.Unlock()
		c.note("write-after-close")
		return 0, &net.OpError{Op: "write", Net: "sim", Err: net.ErrClosed}
	}
	if !c.wdeadline.IsZero() && !time.Now().Before(c.wdeadline) {
		rec.Data = nil
		rec.Err = timeoutErr{}
		c.Writes = append(c.Writes, rec)
		c.wmu.Unlock()
		return 0, &net.OpError{Op: "write", Net: "sim", Err: timeoutErr{}}
	}
	n := len(p)
	var err error
	if c.writeErrAt >= 0 && c.written+n > c.writeErrAt {
		n = c.writeErrAt - c.written
		if n < 0 {
			n = 0
		}
		if c.WriteErrTimeout {
			err = &net.OpError{Op: "write", Net: "sim", Err: timeoutErr{}}
		} else {
			err = &net.OpError{Op: "write", Net: "sim", Err: fmt.Errorf("connection reset by peer")}
		}
		rec.Data = rec.Data[:n]
		rec.Err = err
	}
	c.written += n
	c.Writes = append(c.Writes, rec)
	srv := c.Server
	c.wmu.Unlock()
	if srv != nil && n > 0 {
		srv.onClientBytes(rec.Data[:n])
	}
	return n, err
}

func (c *Conn) Close() error {
	// No gate here: ch.Client.Close calls conn.Close while holding its mutex, and a goroutine
	// waiting for that mutex is not durably blocked, so synctest.Wait would never return.
	c.cmu.Lock()
	c.CloseCalls++
	c.Calls = append(c.Calls, Call{Seq: int(c.seq.Add(1)), Op: "close", At: time.Now()})
	c.cmu.Unlock()
	if c.CloseDelay > 0 && !c.closed.Load() {
		// a close that takes time (TLS close-notify, linger): the connection counts as open until it is over
		time.Sleep(c.CloseDelay)
	}
	if c.closed.Swap(true) {
		return &net.OpError{Op: "close", Net: "sim", Err: net.ErrClosed}
	}
	c.wakeStalled()
	c.rmu.Lock()
	c.signal()
	c.rmu.Unlock()
	return c.CloseErr
}

func (c *Conn) wakeStalled() {
	c.stallOnce.Do(func() { c.stallWake = make(chan struct{}) })
	c.stallCloseOnce.Do(func() { close(c.stallWake) })
}

func (c *Conn) LocalAddr() net.Addr {
	c.gate("localaddr")
	return c.Local
}
func (c *Conn) RemoteAddr() net.Addr { return Addr("10.9.9.9:9000") }

func (c *Conn) SetDeadline(t time.Time) error {
	_ = c.SetReadDeadline(t)
	return c.SetWriteDeadline(t)
}

func (c *Conn) SetReadDeadline(t time.Time) error {
	c.gate("setreaddeadline")
	if c.closed.Load() {
		c.note("setreaddeadline-after-close")
		return &net.OpError{Op: "set", Net: "sim", Err: net.ErrClosed}
	}
	c.rmu.Lock()
	c.rdeadline = t
	c.signal()
	c.rmu.Unlock()
	return nil
}

func (c *Conn) SetWriteDeadline(t time.Time) error {
	c.gate("setwritedeadline")
	if c.closed.Load() {
		c.note("setwritedeadline-after-close")
		return &net.OpError{Op: "set", Net: "sim", Err: net.ErrClosed}
	}
	c.wmu.Lock()
	c.wdeadline = t
	if c.wdlChanged != nil {
		close(c.wdlChanged)
		c.wdlChanged = make(chan struct{})
	}
	c.wmu.Unlock()
	return nil
}

// Closed reports whether Close was called.
func (c *Conn) Closed() bool { return c.closed.Load() }

// ForceClose closes from the harness side (not counted as a client call).
func (c *Conn) ForceClose() {
	if !c.closed.Swap(true) {
		c.wakeStalled()
		c.rmu.Lock()
		c.signal()
		c.rmu.Unlock()
	}
}

// WrittenBytes returns everything the client wrote successfully, concatenated.
func (c *Conn) WrittenBytes() []byte {
	c.wmu.Lock()
	defer c.wmu.Unlock()
	var out []byte
	for _, w := range c.Writes {
		if !w.AfterStop {
			out = append(out, w.Data...)
		}
	}
	return out
}

// NumWrites returns the number of Write calls so far.
func (c *Conn) NumWrites() int {
	c.wmu.Lock()
	defer c.wmu.Unlock()
	return len(c.Writes)
}

// Snapshot returns copies of the recorded writes and calls.
func (c *Conn) Snapshot() ([]WriteRec, []Call) {
	c.wmu.Lock()
	w := append([]WriteRec(nil), c.Writes...)
	c.wmu.Unlock()
	c.cmu.Lock()
	defer c.cmu.Unlock()
	return w, append([]Call(nil), c.Calls...)
}

// NumCloseCalls returns how often Close was called by the client.
func (c *Conn) NumCloseCalls() int {
	c.cmu.Lock()
	defer c.cmu.Unlock()
	return c.CloseCalls
}

// Unread returns server bytes queued but not yet read by the client.
func (c *Conn) Unread() int {
	c.rmu.Lock()
	defer c.rmu.Unlock()
	n := 0
	for _, s := range c.rq {
		n += len(s)
	}
	return n
}

// DeliveredBytes returns how many server bytes the client has read.
func (c *Conn) DeliveredBytes() int {
	c.rmu.Lock()
	defer c.rmu.Unlock()
	return c.delivered
}

// ReadTimeouts returns how many reads ended with a deadline expiry.
// SpinLimit: so many read timeouts in a row at one instant of the clock mean the reader spins.
const SpinLimit = 20000

// OnLivelock, when set, is told about a reader spinning on an expired deadline.
var OnLivelock func(msg string)

// Livelocked reports whether a reader was caught spinning on an expired deadline.
func (c *Conn) Livelocked() bool { return c.livelock.Load() }

func (c *Conn) ReadTimeouts() int {
	c.rmu.Lock()
	defer c.rmu.Unlock()
	return c.timeouts
}

var _ net.Conn = (*Conn)(nil)
var _ = ref.ErrShort
