#!/usr/bin/env python3
"""Confirm a seeded breaking change and run /verif checks against it.

  seed_eval.py <seed-src-dir> <seed-id> <property> <check-id>[,<check-id>...] [--scale S]

seed-src-dir holds patch.diff, demo_test.go (first line '// place in: <dir>/'), README.md.
Steps: (1) in a scratch worktree of /repo: apply, build (default + purego), run the baseline suite,
run the demo (must fail), revert, run the demo (must pass); (2) apply to /repo, run the checks,
revert /repo; (3) store everything under /verif/seeded/<seed-id>/.
"""
import json, os, re, shutil, subprocess, sys, time

ENV = dict(os.environ, GOFLAGS="-mod=mod", GOPROXY="off", GOSUMDB="off", GOTOOLCHAIN="local")


def sh(cmd, cwd=None, timeout=3600):
    p = subprocess.run(cmd, shell=True, cwd=cwd, env=ENV, stdout=subprocess.PIPE, stderr=subprocess.STDOUT, text=True, errors="replace", timeout=timeout)
    return p.returncode, p.stdout


def main():
    src, sid, prop, checks = sys.argv[1], sys.argv[2], sys.argv[3], sys.argv[4].split(",")
    scale = "1"
    if "--scale" in sys.argv:
        scale = sys.argv[sys.argv.index("--scale") + 1]
    out = os.path.join("/verif/seeded", sid)
    os.makedirs(out, exist_ok=True)
    patch = os.path.join(src, "patch.diff")
    demo = os.path.join(src, "demo_test.go")
    meta = {"id": sid, "property": prop, "source": "independent sub-agent given only the property text and a scratch worktree",
            "confirmed": {}, "checks": {}}
    first = open(demo).readline()
    m = re.search(r"place in:\s*(\S+)", first)
    place = (m.group(1) if m else "proto/").strip("`").rstrip("/") or "."
    wt = f"/tmp/seedchk/{sid}"
    sh(f"git -C /repo worktree remove --force {wt}")
    shutil.rmtree(wt, ignore_errors=True)
    rc, o = sh(f"git -C /repo worktree add -q --detach {wt} HEAD")
    try:
        rc, o = sh(f"git apply {patch}", cwd=wt)
        meta["confirmed"]["applies"] = rc == 0
        if rc != 0:
            meta["confirmed"]["apply_output"] = o[-500:]
            raise SystemExit("patch does not apply: " + o[-300:])
        rc1, o1 = sh("go build ./... && go build -tags purego ./...", cwd=wt)
        meta["confirmed"]["builds"] = rc1 == 0
        rc2, o2 = sh("for m in . ./internal/cmd/ch-dl; do (cd $m && go test -vet=off -count=1 -timeout 25m ./... ) ; done 2>&1 | grep -v '^ok\\|no test files' | tail -15", cwd=wt)
        meta["confirmed"]["baseline_passes_with_change"] = "FAIL" not in o2
        meta["confirmed"]["baseline_tail"] = o2[-600:]
        dst = os.path.join(wt, place, "zz_seed_demo_test.go")
        shutil.copy(demo, dst)
        names = re.findall(r"^func (Test\w+)\(", open(demo).read(), re.M)
        pat = "^(" + "|".join(names) + ")$" if names else "Seed"
        flagsets = [""]
        if prop == "C12":
            flagsets = ["-race"]
        if prop == "C15":
            flagsets = ["", "-tags purego"]
        fails, o3all = False, ""
        for fl in flagsets:
            rc3, o3 = sh(f"go test {fl} -count=1 -run '{pat}' ./{place}/ 2>&1 | tail -15", cwd=wt)
            fails = fails or ("FAIL" in o3)
            o3all += f"[{fl}] " + o3
        meta["confirmed"]["demo_fails_with_change"] = fails
        meta["confirmed"]["demo_with_change_tail"] = o3all[-900:]
        sh(f"git apply -R {patch}", cwd=wt)
        passes, o4all = True, ""
        for fl in flagsets:
            rc4, o4 = sh(f"go test {fl} -count=1 -run '{pat}' ./{place}/ 2>&1 | tail -5", cwd=wt)
            passes = passes and ("FAIL" not in o4 and "ok" in o4 and "no tests to run" not in o4)
            o4all += f"[{fl}] " + o4
        meta["confirmed"]["demo_passes_without_change"] = passes
        meta["confirmed"]["demo_without_change_tail"] = o4all[-400:]
        meta["confirmed"]["demo_tests"] = names
    finally:
        sh(f"git -C /repo worktree remove --force {wt}")
        shutil.rmtree(wt, ignore_errors=True)
    if "--confirm-only" in sys.argv and os.path.exists(os.path.join(out, "meta.json")):
        old = json.load(open(os.path.join(out, "meta.json")))
        old["confirmed"] = meta["confirmed"]
        json.dump(old, open(os.path.join(out, "meta.json"), "w"), indent=1)
        print(sid, "re-confirmed:", {k: v for k, v in meta["confirmed"].items() if isinstance(v, bool)})
        return
    # Run the checks against a scratch worktree with the change applied (VERIF_REPO),
    # so that /repo stays untouched while other work goes on.
    wt2 = f"/tmp/seedrun/{sid}"
    sh(f"git -C /repo worktree remove --force {wt2}")
    shutil.rmtree(wt2, ignore_errors=True)
    sh(f"git -C /repo worktree add -q --detach {wt2} HEAD")
    try:
        rc, o = sh(f"git apply {patch}", cwd=wt2)
        for c in checks:
            t0 = time.time()
            rc, o = sh(f"VERIF_REPO={wt2} ./check {c} --tier quick --scale {scale}", cwd="/verif", timeout=3600)
            lines = [l for l in o.splitlines() if l.startswith(("VIOLATION", "OK ", "INCONCLUSIVE", "KNOWN"))]
            first_msg = ""
            sp = o.split("VIOLATION", 1)
            if len(sp) > 1:
                first_msg = sp[1][:700]
            meta["checks"][c] = {"exit": rc, "detected": rc == 1, "wall_s": round(time.time() - t0, 1),
                                 "summary": lines[:4], "first_violation": first_msg}
    finally:
        sh(f"git -C /repo worktree remove --force {wt2}")
        shutil.rmtree(wt2, ignore_errors=True)
        h = __import__("hashlib").sha256(wt2.encode()).hexdigest()[:10]
        shutil.rmtree(os.path.join("/verif/work/alt", h), ignore_errors=True)
    shutil.copy(patch, os.path.join(out, "patch.diff"))
    shutil.copy(demo, os.path.join(out, "demo_test.go"))
    readme = os.path.join(src, "README.md")
    if os.path.exists(readme):
        shutil.copy(readme, os.path.join(out, "agent_README.md"))
    meta["ran"] = f"tools/seed_eval.py {src} {sid} {prop} {','.join(checks)} --scale {scale}"
    json.dump(meta, open(os.path.join(out, "meta.json"), "w"), indent=1)
    det = {c: v["detected"] for c, v in meta["checks"].items()}
    print(sid, "confirmed:", {k: v for k, v in meta["confirmed"].items() if isinstance(v, bool)}, "detected:", det)


if __name__ == "__main__":
    main()
