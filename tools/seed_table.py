#!/usr/bin/env python3
"""Prints the markdown table of seeded changes and which checks detect them (from /verif/seeded/*/meta.json)."""
import glob, json, os, re
rows = []
for f in sorted(glob.glob('/verif/seeded/*/meta.json')):
    m = json.load(open(f))
    sid = m['id']
    d = os.path.dirname(f)
    what = ''
    rd = os.path.join(d, 'agent_README.md')
    summ = m.get('summary', '')
    conf = m['confirmed']
    ok = all(conf.get(k) for k in ('applies', 'builds', 'baseline_passes_with_change', 'demo_fails_with_change', 'demo_passes_without_change'))
    det = [c for c, v in m['checks'].items() if v['detected']]
    miss = [c for c, v in m['checks'].items() if not v['detected']]
    rows.append((sid, m['property'], ok, det, miss, summ))
print('| seed | property | confirmed | detected by (quick tier) | ran, not detected |')
print('|------|----------|-----------|--------------------------|-------------------|')
for sid, prop, ok, det, miss, summ in rows:
    print(f"| {sid} | {prop} | {'yes' if ok else 'NO'} | {', '.join(det) or '-'} | {', '.join(miss) or '-'} |")
n = len(rows); d = sum(1 for r in rows if r[3]); own = sum(1 for r in rows if r[1] in r[3])
print(f"\n{n} seeded changes, {d} detected by at least one check, {own} detected by the check of the property they were written against.")
