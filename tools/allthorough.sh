#!/bin/bash
for c in C01 C02 C03 C04 C05 C06 C07 C08 C09 C10 C11 C12 C13 C14 C15 C16 C17 C18 C19 C20; do
  s=$(date +%s); ./check $c --tier thorough > out_$c.txt 2>&1; rc=$?; e=$(date +%s)
  echo "$c rc=$rc $((e-s))s $(tail -1 out_$c.txt | cut -c1-200)"
done
